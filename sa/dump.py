import sys
from .engine import Analysis
from .terms import show

def dump_path(p, indent="  "):
    for e in p.events:
        if e.kind == "LOOP":
            print(indent + "LOOP %s %s @%d" % (e.a.get("lkind"), show(e.a.get("iter") or e.a.get("test")), e.line))
            for i, bp in enumerate(e.a["body"]):
                print(indent + "  body path %d exit=%s conds=%s" % (i, bp.exit_kind(), list(bp.conds)[len(e.conds):]))
                dump_path(bp, indent + "    ")
        else:
            print(indent + e.brief())

if __name__ == "__main__":
    a = Analysis()
    cls = [c for c in a.protos if sys.argv[1] in c.qual][0]
    print("class", cls.qual, "slots", {k: v.qual for k, v in a.engine(cls).state_slots.items()})
    paths = a.entry(cls, sys.argv[2])
    print(len(paths), "paths")
    for i, p in enumerate(paths):
        if len(sys.argv) > 3 and str(i) not in sys.argv[3:]:
            continue
        print("PATH", i, "exit", p.exit_kind(), show(p.exit[1]) if p.exit and len(p.exit) > 1 else "", "conds", list(p.conds))
        dump_path(p)
