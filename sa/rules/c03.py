"""C03: packet framing is independent of how TCP segments the byte stream."""
import ast

from ..model import AnalysisError
from ..terms import SELF, FAC, NONE, show, is_const, mentions, subterms
from ..catalogue import catalogue, is_effect
from .common import where, cls_short, short

EXPLANATION = (
    "Premises of the framing lemma - if the only state carried between calls is the unconsumed suffix and each iteration "
    "removes exactly the packet it dispatches, the dispatch sequence is a function of the concatenation - decided on the "
    "abstract paths of dataReceived: F1 the framer writes no instance attribute but the carry buffer and reads no other "
    "mutable one; F2 every reassignment of the carry is carry[E:] on the same path as the dispatch of carry[:E] with the "
    "same E, both under len(carry) >= E; F3 E is (decoded remaining length) + (width of the length field) + 1 where the "
    "length comes from decodeLength applied to the carry from index 1, the width from a scan that starts at index 1 and "
    "tests the same continuation bit as decodeLength; F4 no path that leaves without dispatching modifies the carry; F5 "
    "the dispatch sits in a loop whose test re-reads the carry; F6 no stale length: every iteration either consumes a "
    "packet and resets the decoded length, or leaves the loop; F7 the dispatcher passes the whole slice unmodified to at "
    "most one handler. Equality of observable traces over all chunkings is the lemma's conclusion, not observed.")
ASSUMPTIONS = ["decodeLength is a correct decoder of the remaining-length field (C01)"]


def leaves_of_sum(t):
    if isinstance(t, tuple) and t[0] == "binop" and t[1] == "Add":
        return leaves_of_sum(t[2]) + leaves_of_sum(t[3])
    return [t]


def check(ctx):
    a = ctx.a
    prog = a.prog
    pdu = prog.modules.get("mqtt.pdu")
    if pdu is None or "decodeLength" not in pdu.funcs:
        raise AnalysisError("anchor vanished: mqtt.pdu.decodeLength")
    # continuation mask of decodeLength
    cont = set()
    for x in ast.walk(pdu.funcs["decodeLength"].node):
        if isinstance(x, ast.Compare) or isinstance(x, ast.If):
            for y in ast.walk(x.test if isinstance(x, ast.If) else x):
                if isinstance(y, ast.BinOp) and isinstance(y.op, ast.BitAnd):
                    ok, v = prog.try_fold(y.right, pdu)
                    if ok:
                        cont.add(v)
    n_disp = 0
    for cls in a.protos:
        cat = catalogue(a, cls)
        cq = cls_short(cls.qual)
        ent = cat.get("dataReceived")
        if ent is None:
            raise AnalysisError("anchor vanished: dataReceived")
        p0 = ent.paths[0]
        ext = [e for e in p0.events if e.kind == "MCALL" and e.a["name"] == "extend"]
        loops = [e for e in p0.events if e.kind == "LOOP"]
        w0 = "%s:%d" % (ent.func.file, ent.func.node.lineno)
        if len(ext) != 1 or len(loops) != 1 or ext[0].a["args"] != (("param", "data"),):
            ctx.ob("F1", "%s dataReceived appends the chunk to one carry buffer and loops over it" % cq, False, where=w0, function=ent.func.qual,
                   construct="%s/framer-shape" % ent.func.qual, msg="framer shape not recognised: %d extend calls, %d loops" % (len(ext), len(loops)))
            continue
        B = ext[0].a["obj"]
        carry = B[2]
        outer = loops[0]
        framer_q = outer.func
        framer = prog.funcs[framer_q]
        ctx.ob("F1", "%s the chunk is appended to the carry before framing" % cq, p0.events.index(ext[0]) < p0.events.index(outer),
               where=where(ext[0]), function=framer_q, construct="%s/extend-first" % framer_q, nontrivial=False)
        # F5
        ctx.ob("F5", "%s framing loop re-reads the carry" % cq, outer.a["lkind"] == "while" and mentions(outer.a.get("test"), B),
               where=where(outer), function=framer_q, construct="%s/loop-test" % framer_q,
               msg="the framing loop is %s over %s: several packets in one chunk are not all framed" % (outer.a["lkind"], show(outer.a.get("test") or outer.a.get("iter"))))
        # F1: attribute discipline of the framer functions
        framer_funcs = {framer_q, ent.func.qual}
        for fq in sorted(framer_funcs):
            fn = prog.funcs[fq]
            for x in ast.walk(fn.node):
                if isinstance(x, ast.Attribute) and isinstance(x.value, ast.Name) and x.value.id == "self":
                    if x.attr == carry:
                        continue
                    if prog.lookup_method(cls, x.attr) is not None:
                        continue
                    ctx.ob("F1", "%s framer touches no instance state but the carry" % cq, False, where="%s:%d" % (fn.file, x.lineno), function=fq,
                           construct="%s/state/%s" % (fq, x.attr), msg="the framer %s self.%s: the dispatch sequence can depend on more than the "
                           "concatenated bytes" % ("writes" if isinstance(x.ctx, ast.Store) else "reads", x.attr))
        ctx.ob("F1", "%s framer state is the carry buffer only" % cq, True, nontrivial=False, where=w0, construct="%s/state" % framer_q)
        # scan variable initialised to 1 before the width scan
        scan_ok = False
        for x in ast.walk(framer.node):
            body = getattr(x, "body", None)
            if not isinstance(body, list):
                continue
            for i, s in enumerate(body):
                if isinstance(s, ast.While) and s is not outer.node:
                    idx = [y for y in ast.walk(s) if isinstance(y, ast.Subscript) and isinstance(y.value, ast.Attribute) and y.value.attr == carry
                           and isinstance(y.slice, ast.Name)]
                    if not idx:
                        continue
                    v = idx[0].slice.id
                    prev = [t for t in body[:i] if isinstance(t, ast.Assign) and len(t.targets) == 1 and isinstance(t.targets[0], ast.Name)
                            and t.targets[0].id == v]
                    if prev and isinstance(prev[-1].value, ast.Constant) and prev[-1].value.value == 1:
                        scan_ok = True
        ctx.ob("F3", "%s width scan starts at index 1" % cq, scan_ok, where=w0, function=framer_q, construct="%s/scan-start" % framer_q,
               msg="the scan of the remaining-length field does not start at byte 1 of the carry")
        for bp in outer.a["body"]:
            evs = bp.events
            D = None
            for e in evs:
                if e.kind == "CALL" and e.a["recv"] == SELF and e.func == framer_q and e.a["args"] and mentions(e.a["args"][0], B):
                    D = e
                    break
            sets = [e for e in evs if e.kind == "SETATTR" and e.a["obj"] == SELF and e.func == framer_q]
            muts = [e for e in evs if e.kind == "MCALL" and e.a["obj"] == B and e.func == framer_q]
            if D is None:
                # F4 / F6(b)
                ctx.ob("F4", "%s a path that dispatches nothing leaves the carry alone" % cq, not sets and not muts,
                       where=where((sets + muts)[0]) if sets + muts else where(outer), function=framer_q, construct="%s/carry-modified-without-dispatch" % framer_q,
                       msg="the carry is modified on a path that dispatches no packet: bytes are dropped or duplicated")
                ctx.ob("F6", "%s an iteration that dispatches nothing leaves the loop" % cq, bp.exit_kind() in ("break", "return", "raise"), where=where(outer),
                       function=framer_q, construct="%s/idle-iteration" % framer_q,
                       msg="an iteration that consumes nothing continues the loop (exit=%s): a decoded length can go stale or the loop spin" % bp.exit_kind())
                continue
            # infeasible arm: decoded length already known at the loop head (excluded by F6 on all other paths)
            fresh = any(e.kind == "RET" and e.a["func"].endswith(".decodeLength") for e in evs)
            if not fresh:
                continue
            n_disp += 1
            sl = D.a["args"][0]
            if not (isinstance(sl, tuple) and sl[0] == "slice" and sl[1] == B):
                ctx.ob("F2", "%s the dispatched packet is carry[:E]" % cq, False, where=where(D), function=framer_q,
                       construct="%s/dispatch-slice" % framer_q, msg="dispatcher called with %s" % show(sl))
                continue
            E = sl[3]
            ok = sl[2] == NONE and sl[4] == NONE and len(D.a["args"]) == 1
            ctx.ob("F2", "%s the dispatched packet is carry[:E]" % cq, ok, where=where(D), function=framer_q, construct="%s/dispatch-slice" % framer_q,
                   msg="dispatcher called with %s" % show(sl))
            after = [e for e in sets if evs.index(e) > evs.index(D)]
            ok2 = len(sets) == 1 and len(after) == 1 and after[0].a["field"] == carry and after[0].a["val"] == ("slice", B, E, NONE, NONE)
            ctx.ob("F2", "%s the carry becomes carry[E:] with the same E, once, after the dispatch" % cq, ok2, where=where(sets[0]) if sets else where(D),
                   function=framer_q, construct="%s/consume" % framer_q,
                   msg="dispatched carry[:%s] but the carry is reassigned to %s" % (show(E), [show(s.a["val"]) for s in sets]))
            guard = False
            lenB = ("call", ("builtin", "len"), (B,))
            for c in bp.conds:
                t, pol = c.term, c.pol
                while isinstance(t, tuple) and t and t[0] == "not":
                    t, pol = t[1], not pol
                if isinstance(t, tuple) and t[0] == "cmp":
                    if t[2] == lenB and t[3] == E and ((t[1] == ">=" and pol) or (t[1] == "<" and not pol)):
                        guard = True
                    if t[3] == lenB and t[2] == E and ((t[1] == "<=" and pol) or (t[1] == ">" and not pol)):
                        guard = True
            ctx.ob("F2", "%s dispatch and consumption only when the whole packet has arrived (len(carry) >= E)" % cq, guard, where=where(D),
                   function=framer_q, construct="%s/complete-guard" % framer_q,
                   msg="no len(carry) >= E test dominates the dispatch: conditions %s" % [repr(c) for c in bp.conds][-3:])
            # F3
            ret = [e for e in evs if e.kind == "RET" and e.a["func"].endswith(".decodeLength")]
            call = [e for e in evs if e.kind == "CALL" and e.a["func"].endswith(".decodeLength")]
            from_one = bool(call) and call[0].a["args"] == (("slice", B, ("const", 1), NONE, NONE),)
            ctx.ob("F3", "%s remaining length decoded from the carry starting at byte 1" % cq, from_one, where=where(call[0]) if call else where(D),
                   function=framer_q, construct="%s/length-source" % framer_q, msg="decodeLength applied to %s" % ([show(x) for x in call[0].a["args"]] if call else None))
            leaves = leaves_of_sum(E)
            scan_loops = [e for e in evs if e.kind == "LOOP" and e.func == framer_q]
            scan_vars = set()
            allconds = list(bp.conds)
            for lp in scan_loops:
                for sb in lp.a["body"]:
                    allconds.extend(sb.conds)
                t = lp.a.get("test")
                if t is not None:
                    from ..terms import Cond
                    allconds.append(Cond(t, True, lp.file, lp.line, "loop test"))
            for c in allconds:
                for x in subterms(c.term):
                    if isinstance(x, tuple) and x[:2] == ("sub", B) and isinstance(x[2], tuple) and x[2][0] == "unk":
                        scan_vars.add(x[2])
            okE = len(leaves) == 3 and ("const", 1) in leaves and bool(ret) and ret[0].a["val"] in leaves and any(v in leaves for v in scan_vars)
            ctx.ob("F3", "%s E = decoded length + width of the length field + 1" % cq, okE, where=where(D), function=framer_q,
                   construct="%s/extent" % framer_q, msg="packet extent computed as %s" % show(E))
            masks = set()
            for c in allconds:
                for x in subterms(c.term):
                    if isinstance(x, tuple) and x[0] == "binop" and x[1] == "BitAnd" and isinstance(x[2], tuple) and x[2][:2] == ("sub", B) and is_const(x[3]):
                        masks.add(x[3][1])
            ctx.ob("F3", "%s width scan tests the continuation bit decodeLength uses" % cq, bool(masks) and masks <= cont and bool(cont), where=where(D),
                   function=framer_q, construct="%s/continuation-mask" % framer_q,
                   msg="the framer scans with mask %s, decodeLength continues on %s" % (sorted(masks), sorted(cont)))
            # F6(a): decoded length reset after consumption
            names = [k for k, v in bp.st.env.items() if v == ret[0].a["val"]] if ret else []
            ctx.ob("F6", "%s the decoded length is forgotten once its packet is consumed" % cq, bool(ret) and not names and bp.exit_kind() in ("fall", "continue"),
                   where=where(D), function=framer_q, construct="%s/stale-length" % framer_q,
                   msg="after consuming a packet the local(s) %s still hold its decoded length: the next packet is framed with a stale length" % names)
            # F7
            depth = len(D.stack) + 1
            inner_calls = [e for e in bp.walk() if e.kind == "CALL" and len(e.stack) == depth and e.stack[:len(D.stack)] == D.stack and e.a["recv"] == SELF]
            ctx.ob("F7", "%s dispatcher hands the whole packet to at most one handler" % cq,
                   len(inner_calls) <= 1 and all(x.a["args"] == (sl,) for x in inner_calls), where=where(inner_calls[0]) if inner_calls else where(D),
                   function=D.a["func"], construct="%s/handler-arg" % D.a["func"],
                   msg="handlers called with %s" % [[show(y) for y in x.a["args"]] for x in inner_calls])
    ctx.count("dispatching_iterations", n_disp)
    ctx.floor("dispatching iteration paths", n_disp, 100)
