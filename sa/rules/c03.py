"""C03: packet framing is independent of how TCP segments the byte stream."""
import ast

from ..model import AnalysisError
from ..terms import SELF, FAC, NONE, show, is_const, mentions, subterms
from ..catalogue import catalogue, is_effect
from .common import where, cls_short, short

EXPLANATION = (
    "Premises of the framing lemma - if the only state carried between calls is the unconsumed suffix and each iteration "
    "removes exactly the packet it dispatches, the dispatch sequence is a function of the concatenation - decided on the "
    "abstract paths of dataReceived: F1 the framer writes no instance attribute but the carry buffer and reads no other "
    "mutable one; F2 every reassignment of the carry is carry[E:] on the same path as the dispatch of carry[:E] with the "
    "same E, both under len(carry) >= E; F3 E is (decoded remaining length) + (width of the length field) + 1 where the "
    "length comes from decodeLength applied to the carry from index 1, the width from a scan that starts at index 1 and "
    "tests the same continuation bit as decodeLength; F4 no path that leaves without dispatching modifies the carry; F5 "
    "the dispatch sits in a loop whose test re-reads the carry; F6 no stale length: every iteration either consumes a "
    "packet and resets the decoded length, or leaves the loop; F7 the dispatcher passes the whole slice unmodified to at "
    "most one handler. Equality of observable traces over all chunkings is the lemma's conclusion, not observed. "
    " F3 also checks that the width scan advances one byte per iteration; F5 that the framer gives up on a length test against a constant only while fewer than 2 bytes are buffered (a lone two-byte packet must not wait for later traffic).")
ASSUMPTIONS = ["decodeLength is a correct decoder of the remaining-length field (C01)"]


def is_text(t):
    """A message for the log: a string constant or a %-format of one (not packet data handed on)."""
    if is_const(t):
        return isinstance(t[1], str)
    return isinstance(t, tuple) and t[0] == "binop" and t[1] == "Mod" and is_const(t[2]) and isinstance(t[2][1], str)


def len_upper_bound(term, pol, B):
    """If `term` (taken with polarity pol) bounds len(B) from above by a constant, that constant (len(B) <= m), else None."""
    t = term
    while isinstance(t, tuple) and t and t[0] == "not":
        t, pol = t[1], not pol
    if not (isinstance(t, tuple) and t[:1] == ("cmp",)):
        return None
    lenB = ("call", ("builtin", "len"), (B,))
    op, l, r = t[1], t[2], t[3]
    if r == lenB and is_const(l):
        l, r, op = r, l, {"<": ">", "<=": ">=", ">": "<", ">=": "<=", "==": "==", "!=": "!="}.get(op, op)
    if l != lenB or not is_const(r) or isinstance(r[1], bool) or not isinstance(r[1], int):
        return None
    c = r[1]
    if (op == "<" and pol) or (op == ">=" and not pol):
        return c - 1
    if (op == "<=" and pol) or (op == ">" and not pol):
        return c
    if op == "==" and pol:
        return c
    return None


def _byte_of(x, sl):
    """A single byte of the dispatched packet (packet[0] handed to a look-up helper): not the packet, so not a hand-over to a handler."""
    return isinstance(x, tuple) and len(x) == 3 and x[0] == "sub" and x[1] == sl and is_const(x[2])


def leaves_of_sum(t):
    if isinstance(t, tuple) and t[0] == "binop" and t[1] == "Add":
        return leaves_of_sum(t[2]) + leaves_of_sum(t[3])
    return [t]


def check(ctx):
    a = ctx.a
    prog = a.prog
    pdu = prog.modules.get("mqtt.pdu")
    if pdu is None or "decodeLength" not in pdu.funcs:
        raise AnalysisError("anchor vanished: mqtt.pdu.decodeLength")
    # continuation mask of decodeLength
    cont = set()
    for x in ast.walk(pdu.funcs["decodeLength"].node):
        if isinstance(x, ast.Compare) or isinstance(x, ast.If):
            for y in ast.walk(x.test if isinstance(x, ast.If) else x):
                if isinstance(y, ast.BinOp) and isinstance(y.op, ast.BitAnd):
                    ok, v = prog.try_fold(y.right, pdu)
                    if ok:
                        cont.add(v)
    if not cont:
        # the test written on the whole byte (byte < 0x80 / byte >= 0x80): the bit the primitives' analysis found
        from ..codec_prims import check_primitives
        _, facts = check_primitives(prog)
        t = (facts.get("length") or ({}, {}))[1].get("test")
        if isinstance(t, int):
            cont.add(t)
    n_disp = 0
    for cls in a.protos:
        cat = catalogue(a, cls)
        cq = cls_short(cls.qual)
        ent = cat.get("dataReceived")
        if ent is None:
            raise AnalysisError("anchor vanished: dataReceived")
        # the outer paths differ in how the function is left; the one that reaches the framing loop is the one to read - but a way
        # out of the framer that bypasses the loop is itself a finding: whether a chunk is framed then depends on something else
        p0 = next((p for p in ent.paths if any(e.kind == "LOOP" for e in p.events)), ent.paths[0])
        for px in ent.paths:
            if px is not p0 and not any(e.kind == "LOOP" for e in px.events) and px.exit_kind() != "raise":
                extx = [e for e in px.events if e.kind == "MCALL" and e.a["name"] == "extend"]
                own = px.conds[len(extx[0].conds):] if extx else px.conds
                carry_obj = extx[0].a["obj"] if extx else None
                other = [s for c in own for s in subterms(c.term) if isinstance(s, tuple) and s[:2] == ("attr", SELF) and s != carry_obj]
                if not other:
                    continue      # a way out decided by the buffered bytes alone (too few to start a packet) is what the loop does anyway
                ctx.ob("F5", "%s every chunk reaches the framing loop" % cq, False, where="%s:%d" % (own[-1].file, own[-1].line) if own else "%s:%d" % (ent.func.file, ent.func.node.lineno),
                       function=ent.func.qual, construct="%s/bypasses-the-loop" % ent.func.qual,
                       msg="dataReceived can return without framing what is buffered (under %s): complete packets sit in the buffer until "
                           "some later chunk arrives - dispatch depends on how the stream was cut" % [repr(c) for c in own][-2:])
                break
        ext = [e for e in p0.events if e.kind == "MCALL" and e.a["name"] == "extend"]
        loops = [e for e in p0.events if e.kind == "LOOP"]
        w0 = "%s:%d" % (ent.func.file, ent.func.node.lineno)
        if len(ext) != 1 or len(loops) != 1 or ext[0].a["args"] != (("param", "data"),):
            ctx.ob("F1", "%s dataReceived appends the chunk to one carry buffer and loops over it" % cq, False, where=w0, function=ent.func.qual,
                   construct="%s/framer-shape" % ent.func.qual, msg="framer shape not recognised: %d extend calls, %d loops" % (len(ext), len(loops)))
            continue
        B = ext[0].a["obj"]
        carry = B[2]
        outer = loops[0]
        framer_q = outer.func
        framer = prog.funcs[framer_q]
        if framer.is_generator:
            # the loop that cuts packets off the carry is a generator's, the dispatch sits in its consumer: cutting, handing on and trimming
            # are spread over two frames that alternate.  The rules below read one loop in one frame - no verdict rather than a guess
            raise AnalysisError("framing loop of %s is a generator (%s) consumed elsewhere: shape not read" % (cq, framer_q))
        ctx.ob("F1", "%s the chunk is appended to the carry before framing" % cq, p0.events.index(ext[0]) < p0.events.index(outer),
               where=where(ext[0]), function=framer_q, construct="%s/extend-first" % framer_q, nontrivial=False)
        # F5: a while loop whose every iteration works on the current carry (its test re-reads it, or it is `while True` left
        # only by the idle-iteration exits F6 demands; the slices F2 checks are slices of the carry as it is in that iteration)
        t_outer = outer.a.get("test")
        if t_outer is not None:
            # the loop test as the exit it is: while len(carry) >= k / while len(carry) > k
            m_out = len_upper_bound(t_outer, False, B)
            if m_out is not None:
                ctx.ob("F5", "%s the framing loop stops only while fewer than 2 bytes are buffered" % cq, m_out <= 1, where=where(outer), function=framer_q,
                       construct="%s/minimum-wait" % framer_q,
                       msg="the framing loop stops when len(carry) <= %d: a complete two-byte packet (PINGRESP) that is the last thing received "
                           "stays in the buffer until something else arrives" % m_out)
        ctx.ob("F5", "%s framing loop re-reads the carry" % cq, outer.a["lkind"] == "while" and (mentions(t_outer, B) or t_outer == ("const", True)),
               where=where(outer), function=framer_q, construct="%s/loop-test" % framer_q,
               msg="the framing loop is %s over %s: several packets in one chunk are not all framed" % (outer.a["lkind"], show(t_outer or outer.a.get("iter"))))

        def dispatch_of(evs):
            """The call that hands a packet on: a method call on self, from the framer's own frame, whose argument is a slice of the carry."""
            cands = [e for e in evs if e.kind == "CALL" and e.a["recv"] == SELF and e.a["args"] and mentions(e.a["args"][0], B)
                     and (e.func == framer_q or any(fr[2] == framer_q for fr in e.stack))]
            sl = [e for e in cands if isinstance(e.a["args"][0], tuple) and e.a["args"][0][0] == "slice"]
            if sl:
                return sl[0]
            # not a slice: still the dispatcher if the packet-type lookup / state dispatch happens inside it (F2 then reports the argument)
            for c in cands:
                pre = c.stack + ((c.file, c.line, c.a["func"]),)
                if any(x.kind in ("CONSTMAP", "DISPATCH") and x.stack[:len(pre)] == pre for x in evs):
                    return c
            return None

        def inside(e, call):
            pre = call.stack + ((call.file, call.line, call.a["func"]),)
            return e.stack[:len(pre)] == pre

        # which idiom: (a) carry re-bound to its suffix after each packet, or (b) a local offset advanced per packet and one trim at the end
        off_terms = set()
        for bp in outer.a["body"]:
            for e in bp.events:
                if e.kind == "CALL" and e.a["recv"] == SELF and e.func == framer_q and e.a["args"] and isinstance(e.a["args"][0], tuple) \
                        and e.a["args"][0][0] == "slice" and e.a["args"][0][1] == B and e.a["args"][0][2] != NONE:
                    off_terms.add(e.a["args"][0][2])
        if off_terms:
            n_disp += offset_idiom(ctx, cls, cq, prog, p0, ent, outer, B, carry, framer_q, framer, cont, off_terms)
            continue
        # F1: attribute discipline of the framer and of the helpers it calls (everything but the dispatcher's subtree)
        framer_funcs = {framer_q, ent.func.qual}
        for bp in outer.a["body"]:
            Dx = dispatch_of(bp.events)
            for e in bp.walk():
                if e.kind != "CALL" or e.a["func"] not in prog.funcs or prog.funcs[e.a["func"]].module.name == "mqtt.pdu":
                    continue
                if Dx is not None and (e is Dx or inside(e, Dx)):
                    continue
                framer_funcs.add(e.a["func"])
        for fq in sorted(framer_funcs):
            fn = prog.funcs[fq]
            for x in ast.walk(fn.node):
                if isinstance(x, ast.Attribute) and isinstance(x.value, ast.Name) and x.value.id == "self":
                    if x.attr == carry:
                        continue
                    if prog.lookup_method(cls, x.attr) is not None:
                        continue
                    ctx.ob("F1", "%s framer touches no instance state but the carry" % cq, False, where="%s:%d" % (fn.file, x.lineno), function=fq,
                           construct="%s/state/%s" % (fq, x.attr), msg="the framer %s self.%s: the dispatch sequence can depend on more than the "
                           "concatenated bytes" % ("writes" if isinstance(x.ctx, ast.Store) else "reads", x.attr))
        ctx.ob("F1", "%s framer state is the carry buffer only" % cq, True, nontrivial=False, where=w0, construct="%s/state" % framer_q)
        for bp in outer.a["body"]:
            evs = bp.events
            D = dispatch_of(evs)
            own = [e for e in bp.walk() if D is None or (e is not D and not inside(e, D))]
            sets = [e for e in own if e.kind == "SETATTR" and e.a["obj"] == SELF]
            muts = [e for e in own if e.kind == "MCALL" and e.a["obj"] == B]
            if D is None:
                if bp.exit_kind() == "raise" and any(x.kind == "BUFINDEX" for x in bp.walk()):
                    # an exception out of the framer ends this call of dataReceived with the bytes still buffered and whatever else
                    # the chunk held unprocessed: where the chunk boundary falls decides what is dispatched
                    bi = [x for x in bp.walk() if x.kind == "BUFINDEX"]
                    ctx.ob("F4", "%s the framer raises nothing while a packet is incomplete" % cq, False, where=where(bi[-1]) if bi else where(outer),
                           function=framer_q, construct="%s/raises-on-partial-input" % framer_q,
                           msg="%s leaves the framer on a partial packet%s: whether the packets of a chunk are dispatched depends on where the "
                               "chunk was cut" % (show(bp.exit[1]), (" (%s[%s] read without a length test)" % (show(bi[-1].a["base"]), show(bi[-1].a["key"]))) if bi else ""))
                    continue
                # F5(b): giving up on a length test against a constant is only right when no complete packet can be there yet - the
                # shortest packet (PINGRESP, or any packet with an empty body) is two bytes long
                for c in bp.conds[len(outer.conds):]:
                    m = len_upper_bound(c.term, c.pol, B)
                    if m is not None:
                        ctx.ob("F5", "%s the framer waits for more bytes only while fewer than 2 are buffered" % cq, m <= 1, where="%s:%d" % (c.file, c.line),
                               function=framer_q, construct="%s/minimum-wait" % framer_q,
                               msg="the framer gives up for this chunk when len(carry) <= %d: a complete two-byte packet (PINGRESP) that is the "
                                   "last thing received stays in the buffer until something else arrives" % m)
                # F4 / F6(b)
                ctx.ob("F4", "%s a path that dispatches nothing leaves the carry alone" % cq, not sets and not muts,
                       where=where((sets + muts)[0]) if sets + muts else where(outer), function=framer_q, construct="%s/carry-modified-without-dispatch" % framer_q,
                       msg="the carry is modified on a path that dispatches no packet: bytes are dropped or duplicated")
                ctx.ob("F6", "%s an iteration that dispatches nothing leaves the loop" % cq, bp.exit_kind() in ("break", "return", "raise"), where=where(outer),
                       function=framer_q, construct="%s/idle-iteration" % framer_q,
                       msg="an iteration that consumes nothing continues the loop (exit=%s): a decoded length can go stale or the loop spin" % bp.exit_kind())
                continue
            # infeasible arm: decoded length already known at the loop head (excluded by F6 on all other paths)
            fresh = any(e.kind == "RET" and e.a["func"].endswith(".decodeLength") for e in own)
            if not fresh:
                continue
            # infeasible arm: the extent is len(carry) + (a constant >= 1) + the decoded length (never negative), and the dispatch stands
            # under len(carry) >= extent - that is the arm on which the width scan found no end of the length field and the
            # completeness test then says "wait" (a framer that folds the two tests into one)
            sl0 = D.a["args"][0]
            if isinstance(sl0, tuple) and sl0[0] == "slice" and sl0[1] == B:
                lv = leaves_of_sum(sl0[3])
                lenB0 = ("call", ("builtin", "len"), (B,))
                retv = [e.a["val"] for e in own if e.kind == "RET" and e.a["func"].endswith(".decodeLength")]
                if lenB0 in lv and retv:
                    rest0 = list(lv)
                    rest0.remove(lenB0)
                    for x in leaves_of_sum(retv[0]):
                        if x in rest0:
                            rest0.remove(x)
                    consts0 = [x for x in rest0 if is_const(x) and isinstance(x[1], int)]
                    guarded0 = any(isinstance(c.term, tuple) and c.term[:1] == ("cmp",) and lenB0 in (c.term[2], c.term[3]) and sl0[3] in (c.term[2], c.term[3])
                                   for c in D.conds)
                    if len(consts0) == len(rest0) and sum(x[1] for x in consts0) >= 1 and guarded0:
                        continue
            n_disp += 1
            sl = D.a["args"][0]
            if not (isinstance(sl, tuple) and sl[0] == "slice" and sl[1] == B):
                ctx.ob("F2", "%s the dispatched packet is carry[:E]" % cq, False, where=where(D), function=framer_q,
                       construct="%s/dispatch-slice" % framer_q, msg="dispatcher called with %s" % show(sl))
                continue
            E = sl[3]
            ok = sl[2] == NONE and sl[4] == NONE and len(D.a["args"]) == 1
            ctx.ob("F2", "%s the dispatched packet is carry[:E]" % cq, ok, where=where(D), function=framer_q, construct="%s/dispatch-slice" % framer_q,
                   msg="dispatcher called with %s" % show(sl))
            after = [e for e in sets if e.seq > D.seq]
            ok2 = len(sets) == 1 and len(after) == 1 and after[0].a["field"] == carry and after[0].a["val"] == ("slice", B, E, NONE, NONE)
            ctx.ob("F2", "%s the carry becomes carry[E:] with the same E, once, after the dispatch" % cq, ok2, where=where(sets[0]) if sets else where(D),
                   function=framer_q, construct="%s/consume" % framer_q,
                   msg="dispatched carry[:%s] but the carry is reassigned to %s" % (show(E), [show(s.a["val"]) for s in sets]))
            guard = False
            lenB = ("call", ("builtin", "len"), (B,))
            for c in D.conds:
                t, pol = c.term, c.pol
                while isinstance(t, tuple) and t and t[0] == "not":
                    t, pol = t[1], not pol
                if isinstance(t, tuple) and t[0] == "cmp":
                    if t[2] == lenB and t[3] == E and ((t[1] == ">=" and pol) or (t[1] == "<" and not pol)):
                        guard = True
                    if t[3] == lenB and t[2] == E and ((t[1] == "<=" and pol) or (t[1] == ">" and not pol)):
                        guard = True
            ctx.ob("F2", "%s dispatch and consumption only when the whole packet has arrived (len(carry) >= E)" % cq, guard, where=where(D),
                   function=framer_q, construct="%s/complete-guard" % framer_q,
                   msg="no len(carry) >= E test dominates the dispatch: conditions %s" % [repr(c) for c in D.conds][-3:])
            # F3
            ret = [e for e in own if e.kind == "RET" and e.a["func"].endswith(".decodeLength")]
            call = [e for e in own if e.kind == "CALL" and e.a["func"].endswith(".decodeLength")]
            scan_loops = [e for e in own if e.kind == "LOOP" and not e.func.startswith("mqtt.pdu.") and e is not outer]
            scan_vars = set()
            allconds = list(D.conds)
            for lp in scan_loops:
                for sb in lp.a["body"]:
                    allconds.extend(sb.conds)
                t = lp.a.get("test")
                if t is not None:
                    from ..terms import Cond
                    allconds.append(Cond(t, True, lp.file, lp.line, "loop test"))
            for c in allconds:
                for x in subterms(c.term):
                    if isinstance(x, tuple) and x[:2] == ("sub", B) and isinstance(x[2], tuple) and x[2][0] == "unk":
                        scan_vars.add(x[2])
            # a local that takes the scan variable's value on the way out of the scan loop (last = i; break) stands for it afterwards
            for lp in scan_loops:
                for sb in lp.a["body"]:
                    if sb.exit_kind() == "break" and sb.st is not None:
                        for nm, v in sb.st.env.items():
                            if v in scan_vars and isinstance(nm, str):
                                scan_vars.add(("unk", "%s@loop%s" % (nm, lp.a.get("loop"))))
            # the scan written over the bytes themselves: for b in carry[1:]: if b < 0x80: ...; n += 1 - the loop variable is the byte
            # carry[n], the counter that starts at 1 and goes up by one with every byte passed over is the scan variable
            elem_vars = set()
            elem_scan_ok = False
            for lp in scan_loops:
                if lp.a.get("lkind") == "for" and lp.a.get("iter") == ("slice", B, ("const", 1), NONE, NONE) and isinstance(lp.a.get("target"), str):
                    elem_vars.add(("unk", "%s@loop%s" % (lp.a["target"], lp.a.get("loop"))))
                    pre = lp.a.get("pre") or {}
                    for nm, v0 in pre.items():
                        if v0 != ("const", 1) or not isinstance(nm, str):
                            continue
                        cv = ("unk", "%s@loop%s" % (nm, lp.a.get("loop")))
                        bodies = [sb for sb in lp.a["body"] if sb.st is not None]
                        steps_ok = bool(bodies) and all(
                            sb.st.env.get(nm) in ((("binop", "Add", cv, ("const", 1)), ("binop", "Add", ("const", 1), cv))
                                                  if sb.exit_kind() in ("fall", "continue") else (cv,)) for sb in bodies)
                        if steps_ok:
                            scan_vars.add(cv)
                            elem_scan_ok = True
            # the scan variable starts at 1 (byte 0 is the type/flags byte): its value before the scan loop
            scan_ok = elem_scan_ok
            for lp in scan_loops:
                pre = lp.a.get("pre") or {}
                for v in scan_vars:
                    nm = str(v[1]).partition("@loop")
                    if nm[2] == str(lp.a.get("loop")) and pre.get(nm[0]) == ("const", 1):
                        scan_ok = True
                    # for v in range(1, n): the scan variable is the loop's own, its first value the first argument of range
                    it = lp.a.get("iter")
                    if nm[2] == str(lp.a.get("loop")) and lp.a.get("lkind") == "for" and lp.a.get("target") == nm[0] and isinstance(it, tuple) \
                            and it[:2] == ("call", ("builtin", "range")) and len(it[2]) >= 2 and it[2][0] == ("const", 1):
                        scan_ok = True
            # ... and moves to the next byte, one at a time, on every iteration that goes on
            for lp in scan_loops:
                if lp.a.get("lkind") != "while":
                    continue
                for v in sorted(scan_vars):
                    nm = str(v[1]).partition("@loop")
                    if nm[2] != str(lp.a.get("loop")):
                        continue
                    for sb in lp.a["body"]:
                        if sb.exit_kind() in ("fall", "continue") and sb.st is not None:
                            nv = sb.st.env.get(nm[0])
                            ok_step = nv in (("binop", "Add", v, ("const", 1)), ("binop", "Add", ("const", 1), v))
                            ctx.ob("F3", "%s width scan advances one byte per iteration" % cq, ok_step, where=where(lp), function=framer_q,
                                   construct="%s/scan-step" % framer_q,
                                   msg="an iteration of the scan of the remaining-length field leaves the index at %s: a length field of more than "
                                       "one byte is measured wrongly (or the scan never ends)" % show(nv))
            ctx.ob("F3", "%s width scan starts at index 1" % cq, scan_ok, where=where(scan_loops[0]) if scan_loops else w0, function=framer_q,
                   construct="%s/scan-start" % framer_q, msg="the scan of the remaining-length field does not start at byte 1 of the carry")
            src = call[0].a["args"][0] if call and call[0].a["args"] else None
            from_one = isinstance(src, tuple) and src[:3] == ("slice", B, ("const", 1)) and src[4] == NONE and (
                src[3] == NONE or any(src[3] in (("binop", "Add", v, ("const", 1)), ("binop", "Add", ("const", 1), v)) for v in scan_vars))
            ctx.ob("F3", "%s remaining length decoded from the carry starting at byte 1" % cq, from_one, where=where(call[0]) if call else where(D),
                   function=framer_q, construct="%s/length-source" % framer_q, msg="decodeLength applied to %s" % ([show(x) for x in call[0].a["args"]] if call else None))
            leaves = leaves_of_sum(E)
            okE = False
            # (decodeLength may return from more than one place - inside its loop and after it: E matches the value one of them yields)
            for r_ in ret:
                rl = leaves_of_sum(r_.a["val"])
                rest = list(leaves)
                ok1 = True
                for x in rl:
                    if x in rest:
                        rest.remove(x)
                    else:
                        ok1 = False
                if ok1 and len(rest) == 2 and ("const", 1) in rest and any(v in rest for v in scan_vars):
                    okE = True
            ctx.ob("F3", "%s E = decoded length + width of the length field + 1" % cq, okE, where=where(D), function=framer_q,
                   construct="%s/extent" % framer_q, msg="packet extent computed as %s" % show(E))
            masks = set()
            for c in allconds:
                for x in subterms(c.term):
                    if isinstance(x, tuple) and x[0] == "binop" and x[1] == "BitAnd" and isinstance(x[2], tuple) and (x[2][:2] == ("sub", B) or x[2] in elem_vars) \
                            and is_const(x[3]):
                        masks.add(x[3][1])
                    # the same bit tested on the whole byte: b < 0x80 / b >= 0x80 / b > 0x7F / b <= 0x7F
                    if isinstance(x, tuple) and x[0] == "cmp" and isinstance(x[2], tuple) and (x[2][:2] == ("sub", B) or x[2] in elem_vars) and is_const(x[3]) \
                            and isinstance(x[3][1], int):
                        if x[1] in ("<", ">="):
                            masks.add(x[3][1])
                        elif x[1] in (">", "<="):
                            masks.add(x[3][1] + 1)
            ctx.ob("F3", "%s width scan tests the continuation bit decodeLength uses" % cq, bool(masks) and masks <= cont and bool(cont), where=where(D),
                   function=framer_q, construct="%s/continuation-mask" % framer_q,
                   msg="the framer scans with mask %s, decodeLength continues on %s" % (sorted(masks), sorted(cont)))
            # F6(a): decoded length reset after consumption
            names = [k for k, v in bp.st.env.items() if v == ret[0].a["val"]] if ret else []
            # a local that every iteration assigns afresh before reading it (length = decodeLength(..) as a top-level statement of the
            # loop body ahead of any use) cannot carry a value over
            lnode = getattr(outer, "node", None)

            def fresh_each_time(nm):
                if not isinstance(lnode, (ast.While, ast.For)):
                    return False
                for s_ in lnode.body:
                    reads = any(isinstance(x, ast.Name) and x.id == nm and isinstance(x.ctx, ast.Load) for x in ast.walk(s_))
                    if isinstance(s_, ast.Assign) and len(s_.targets) == 1 and isinstance(s_.targets[0], ast.Name) and s_.targets[0].id == nm \
                            and not any(isinstance(x, ast.Name) and x.id == nm for x in ast.walk(s_.value)):
                        return True
                    if reads or any(isinstance(x, ast.Name) and x.id == nm for x in ast.walk(s_)):
                        return False
                return False
            names = [nm for nm in names if not (isinstance(nm, str) and fresh_each_time(nm))]
            ctx.ob("F6", "%s the decoded length is forgotten once its packet is consumed" % cq, bool(ret) and not names and bp.exit_kind() in ("fall", "continue"),
                   where=where(D), function=framer_q, construct="%s/stale-length" % framer_q,
                   msg="after consuming a packet the local(s) %s still hold its decoded length: the next packet is framed with a stale length" % names)
            # F7
            depth = len(D.stack) + 1
            inner_calls = [e for e in bp.walk() if e.kind == "CALL" and len(e.stack) == depth and e.stack[:len(D.stack)] == D.stack and e.a["recv"] == SELF
                           and inside(e, D) and not all(is_text(x) or _byte_of(x, sl) for x in e.a["args"])]
            ctx.ob("F7", "%s dispatcher hands the whole packet to at most one handler" % cq,
                   len(inner_calls) <= 1 and all(x.a["args"] == (sl,) for x in inner_calls), where=where(inner_calls[0]) if inner_calls else where(D),
                   function=D.a["func"], construct="%s/handler-arg" % D.a["func"],
                   msg="handlers called with %s" % [[show(y) for y in x.a["args"]] for x in inner_calls])
    ctx.count("dispatching_iterations", n_disp)
    ctx.floor("dispatching iteration paths", n_disp, 10)


def offset_idiom(ctx, cls, cq, prog, p0, ent, outer, B, carry, framer_q, framer, cont, off_terms):
    """Rules for the framer idiom that keeps a local offset into the carry and trims the carry once, after the loop."""
    n = 0
    w0 = "%s:%d" % (framer.file, framer.node.lineno)
    lenB = ("call", ("builtin", "len"), (B,))
    if len(off_terms) != 1 or not (isinstance(list(off_terms)[0], tuple) and list(off_terms)[0][0] == "unk"):
        ctx.ob("F2", "%s dispatch starts at the framer's own offset" % cq, False, where=w0, function=framer_q, construct="%s/offset-term" % framer_q,
               msg="packets are dispatched from %s" % [show(t) for t in off_terms])
        return 0
    lo = list(off_terms)[0]
    name = lo[1].split("@")[0]
    # B1: offset starts at 0
    init0 = any(isinstance(x, ast.Assign) and len(x.targets) == 1 and isinstance(x.targets[0], ast.Name) and x.targets[0].id == name
                and isinstance(x.value, ast.Constant) and x.value.value == 0 and x.lineno < outer.line for x in framer.node.body)
    ctx.ob("F2", "%s the offset into the carry starts at 0" % cq, init0, where=w0, function=framer_q, construct="%s/offset-init" % framer_q,
           msg="local `%s` is not initialised to 0 before the framing loop" % name)

    def is_trim(e, offname):
        if e.kind == "DELITEM" and e.a["base"] == B and isinstance(e.a["key"], tuple) and e.a["key"][0] == "slicekey" \
                and e.a["key"][1] == NONE and e.a["key"][3] == NONE:
            k = e.a["key"][2]
            return isinstance(k, tuple) and k[0] == "unk" and k[1].split("@")[0] == offname
        if e.kind == "SETATTR" and e.a["obj"] == SELF and e.a["field"] == carry and isinstance(e.a["val"], tuple) and e.a["val"][0] == "slice" \
                and e.a["val"][1] == B and e.a["val"][3] == NONE:
            k = e.a["val"][2]
            return isinstance(k, tuple) and k[0] == "unk" and k[1].split("@")[0] == offname
        return False
    # the trim after the loop, on every path that leaves the loop normally
    for p in ent.paths:
        lps = [e for e in p.events if e.kind == "LOOP" and e.line == outer.line]
        if not lps:
            continue
        i = p.events.index(lps[0])
        tail = p.events[i + 1:]
        if p.exit_kind() in ("fall", "return"):
            # paths that left the function from inside the loop (empty tail, exit by return) are judged per iteration below
            if tail or p.exit_kind() == "fall":
                trims = [e for e in tail if is_trim(e, name)]
                ctx.ob("F2", "%s the consumed prefix is removed from the carry once, after the loop" % cq, len(trims) == 1, where=where(lps[0]),
                       function=framer_q, construct="%s/trim" % framer_q,
                       msg="after the framing loop the carry is trimmed %d times by the offset (expected exactly once: carry[:offset] removed)" % len(trims))
    for bp in outer.a["body"]:
        evs = bp.events
        D = None
        for e in evs:
            if e.kind == "CALL" and e.a["recv"] == SELF and e.func == framer_q and e.a["args"] and mentions(e.a["args"][0], B):
                D = e
                break
        mods = [e for e in evs if e.func == framer_q and ((e.kind == "SETATTR" and e.a["obj"] == SELF) or (e.kind in ("MCALL", "DELITEM", "SETITEM")
                and (e.a.get("obj") == B or e.a.get("base") == B)))]
        end_off = bp.st.env.get(name) if bp.st is not None else None
        if D is None:
            trimmed = any(is_trim(e, name) for e in evs)
            ctx.ob("F4", "%s a path that dispatches nothing leaves carry and offset alone" % cq, (not mods or trimmed) and end_off == lo,
                   where=where(mods[0]) if mods else where(outer), function=framer_q, construct="%s/carry-modified-without-dispatch" % framer_q,
                   msg="carry or offset changed on a path that dispatches no packet (offset %s -> %s)" % (show(lo), show(end_off)))
            if bp.exit_kind() == "return":
                ctx.ob("F4", "%s leaving the framer from inside the loop still removes what was dispatched" % cq, trimmed, where=where(outer),
                       function=framer_q, construct="%s/exit-without-trim" % framer_q,
                       msg="a `return` inside the framing loop leaves the function without trimming the carry: packets dispatched earlier in the same "
                           "call stay in the buffer and are dispatched again by the next call (duplicated packets). Conditions: %s" % [repr(c) for c in bp.conds][-2:])
            else:
                ctx.ob("F6", "%s an iteration that dispatches nothing leaves the loop" % cq, bp.exit_kind() in ("break", "raise"), where=where(outer),
                       function=framer_q, construct="%s/idle-iteration" % framer_q, msg="an iteration that consumes nothing continues the loop (exit=%s)" % bp.exit_kind())
            continue
        n += 1
        sl = D.a["args"][0]
        hi = sl[3]
        ctx.ob("F2", "%s the dispatched packet is carry[offset:offset+E]" % cq, sl[0] == "slice" and sl[1] == B and sl[2] == lo and sl[4] == NONE and len(D.a["args"]) == 1,
               where=where(D), function=framer_q, construct="%s/dispatch-slice" % framer_q, msg="dispatcher called with %s" % show(sl))
        ctx.ob("F2", "%s the offset advances to the end of the dispatched packet, once" % cq, end_off == hi and not mods and bp.exit_kind() in ("fall", "continue"),
               where=where(D), function=framer_q, construct="%s/consume" % framer_q,
               msg="dispatched carry[%s:%s] but the offset becomes %s (carry modifications in the loop: %d)" % (show(lo), show(hi), show(end_off), len(mods)))
        guard = False
        for c in bp.conds:
            t, pol = c.term, c.pol
            while isinstance(t, tuple) and t and t[0] == "not":
                t, pol = t[1], not pol
            if isinstance(t, tuple) and t[0] == "cmp":
                if t[2] == hi and t[3] == lenB and ((t[1] == ">" and not pol) or (t[1] == "<=" and pol)):
                    guard = True
                if t[3] == hi and t[2] == lenB and ((t[1] == "<" and not pol) or (t[1] == ">=" and pol)):
                    guard = True
        ctx.ob("F2", "%s dispatch only when the whole packet has arrived (offset+E <= len(carry))" % cq, guard, where=where(D), function=framer_q,
               construct="%s/complete-guard" % framer_q, msg="no `end <= len(carry)` test dominates the dispatch: conditions %s" % [repr(c) for c in bp.conds][-3:])
        ret = [e for e in evs if e.kind == "RET" and e.a["func"].endswith(".decodeLength")]
        call = [e for e in evs if e.kind == "CALL" and e.a["func"].endswith(".decodeLength")]
        src_ok = bool(call) and isinstance(call[0].a["args"][0], tuple) and call[0].a["args"][0][0] == "slice" and call[0].a["args"][0][1] == B \
            and sorted(map(repr, leaves_of_sum(call[0].a["args"][0][2]))) == sorted(map(repr, [lo, ("const", 1)]))
        ctx.ob("F3", "%s remaining length decoded from the carry starting at offset+1" % cq, src_ok, where=where(call[0]) if call else where(D), function=framer_q,
               construct="%s/length-source" % framer_q, msg="decodeLength applied to %s" % ([show(x) for x in call[0].a["args"]] if call else None))
        scan_vars, masks = set(), set()
        allconds = list(bp.conds)
        for lp in [e for e in evs if e.kind == "LOOP" and e.func == framer_q]:
            for sb in lp.a["body"]:
                allconds.extend(sb.conds)
        for c in allconds:
            for x in subterms(c.term):
                if isinstance(x, tuple) and x[:2] == ("sub", B):
                    for lf in leaves_of_sum(x[2]):
                        if isinstance(lf, tuple) and lf[0] == "unk" and lf != lo:
                            scan_vars.add(lf)
                if isinstance(x, tuple) and x[0] == "binop" and x[1] == "BitAnd" and isinstance(x[2], tuple) and x[2][:2] == ("sub", B) and is_const(x[3]):
                    masks.add(x[3][1])
        leaves = leaves_of_sum(hi)
        okE = len(leaves) == 4 and lo in leaves and ("const", 1) in leaves and bool(ret) and ret[0].a["val"] in leaves and any(v in leaves for v in scan_vars)
        ctx.ob("F3", "%s end = offset + decoded length + width of the length field + 1" % cq, okE, where=where(D), function=framer_q,
               construct="%s/extent" % framer_q, msg="end of the packet computed as %s" % show(hi))
        ctx.ob("F3", "%s width scan tests the continuation bit decodeLength uses" % cq, bool(masks) and masks <= cont and bool(cont), where=where(D),
               function=framer_q, construct="%s/continuation-mask" % framer_q, msg="the framer scans with mask %s, decodeLength continues on %s" % (sorted(masks), sorted(cont)))
        depth = len(D.stack) + 1
        inner_calls = [e for e in bp.walk() if e.kind == "CALL" and len(e.stack) == depth and e.stack[:len(D.stack)] == D.stack and e.a["recv"] == SELF
                       and not all(is_text(x) or _byte_of(x, sl) for x in e.a["args"])]
        ctx.ob("F7", "%s dispatcher hands the whole packet to at most one handler" % cq, len(inner_calls) <= 1 and all(x.a["args"] == (sl,) for x in inner_calls),
               where=where(inner_calls[0]) if inner_calls else where(D), function=D.a["func"], construct="%s/handler-arg" % D.a["func"],
               msg="handlers called with %s" % [[show(y) for y in x.a["args"]] for x in inner_calls])
    # scan variable starts at 1 (AST): the inner while indexes carry[offset + v] and v = 1 precedes it in the same block
    scan_ok = False
    for x in ast.walk(framer.node):
        body = getattr(x, "body", None)
        if not isinstance(body, list):
            continue
        for i, st_ in enumerate(body):
            if isinstance(st_, ast.While) and st_ is not outer.node:
                names = {y.id for y in ast.walk(st_.test) if isinstance(y, ast.Name)} - {name}
                for v in names:
                    prev = [t for t in body[:i] if isinstance(t, ast.Assign) and len(t.targets) == 1 and isinstance(t.targets[0], ast.Name) and t.targets[0].id == v]
                    if prev and isinstance(prev[-1].value, ast.Constant) and prev[-1].value.value == 1:
                        scan_ok = True
    ctx.ob("F3", "%s width scan starts at offset+1" % cq, scan_ok, where=w0, function=framer_q, construct="%s/scan-start" % framer_q,
           msg="the scan of the remaining-length field does not start one byte after the packet's first byte")
    return n


def framing_premise(ctx, rule, consequence):
    """The framing lemma as a premise of a property about inbound packets: whatever a handler does right is of no use when the
    packet does not reach it, reaches it short, or drags a neighbour along.  Runs the C03 rules and reports their failures
    under `rule` of the calling property (one instance per failed construct, one for the lot when all hold)."""
    from ..report import Ctx
    sub = Ctx("C03", ctx.a, ctx.tier)
    check(sub)
    seen = set()
    for f in sub.findings:
        key = (f.rule, f.construct)
        if key in seen:
            continue
        seen.add(key)
        ctx.ob(rule, "framing premise %s %s" % (f.rule, f.construct), False, file=f.file, line=f.line, function=f.function,
               construct="framing/%s/%s" % (f.rule, f.construct),
               msg="%s (C03 %s) - %s" % (f.message, f.rule, consequence))
    if not seen:
        ctx.ob(rule, "inbound packets reach their handlers framed as the broker sent them (%d instances of the framing lemma's premises F1-F7)"
               % len(sub.obligations), True, where="src/mqtt/client/base.py", construct="framing/premises")
    ctx.count("framing_premise_instances", len(sub.obligations))
