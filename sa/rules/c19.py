"""C19: connections to different broker addresses through one factory do not interfere (ownership)."""
import ast

from ..model import AnalysisError, ClassInfo
from ..terms import SELF, FAC, show, is_const, mentions
from ..catalogue import catalogue, is_fresh, profile_map
from .common import where, cls_short

EXPLANATION = (
    "Non-interference by ownership: every access of protocol code to one of the per-address factory registries is "
    "subscripted first by self.addr (aliases resolved by copy propagation along every path); self.addr is assigned once "
    "from the constructor parameter which buildProtocol passes unchanged together with the key of its own registry "
    "accesses; per-address containers are created fresh inside buildProtocol; protocol code never reads a whole "
    "registry or factory.protocol; nothing reachable from an entry point mutates class-level or module-level objects; "
    "the only factory attribute written from protocol-reachable code is the identifier counter. Decides ownership "
    "for all call sites and paths; does not compare traces.")
ASSUMPTIONS = ["random.random() jitter in interval.py is an input, not shared state"]


def check(ctx):
    a = ctx.a
    # "The only shared resource is the packet-identifier counter, and identifiers still never collide": the allocator's rules (C17)
    # are the clause of this property about the one thing the addresses do share
    from .common import run_premise
    run_premise(ctx, "C17", "I-IDS", "identifiers", "the shared identifier allocator treats every address alike and never hands out an identifier in use",
                "the one resource the addresses share couples them: what one address gets depends on which other addresses exist")
    prog = a.prog
    eng0 = a.engine(a.protos[0])
    regs = eng0.registries
    ctx.floor("factory registries", len(regs), 6)
    addr_term = ("attr", SELF, "addr")
    # ---- syntactic census of registry accesses in protocol code -----------------
    proto_mods = {c.module.name for c in a.protos}
    for cls in a.protos:
        for sc in a.engine(cls).state_slots.values():
            proto_mods.add(sc.module.name)
    sites = {}
    for mn in sorted(proto_mods):
        m = prog.modules[mn]
        for n in ast.walk(m.tree):
            if isinstance(n, ast.Attribute) and n.attr in regs and isinstance(n.value, ast.Attribute) \
                    and n.value.attr == "factory":
                sites[(m.path, n.lineno, n.col_offset)] = n
    covered = {}
    wholes = []
    for cls in a.protos:
        cat = catalogue(a, cls)
        for ent, p, e in cat.all_events("REGADDR"):
            if e.func.startswith(eng0.factory.qual + "."):
                continue
            node = e.node
            bn = e.a.get("base_node")
            if bn is not None:
                key = (e.file, bn.lineno, bn.col_offset)
            else:
                key = (e.file, node.value.lineno, node.value.col_offset) if isinstance(node, ast.Subscript) else (e.file, e.line, 0)
            covered.setdefault(key, []).append((cls, e))
        for ent, p, e in cat.all_events("REGTOPCALL", "LOOP"):
            if e.func.startswith(eng0.factory.qual + "."):
                continue
            # (the allocator's in-use scan may be split into module-level helpers of the factory's module, called from the factory's
            # own methods with the registries as arguments: still the factory's code, judged by C17)
            facmod = eng0.factory.qual.rsplit(".", 1)[0] + "."
            if e.func.startswith(facmod) and any(fr[2].startswith(eng0.factory.qual + ".") for fr in e.stack):
                continue
            if e.kind == "REGTOPCALL":
                wholes.append(e)
            elif isinstance(e.a.get("iter"), tuple) and mentions(e.a["iter"], ("regtop",)) is False:
                it = e.a.get("iter")
                if any(isinstance(x, tuple) and x[:1] == ("regtop",) for x in _subs(it)):
                    wholes.append(e)
    n_access = 0
    # a whole registry may travel before it is subscripted: into a local alias, into a tuple/list display that a for statement
    # iterates (the loop variable then stands for it), or as an argument into a parameter of a repository method.  Followed
    # syntactically; every use of the carrying name must again be one of these or the base of a subscript, and the subscripts
    # reached this way (REGADDR events at those positions) are the accesses of the site.
    parents = {}
    fn_of = {}
    for mn in sorted(proto_mods):
        m = prog.modules[mn]
        for n in ast.walk(m.tree):
            for ch in ast.iter_child_nodes(n):
                parents[ch] = n
        for f in prog.funcs.values():
            if f.module is m:
                for n in ast.walk(f.node):
                    fn_of.setdefault(n, f)
    methods_by_name = {}
    for f in prog.funcs.values():
        if f.cls is not None and f.module.name in proto_mods:
            methods_by_name.setdefault(f.name, []).append(f)

    def enclosing(n):
        # innermost function containing n
        best = None
        for f in prog.funcs.values():
            if f.module.name in proto_mods and f.node.lineno <= n.lineno <= (f.node.end_lineno or 10 ** 9):
                if any(x is n for x in ast.walk(f.node)):
                    if best is None or f.node.lineno >= best.node.lineno:
                        best = f
        return best

    active = set()

    def flow(node, path, idx=(), depth=0):
        """Positions (file, line, col) of subscript bases the value of expression `node` reaches, or None if it escapes.
        `idx` is the position of the value inside nested displays that `node` denotes (() = node is the value itself)."""
        if depth > 8:
            return None
        par = parents.get(node)
        f = enclosing(node)
        if f is None:
            return None

        def name_uses(var, scope_nodes, binder=None):
            out = []
            for st in scope_nodes:
                for n in ast.walk(st):
                    if isinstance(n, ast.Name) and n.id == var:
                        if isinstance(n.ctx, ast.Load):
                            out.append(n)
                        elif n is not binder:
                            return None          # re-bound: give up
            return out

        def follow(var, scope_nodes, binder, idx2, path2=path):
            uses = name_uses(var, scope_nodes, binder)
            if not uses:
                return None
            acc = []
            for u in uses:
                r = flow(u, path2, idx2, depth + 1)
                if r is None:
                    return None
                acc += r
            return acc
        # the value itself, used as the base of a subscript
        if not idx and isinstance(par, ast.Subscript) and par.value is node and not isinstance(par.slice, ast.Slice):
            return [(path, node.lineno, node.col_offset)]
        # keyed by the address in another form: `self.addr in X` / `X.get(self.addr ..)` (REGADDR events carry these positions)
        if not idx and isinstance(par, ast.Compare) and node in par.comparators:
            return [(path, node.lineno, node.col_offset)]
        if not idx and isinstance(par, ast.Attribute) and par.value is node and par.attr == "get" and isinstance(parents.get(par), ast.Call):
            return [(path, node.lineno, node.col_offset)]
        # a slice of a display keeps the elements' positions unknown but their kind: treat as the same display
        if idx and isinstance(par, ast.Subscript) and par.value is node and isinstance(par.slice, ast.Slice):
            sl = par.slice
            def cst(x, dflt):
                if x is None:
                    return dflt
                return x.value if isinstance(x, ast.Constant) and isinstance(x.value, int) and x.value >= 0 else None
            lo, hi, stp = cst(sl.lower, 0), cst(sl.upper, 10 ** 9), cst(sl.step, 1)
            if lo is None or hi is None or stp != 1:
                return None
            if not (lo <= idx[0] < hi):
                return []        # this element is not part of the slice
            return flow(par, path, (idx[0] - lo,) + idx[1:], depth + 1)
        # element of a display
        if isinstance(par, (ast.Tuple, ast.List)):
            return flow(par, path, (par.elts.index(node),) + idx, depth + 1)
        # bound to a local
        if isinstance(par, ast.Assign) and par.value is node and len(par.targets) == 1 and isinstance(par.targets[0], ast.Name):
            return follow(par.targets[0].id, f.node.body, par.targets[0], idx)
        # iterated by a for statement: the target stands for an element of the display
        if isinstance(par, ast.For) and par.iter is node and idx:
            rest = idx[1:]
            tgt = par.target
            if isinstance(tgt, ast.Name):
                return follow(tgt.id, par.body, tgt, rest)
            if isinstance(tgt, (ast.Tuple, ast.List)) and rest and rest[0] < len(tgt.elts) and isinstance(tgt.elts[rest[0]], ast.Name):
                t2 = tgt.elts[rest[0]]
                return follow(t2.id, par.body, t2, rest[1:])
            return None
        # iterated by a comprehension / generator expression: the same, the target lives in the element and the conditions
        if isinstance(par, ast.comprehension) and par.iter is node and idx:
            comp = parents.get(par)
            if comp is None or not hasattr(comp, "generators"):
                return None
            scope = ([comp.elt] if hasattr(comp, "elt") else [comp.key, comp.value]) + [c for g in comp.generators for c in g.ifs] \
                + [g.iter for g in comp.generators if g is not par]
            rest = idx[1:]
            tgt = par.target
            if isinstance(tgt, ast.Name):
                return follow(tgt.id, scope, tgt, rest)
            if isinstance(tgt, (ast.Tuple, ast.List)) and rest and rest[0] < len(tgt.elts) and isinstance(tgt.elts[rest[0]], ast.Name):
                t2 = tgt.elts[rest[0]]
                return follow(t2.id, scope, t2, rest[1:])
            return None
        # passed to a method of the protocol
        if not idx and isinstance(par, ast.Call) and node in par.args and isinstance(par.func, ast.Attribute) \
                and isinstance(par.func.value, ast.Name) and par.func.value.id == "self":
            cands = methods_by_name.get(par.func.attr, [])
            if len(cands) != 1:
                return None
            g = cands[0]
            k = par.args.index(node) + (0 if g.is_static else 1)
            if k >= len(g.params):
                return None
            if (g.qual, k) in active:
                return []            # handed on to the routine it came in by (a retry that calls itself): the uses are already counted
            active.add((g.qual, k))
            try:
                return follow(g.params[k], g.node.body, None, (), g.file)
            finally:
                active.discard((g.qual, k))
        return None

    for key, node in sorted(sites.items()):
        if key in covered:
            continue
        reached = flow(node, key[0])
        if not reached:
            continue
        via = []
        complete = True
        for pos in reached:
            got = [(c, e) for c, e in covered.get(pos, []) if e.a["reg"] == node.attr]
            if not got:
                complete = False     # a use that is not a keyed access (or is never reached): the site stays uncovered
            via += got
        if via and complete:
            covered[key] = via
    for key, node in sorted(sites.items()):
        evs = covered.get(key)
        inst = "%s:%d registry access %s" % (key[0], key[1], node.attr)
        if not evs:
            # the site is not subscripted (whole-registry use) or not reachable from any entry point
            ctx.ob("I-KEY", inst, False, where="%s:%d" % (key[0], key[1]), construct="%s:%s/unkeyed-or-unreached" % (key[0], node.attr),
                   msg="registry %s is used without a resolvable [self.addr] subscript (whole registry, or code no entry point reaches)" % node.attr)
            continue
        n_access += 1
        bad = [(c, e) for c, e in evs if e.a["key"] != addr_term]
        fn = evs[0][1].func
        ctx.ob("I-KEY", inst, not bad, where="%s:%d" % (key[0], key[1]), function=fn,
               construct="%s/%s/key" % (fn, node.attr),
               msg="registry %s subscripted by %s, not by self.addr" % (node.attr, show(bad[0][1].a["key"]) if bad else ""))
    ctx.count("registry_access_sites", n_access)
    # (each registry is reached from protocol code at least once - through an accessor of its own at the least)
    ctx.floor("registry accesses in protocol code", n_access, len(regs))
    for e in wholes:
        ctx.ob("I-WHOLE", "%s whole-registry use" % where(e), False, where=where(e), function=e.func,
               construct="%s/whole-registry" % e.func, msg="protocol code uses a whole per-address registry: %s" % e.brief())
    ctx.ob("I-WHOLE", "no whole-registry use in protocol code", not wholes, nontrivial=False, where="src/mqtt/client",
           construct="whole-registry/any")
    # factory.protocol (last protocol built) must not be consulted by protocol code
    bad_fp = []
    for mn in sorted(proto_mods):
        m = prog.modules[mn]
        for n in ast.walk(m.tree):
            if isinstance(n, ast.Attribute) and n.attr == "protocol" and isinstance(n.value, ast.Attribute) \
                    and n.value.attr == "factory":
                bad_fp.append((m.path, n.lineno))
    ctx.ob("I-FACPROTO", "protocol code never reads factory.protocol", not bad_fp, where=(bad_fp[0][0] + ":%d" % bad_fp[0][1]) if bad_fp else "",
           construct="factory.protocol/read", msg="protocol code reads factory.protocol (the last protocol built, of any address)")
    # ---- self.addr single assignment from the constructor parameter ----------------
    stores = []
    for f in prog.funcs.values():
        for n in ast.walk(f.node):
            tg = []
            if isinstance(n, ast.Assign):
                tg = n.targets
            elif isinstance(n, (ast.AugAssign, ast.AnnAssign)):
                tg = [n.target]
            for t in tg:
                for tt in (t.elts if isinstance(t, (ast.Tuple, ast.List)) else [t]):
                    if isinstance(tt, ast.Attribute) and tt.attr == "addr":
                        stores.append((f, n, tt))
    ok_stores = [s for s in stores if s[0].name == "__init__" and isinstance(s[1], ast.Assign)
                 and isinstance(s[1].value, ast.Name) and s[1].value.id in s[0].params
                 and isinstance(s[2].value, ast.Name) and s[2].value.id == "self"]
    ctx.ob("I-ADDR", "self.addr assigned once, in a constructor, from its parameter",
           len(stores) >= 1 and len(ok_stores) == len(stores) and len(stores) == 1,
           where="%s:%d" % (stores[0][0].file, stores[0][1].lineno) if stores else "", construct="self.addr/stores",
           msg="%d assignments to .addr, %d of the accepted form" % (len(stores), len(ok_stores)))
    # ---- buildProtocol: same key for the registries and the protocol, fresh containers ------
    paths = profile_map(a)
    n_bp = 0
    for p in paths:
        if p.exit_kind() != "return":
            continue
        built = [e for e in p.events if e.kind == "NEW" and e.a["cls"] in {c.qual for c in a.protos}]
        regtops = [e for e in p.events if e.kind == "REGTOP"]
        if not built:
            continue
        n_bp += 1
        b = built[0]
        passed = b.a["args"][1] if len(b.a["args"]) > 1 else None
        ctx.ob("I-BUILD-ADDR", "buildProtocol passes its addr to %s" % cls_short(b.a["cls"]), passed == ("param", "addr"),
               where=where(b), function=b.func, construct="buildProtocol/%s/addr-arg" % cls_short(b.a["cls"]),
               msg="protocol constructed with address argument %s" % show(passed))
        seen = set()
        for e in regtops:
            seen.add(e.a["reg"])
            ctx.ob("I-BUILD-KEY", "buildProtocol keys %s by addr (%s)" % (e.a["reg"], cls_short(b.a["cls"])),
                   e.a["key"] == ("param", "addr"), where=where(e), function=e.func,
                   construct="buildProtocol/%s/key" % e.a["reg"], msg="registry %s filled under key %s" % (e.a["reg"], show(e.a["key"])))
            v = e.a["val"]
            fresh_ok = False
            dflt = None
            if isinstance(v, tuple) and v[0] == "call" and isinstance(v[1], tuple) and v[1][0] == "attr" and v[1][2] in ("get", "setdefault"):
                args = v[2]
                recv_ok = v[1][1] == ("regtop", e.a["reg"])
                key_ok = bool(args) and args[0] == ("param", "addr")
                dflt = args[1] if len(args) > 1 else None
                fresh_ok = recv_ok and key_ok and _is_fresh_container(dflt)
            elif _is_fresh_container(v):
                fresh_ok = True
            ctx.ob("I-FRESH", "container of %s for a new address is created per call (%s)" % (e.a["reg"], cls_short(b.a["cls"])),
                   fresh_ok, where=where(e), function=e.func, construct="buildProtocol/%s/container" % e.a["reg"],
                   msg="container stored for %s is %s (must be this address's existing one or a fresh dict()/deque())" % (e.a["reg"], show(v)))
        # a registry is also prepared on a path that found the address already present (addr in registry), and by setdefault
        for c in p.conds:
            t, pol = c.term, c.pol
            while isinstance(t, tuple) and t and t[0] == "not":
                t, pol = t[1], not pol
            if isinstance(t, tuple) and t and t[0] == "cmp" and t[1] in ("in", "not in") and t[2] == ("param", "addr") \
                    and isinstance(t[3], tuple) and t[3][:1] == ("regtop",):
                if (t[1] == "in") == bool(pol):
                    seen.add(t[3][1])
        for e in p.events:
            if e.kind == "REGTOPCALL" and e.a["name"] == "setdefault":
                args = e.a["args"]
                key_ok = bool(args) and args[0] == ("param", "addr")
                seen.add(e.a["reg"])
                ctx.ob("I-BUILD-KEY", "buildProtocol keys %s by addr (%s)" % (e.a["reg"], cls_short(b.a["cls"])), key_ok, where=where(e),
                       function=e.func, construct="buildProtocol/%s/key" % e.a["reg"],
                       msg="registry %s filled under key %s" % (e.a["reg"], show(args[0]) if args else "?"))
                ctx.ob("I-FRESH", "container of %s for a new address is created per call (%s)" % (e.a["reg"], cls_short(b.a["cls"])),
                       len(args) > 1 and _is_fresh_container(args[1]), where=where(e), function=e.func,
                       construct="buildProtocol/%s/container" % e.a["reg"],
                       msg="container stored for %s is %s (must be a fresh dict()/deque())" % (e.a["reg"], show(args[1]) if len(args) > 1 else "?"))
        ctx.ob("I-BUILD-ALL", "buildProtocol prepares all registries (%s)" % cls_short(b.a["cls"]), seen >= set(regs),
               where=where(b), construct="buildProtocol/%s/registries" % cls_short(b.a["cls"]),
               msg="registries not prepared for the address: %s" % sorted(set(regs) - seen))
    ctx.floor("buildProtocol build paths", n_bp, 3)
    # ---- no shared mutable state outside the keyed registries ---------------------
    shared = []
    fac_fields = {}
    id_fields = set()
    alloc_funcs = set()
    for cls in a.protos:
        cat = catalogue(a, cls)
        for ent, p, e in cat.all_events("SETATTR", "SETITEM", "SHAREDMUT", "FACRET", "REGTOP", "UNREGTOP"):
            if e.kind == "SETATTR":
                obj = e.a["obj"]
                if isinstance(obj, tuple) and obj[0] in ("cls", "module", "constobj", "global", "classattr", "ext"):
                    shared.append(e)
                elif obj == FAC:
                    fac_fields.setdefault(e.a["field"], []).append(e)
            elif e.kind == "SETITEM":
                root = e.a["base"]
                while isinstance(root, tuple) and root and root[0] in ("attr", "sub", "slice") and root[1] != SELF:
                    root = root[1]
                if isinstance(root, tuple) and root and root[0] in ("cls", "module", "constobj", "global", "classattr"):
                    shared.append(e)
            elif e.kind == "SHAREDMUT":
                shared.append(e)
            elif e.kind in ("REGTOP", "UNREGTOP"):
                shared.append(e)
            elif e.kind == "FACRET":
                alloc_funcs.add(e.a["func"])
                for fld in fac_fields_of(e.a["inner"]):
                    id_fields.add(fld)
    seen_sites = set()
    for e in shared:
        if (e.file, e.line) in seen_sites:
            continue
        seen_sites.add((e.file, e.line))
        ctx.ob("I-SHARED", "%s shared object mutated" % where(e), False, where=where(e), function=e.func,
               construct="%s/shared-mutation/%s" % (e.func, e.kind),
               msg="code reachable from a protocol entry point mutates shared (class/module/factory-wide) state: %s" % e.brief())
    ctx.ob("I-SHARED", "no class-level, module-level or whole-registry mutation reachable from protocol entry points",
           not shared, nontrivial=False, construct="shared-mutation/any", where="src/mqtt/client")
    for fld, evs in sorted(fac_fields.items()):
        e = evs[0]
        in_factory = e.func.startswith(eng0.factory.qual + ".")
        # written by the identifier allocator itself (inside its frame), or the field its result is computed from
        in_alloc = all(x.func in alloc_funcs or any(fr[2] in alloc_funcs for fr in x.stack) for x in evs)
        ok = in_factory and (fld in id_fields or in_alloc)
        ctx.ob("I-FACFIELD", "factory.%s written only by the identifier allocator" % fld, ok, where=where(e), function=e.func,
               construct="factory.%s/write/%s" % (fld, e.func),
               msg="factory attribute %s is written from protocol-reachable code outside the identifier allocator" % fld)
    ctx.ob("I-FACFIELD", "exactly one shared factory field (the identifier counter)", len(fac_fields) <= 1,
           construct="factory/shared-fields", where="src/mqtt/client/factory.py",
           msg="factory fields written from protocol code: %s" % sorted(fac_fields))
    # ---- per-instance state: state objects, ping request, carry buffer created in the constructor chain ----
    for cls in a.protos:
        eng = a.engine(cls)
        fh = eng.full_init_heap
        for fld in sorted({"_pingReq", "_buffer"} | set(eng.state_slots)):
            v = fh.get((SELF, fld))
            if v is None:
                continue
            per_inst = not (isinstance(v, tuple) and v[0] in ("constobj", "global", "classattr", "cls", "module"))
            ctx.ob("I-INSTANCE", "%s.%s is per-instance" % (cls_short(cls.qual), fld), per_inst, where=cls.module.path,
                   construct="%s/%s/instance" % (cls.qual, fld), nontrivial=False,
                   msg="field %s of the protocol is initialised with a shared object %s" % (fld, show(v)))


def _subs(t):
    from ..terms import subterms
    return subterms(t)


def fac_fields_of(t):
    out = set()
    for x in _subs(t):
        if isinstance(x, tuple) and len(x) == 3 and x[0] == "attr" and x[1] == FAC:
            out.add(x[2])
    return out


def _is_fresh_container(t):
    if not isinstance(t, tuple):
        return False
    if t[0] in ("fresh", "dictlit"):
        return True
    if t[0] == "call" and isinstance(t[1], tuple) and t[1][0] == "builtin" and t[1][1] in ("dict", "list", "set") and not t[2]:
        return True
    return False


def build_overwrites(analysis):
    """Registry -> event for every buildProtocol path on which the container an address already has may be replaced: the per-address
    state (windows, queue) outlives protocol objects - a protocol built for a known address (a reconnection) inherits it - so
    buildProtocol may store a container only when the address has none (get/setdefault with a default, or under `addr not in R`)."""
    from .common import profile_map
    out = {}
    for p in profile_map(analysis):
        if p.exit_kind() != "return":
            continue
        for e in p.events:
            if e.kind != "REGTOP":
                continue
            v = e.a["val"]
            keeps = False
            if isinstance(v, tuple) and v[0] == "call" and isinstance(v[1], tuple) and v[1][0] == "attr" and v[1][2] in ("get", "setdefault") \
                    and v[1][1] == ("regtop", e.a["reg"]) and v[2] and v[2][0] == e.a["key"]:
                keeps = True          # the address's own container, or the default when it has none
            if isinstance(v, tuple) and v[:2] == ("reg", e.a["reg"]) :
                keeps = True          # re-stores what was read from the same registry
            for c in e.conds:
                t, pol = c.term, c.pol
                while isinstance(t, tuple) and t and t[0] == "not":
                    t, pol = t[1], not pol
                if isinstance(t, tuple) and t[:2] in (("cmp", "in"), ("cmp", "not in")) and t[2] == e.a["key"] and t[3] == ("regtop", e.a["reg"]):
                    if (t[1] == "in") != bool(pol):
                        keeps = True      # stored only on the path where the address is not there yet
            if not keeps:
                out.setdefault(e.a["reg"], e)
    return out
