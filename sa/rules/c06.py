"""C06: inbound PUBLISH - faithful delivery, QoS 2 exactly once, every packet answered."""
from ..model import AnalysisError
from ..terms import SELF, FAC, NONE, show, is_const, mentions
from ..catalogue import catalogue, is_effect
from .common import fresh_encoding, where, cls_short, contexts, honoured, capabilities, types, short, written_object
from .flows import post_dispatch, ack_cells, net_msgid, documented_deliver_order, rule_lookup

EXPLANATION = (
    "Path counting on the two inbound handlers of the subscriber-capable classes: per QoS branch of the PUBLISH handler "
    "every path has the prescribed number of replies and deliveries (QoS 0: one delivery, no write; QoS 1: exactly one "
    "PUBACK and one delivery; QoS 2: stored in the receive window, exactly one PUBREC, no delivery); every path of the "
    "PUBREL handler, hit or miss, writes exactly one PUBCOMP and delivers only on the hit path, once, after removing the "
    "stored message; every reply carries the received identifier (def-use identity); delivery passes topic, payload, qos, "
    "dup, retain, msgId of one packet object in the documented order; PUBACK/PUBREC/PUBCOMP are created and written only in "
    "these two network contexts; the receive window is per-address factory state that only the PUBREL handler removes from. "
    "Decides the structural clauses; exactly-once over histories with reconnects is not decided as behaviour. P0: the premises of the framing lemma (every rule of C03) hold, a necessary condition of anything said about inbound packets.")
ASSUMPTIONS = ["onPublish does not raise into the library"]


def fact(tr, t):
    f = tr.path.st.facts if tr.path.st is not None else {}
    return f.get(t)


def qos_of(tr, resp):
    """QoS branch of a PUBLISH-handler path from its facts: 0/1/2 or None.  The facts are read as constraints on the value -
    equalities and inequalities with a constant, the truth of the value itself, disjunctions of equalities (qos == 1 or
    qos == 0) - and the branch is the one value of 0..2 they leave (None when they leave several)."""
    facts = tr.path.st.facts if tr.path.st is not None else {}
    q = ("net", resp, "qos")
    for k in (0, 1, 2):
        if facts.get(("cmp", "==", q, ("const", k))) is True or facts.get(("cmp", "!=", q, ("const", k))) is False:
            return k
    cand = {0, 1, 2, 3}        # (3 is a value the two bits can take: a path that also covers it is not "the QoS 2 branch")

    def eqs(t):
        """the constants of a term `q == a or q == b ..`, or None"""
        if isinstance(t, tuple) and t[:1] == ("cmp",) and t[1] == "==" and t[2] == q and isinstance(t[3], tuple) and t[3][:1] == ("const",):
            return {t[3][1]}
        if isinstance(t, tuple) and t[:2] == ("boolop", "Or"):
            out = set()
            for x in t[2]:
                e = eqs(x)
                if e is None:
                    return None
                out |= e
            return out
        if isinstance(t, tuple) and t[:1] == ("cmp",) and t[1] == "in" and t[2] == q and isinstance(t[3], tuple) and t[3][:1] == ("const",) \
                and isinstance(t[3][1], (tuple, list, set, frozenset)):
            return set(t[3][1])
        return None
    for k_, v in facts.items():
        if v not in (True, False):
            continue
        e = eqs(k_)
        if e is not None:
            cand = (cand & e) if v else (cand - e)
        if isinstance(k_, tuple) and k_[:1] == ("cmp",) and k_[1] == "!=" and k_[2] == q and isinstance(k_[3], tuple) and k_[3][:1] == ("const",):
            cand = (cand - {k_[3][1]}) if v else (cand & {k_[3][1]})
        if k_ == ("truthy", q) or k_ == q:
            cand = (cand - {0}) if v else (cand & {0})
    if len(cand) == 1 and next(iter(cand)) in (0, 1, 2):
        return next(iter(cand))
    if facts.get(("truthy", q)) is False:
        return 0
    return None


def writes_of(evs, ty, eng):
    out = []
    for e in evs:
        if e.kind == "WRITE":
            how, obj = written_object(e.a["data"])
            cl = sorted(ty.class_of(obj, eng)) if obj is not None else []
            out.append((e, how, obj, [c.split(".")[-1] for c in cl]))
    return out


def deliveries(evs):
    return [e for e in evs if e.kind == "CALLBACK" and e.a["name"] == "onPublish"]


def handler_set(tr):
    facts = tr.path.st.facts if tr.path.st is not None else {}
    v = facts.get(("truthy", ("attr", SELF, "onPublish")))
    if v is None:
        v = facts.get(("nonnull", ("attr", SELF, "onPublish")))
    return v


def check(ctx):
    a = ctx.a
    from .c03 import framing_premise
    framing_premise(ctx, 'P0', 'a PUBLISH or PUBREL that is mis-framed is delivered short, merged with its neighbour, or never answered')
    ty = types(a)
    caps, pm, _ = capabilities(a)
    order = documented_deliver_order(a.prog)
    classes = [c for c in a.protos if "sub" in caps.get(c.qual, set())]
    ctx.floor("subscriber-capable classes", len(classes), 2)
    npub = nrel = 0
    for cls in classes:
        cat = catalogue(a, cls)
        eng = cat.eng
        cq = cls_short(cls.qual)
        ccaps = caps[cls.qual]
        # ---- P1: PUBLISH handler ------------------------------------------------
        seen_q = set()
        for tr in ack_cells(ctx, cat, ccaps, "PUBLISH"):
            evs = post_dispatch(tr)
            dec = [e for e in tr.events if e.kind == "DECODE" and e.a["ok"]]
            resp = dec[0].a["obj"] if dec else None
            q = qos_of(tr, resp)
            ws = writes_of(evs, ty, eng)
            dl = deliveries(evs)
            regs = [e for e in evs if e.kind == "REG"]
            hs = handler_set(tr)
            npub += 1
            w = where(evs[0]) if evs else cls.module.path
            fn = evs[0].func if evs else ""
            if q is None:
                # QoS 3 (malformed): nothing at all may happen
                eff = [e for e in evs if is_effect(e)]
                ctx.ob("P1", "%s PUBLISH with an invalid QoS has no effect" % cq, not eff, where=where(eff[0]) if eff else w,
                       function=fn, construct="%s/PUBLISH/qos=other" % cat.cls.qual,
                       msg="effect %s for a PUBLISH whose QoS is none of 0,1,2" % (eff[0].brief() if eff else ""))
                continue
            seen_q.add(q)
            exp_w = {0: [], 1: ["PUBACK"], 2: ["PUBREC"]}[q]
            got_w = [x[3][0] if x[3] else "?" for x in ws]
            ctx.ob("P1", "%s PUBLISH qos=%d: replies written = %s" % (cq, q, exp_w), got_w == exp_w,
                   where=where(ws[0][0]) if ws else w, function=fn, construct="%s/PUBLISH/qos=%d/writes" % (cat.cls.qual, q),
                   msg="QoS %d PUBLISH is answered with %s on a path (expected exactly %s)" % (q, got_w, exp_w), trigger=tr.label())
            exp_d = {0: 1, 1: 1, 2: 0}[q]
            if hs is not False:
                ctx.ob("P1", "%s PUBLISH qos=%d: %d delivery on the path" % (cq, q, exp_d), len(dl) == exp_d,
                       where=where(dl[0]) if dl else w, function=fn, construct="%s/PUBLISH/qos=%d/deliveries" % (cat.cls.qual, q),
                       msg="QoS %d PUBLISH is delivered %d times on a path with the handler set (expected %d)" % (q, len(dl), exp_d),
                       trigger=tr.label())
            else:
                ctx.ob("P1", "%s PUBLISH qos=%d: no delivery without a handler" % (cq, q), len(dl) == 0, where=w, function=fn,
                       construct="%s/PUBLISH/qos=%d/deliver-without-handler" % (cat.cls.qual, q), nontrivial=False,
                       msg="onPublish called although it tested false")
            if q == 2:
                rx = [e for e in regs if e.a["reg"] == "windowPubRx"]
                ok = len(rx) == 1 and rx[0].a["val"] == resp and net_msgid(rx[0].a["key"]) and rx[0].a["key"][1] == resp
                ctx.ob("P1", "%s PUBLISH qos=2 is stored in the receive window under its identifier" % cq, ok,
                       where=where(rx[0]) if rx else w, function=fn, construct="%s/PUBLISH/qos=2/store" % cat.cls.qual,
                       msg="QoS 2 PUBLISH is not stored exactly once under its own identifier", trigger=tr.label())
            else:
                ctx.ob("P1", "%s PUBLISH qos=%d touches no registry" % (cq, q), not regs, where=where(regs[0]) if regs else w,
                       function=fn, construct="%s/PUBLISH/qos=%d/registry" % (cat.cls.qual, q), nontrivial=False,
                       msg="QoS %d PUBLISH inserts into %s" % (q, regs[0].a["reg"] if regs else ""))
            # P3: reply identity
            for (we, how, obj, cl) in ws:
                enc = [e for e in evs if e.kind == "ENCODE" and e.a["ok"] and e.a["obj"] == obj]
                mid = enc[-1].a["fields"].get("msgId") if enc else None
                ctx.ob("P3", "%s %s echoes the received identifier" % (cq, cl[0] if cl else "?"),
                       fresh_encoding(we, evs) and net_msgid(mid) and mid[1] == resp, where=where(we), function=we.func,
                       construct="%s/reply-id/%s" % (we.func, cl[0] if cl else "?"),
                       msg="reply written with msgId %s; the PUBLISH carried %s" % (show(mid), show(("net", resp, "msgId"))))
            # P4: delivery arguments
            for d in dl:
                exp = tuple(("net", resp, f) for f in order)
                ctx.ob("P4", "%s delivery passes (%s) of the received packet" % (cq, ", ".join(order)), tuple(d.a["args"]) == exp,
                       where=where(d), function=d.func, construct="%s/deliver-args" % d.func,
                       msg="onPublish called with %s" % [show(x) for x in d.a["args"]])
        ctx.ob("P1", "%s PUBLISH handler has a branch for each QoS 0,1,2" % cq, seen_q == {0, 1, 2}, where=cls.module.path,
               construct="%s/PUBLISH/qos-branches" % cat.cls.qual, msg="QoS branches found: %s" % sorted(seen_q))
        # ---- P2: PUBREL handler -----------------------------------------------------
        hits = misses = 0
        for tr in ack_cells(ctx, cat, ccaps, "PUBREL"):
            evs = post_dispatch(tr)
            dec = [e for e in tr.events if e.kind == "DECODE" and e.a["ok"]]
            resp = dec[0].a["obj"] if dec else None
            lk = [e for e in evs if e.kind == "LOOKUP" and e.a["reg"] == "windowPubRx"]
            ws = writes_of(evs, ty, eng)
            dl = deliveries(evs)
            nrel += 1
            w = where(lk[0]) if lk else (where(evs[0]) if evs else cls.module.path)
            fn = lk[0].func if lk else ""
            if tr.path.exit_kind() == "raise":
                ctx.ob("P2", "%s PUBREL handler does not raise" % cq, False, where=w, function=fn,
                       construct="%s/PUBREL/raises" % fn, msg="an exception escapes from the PUBREL handler")
                continue
            got_w = [x[3][0] if x[3] else "?" for x in ws]
            kind = "hit" if (lk and lk[0].a["hit"]) else "miss"
            hits += kind == "hit"
            misses += kind == "miss"
            ctx.ob("P2", "%s PUBREL (%s path): exactly one PUBCOMP" % (cq, kind), got_w == ["PUBCOMP"], where=w, function=fn,
                   construct="%s/PUBREL/path=%s/pubcomp" % (fn, kind),
                   msg="PUBREL %s path writes %s (expected exactly one PUBCOMP: a repeated PUBREL must still be answered)" % (kind, got_w),
                   trigger=tr.label(), path=[e.brief() for e in evs if e.kind in ("LOOKUP", "CATCH", "WRITE", "UNREG", "CALLBACK")])
            for (we, how, obj, cl) in ws:
                enc = [e for e in evs if e.kind == "ENCODE" and e.a["ok"] and e.a["obj"] == obj]
                mid = enc[-1].a["fields"].get("msgId") if enc else None
                ctx.ob("P3", "%s %s echoes the received identifier" % (cq, cl[0] if cl else "?"),
                       fresh_encoding(we, evs) and net_msgid(mid) and mid[1] == resp, where=where(we), function=we.func,
                       construct="%s/reply-id/%s" % (we.func, cl[0] if cl else "?"),
                       msg="reply written with msgId %s; the PUBREL carried %s" % (show(mid), show(("net", resp, "msgId"))))
            hs = handler_set(tr)
            if kind == "miss":
                eff = [e for e in evs if is_effect(e) and e.kind not in ("WRITE",)]
                ctx.ob("P2", "%s PUBREL (miss path): nothing but the PUBCOMP" % cq, not eff and not dl, where=where(eff[0]) if eff else w,
                       function=fn, construct="%s/PUBREL/path=miss/effects" % fn,
                       msg="unknown-identifier PUBREL causes %s" % (eff[0].brief() if eff else "a delivery"))
            else:
                un = [e for e in evs if e.kind == "UNREG" and e.a["reg"] == "windowPubRx" and e.a["key"] == lk[0].a["key"]]
                ctx.ob("P2", "%s PUBREL (hit path): the stored message leaves the receive window" % cq, len(un) == 1, where=w,
                       function=fn, construct="%s/PUBREL/path=hit/unreg" % fn,
                       msg="stored message is not removed exactly once: a repeated PUBREL would deliver it again")
                if hs is not False:
                    okd = len(dl) == 1 and un and evs.index(un[0]) < evs.index(dl[0])
                    ctx.ob("P2", "%s PUBREL (hit path): one delivery, after the removal" % cq, bool(okd), where=where(dl[0]) if dl else w,
                           function=fn, construct="%s/PUBREL/path=hit/deliver" % fn,
                           msg="%d deliveries on the hit path / not after the removal" % len(dl))
                    for d in dl:
                        el = ("elem", "windowPubRx", lk[0].a["key"])
                        exp = tuple((("attr", el, f) if f != "msgId" else lk[0].a["key"]) for f in order)
                        exp2 = tuple(("attr", el, f) for f in order)
                        ctx.ob("P4", "%s delivery passes (%s) of the stored packet" % (cq, ", ".join(order)),
                               tuple(d.a["args"]) in (exp, exp2), where=where(d), function=d.func,
                               construct="%s/deliver-args" % d.func, msg="onPublish called with %s" % [show(x) for x in d.a["args"]])
        ctx.ob("P2", "%s PUBREL handler has a hit path and a miss path" % cq, hits > 0 and misses > 0, where=cls.module.path,
               construct="%s/PUBREL/paths" % cat.cls.qual, msg="%d hit, %d miss" % (hits, misses), nontrivial=False)
        # ---- P5: acknowledgements never emitted unprompted; P6: receive window ownership ----------------
        for tr in contexts(cat):
            for e in tr.events:
                if e.kind in ("WRITE", "ENCODE"):
                    if e.kind == "WRITE":
                        how, obj = written_object(e.a["data"])
                    else:
                        obj = e.a["obj"]
                    names = {c.split(".")[-1] for c in ty.class_of(obj, eng)} if obj is not None else set()
                    for nm in sorted(names & {"PUBACK", "PUBREC", "PUBCOMP"}):
                        exp = "PUBREL" if nm == "PUBCOMP" else "PUBLISH"
                        ok = tr.kind == "NET" and tr.name == exp and tr.slot == "CONNECTED"
                        ctx.ob("P5", "%s %s encoded/written only when a %s arrives (%s)" % (cq, nm, exp, tr.label()), ok, where=where(e),
                               function=e.func, construct="%s/unprompted/%s/%s" % (e.func, nm, tr.label()),
                               msg="%s is emitted in context %s" % (nm, tr.label()), nontrivial=False)
                if e.kind == "UNREG" and e.a["reg"] == "windowPubRx":
                    ok = tr.kind == "NET" and tr.name == "PUBREL"
                    ctx.ob("P6", "%s receive window is emptied only by PUBREL (%s)" % (cq, tr.label()), ok, where=where(e),
                           function=e.func, construct="%s/pubrx-unreg/%s" % (e.func, tr.label()),
                           msg="stored QoS 2 messages are removed in context %s: the exchange no longer survives it" % tr.label())
                if e.kind == "REG" and e.a["reg"] == "windowPubRx":
                    ok = tr.kind == "NET" and tr.name == "PUBLISH"
                    ctx.ob("P6", "%s receive window is filled only by PUBLISH (%s)" % (cq, tr.label()), ok, where=where(e),
                           function=e.func, construct="%s/pubrx-reg/%s" % (e.func, tr.label()),
                           msg="receive window written in context %s" % tr.label(), nontrivial=False)
    ctx.count("publish_handler_paths", npub)
    ctx.count("pubrel_handler_paths", nrel)
    # P7: what reaches onPublish is what the packet carried only if the PUBLISH decoder reads every field where the wire format puts
    # it (and the PUBREL decoder the identifier); the acknowledgements echo the identifier only if their encoders put it there
    from ..codec_cmp import compare_class
    from ..codec_prims import check_primitives
    from .c01 import loc
    pmod = a.prog.modules.get("mqtt.pdu")
    for name in ("PUBLISH", "PUBREL", "PUBACK", "PUBREC", "PUBCOMP"):
        c = pmod.classes.get(name) if pmod else None
        if c is None:
            raise AnalysisError("anchor vanished: mqtt.pdu.%s" % name)
        problems, stats, encm, decm = compare_class(a.prog, c)
        bad = [q for q in problems if q.rule in ("L2", "L3", "L4", "L5")]
        for q in bad:
            ctx.ob("P7", "%s %s" % (name, q.what), False, where=loc(q.node, "src/mqtt/pdu.py:%d" % c.node.lineno), function="mqtt.pdu.%s" % name,
                   construct="mqtt.pdu.%s/%s" % (name, q.what),
                   msg="the %s codec does not put / read a field where the wire format has it: %s" % (name, q.msg))
        if name in ("PUBLISH", "PUBREL"):
            from .c01 import header_skip
            _pp, _ff = check_primitives(a.prog)
            appl, okh, ln, msgh = header_skip(decm, _ff)
            if appl:
                ctx.ob("P7", "%s.decode skips the fixed header with decodeLength's continuation bit" % name, okh,
                       where="src/mqtt/pdu.py:%d" % (ln or c.node.lineno), function="mqtt.pdu.%s.decode" % name,
                       construct="mqtt.pdu.%s/header-skip" % name, msg="the %s decoder starts reading the body at the wrong place for packets whose "
                       "remaining length takes more than one byte: %s" % (name, msgh))
        if not bad:
            ctx.ob("P7", "%s: every field is read / written at its wire position" % name, True, where="src/mqtt/pdu.py:%d" % c.node.lineno,
                   construct="mqtt.pdu.%s/layout" % name, nontrivial=False)
    probs, _facts = check_primitives(a.prog)
    for q in probs:
        if q.cls.startswith(("decode16Int", "decodeString", "decodeLength")):
            ctx.ob("P7", "%s %s" % (q.cls, q.what), False, where=loc(q.node), function="mqtt.pdu.%s" % q.cls.split("/")[0],
                   construct="mqtt.pdu.%s/%s" % (q.cls, q.what), msg="a decoding primitive the PUBLISH decoder relies on is wrong: " + q.msg)
    ctx.floor("PUBLISH handler paths", npub, 3)
    ctx.floor("PUBREL handler paths", nrel, 2)
