"""C01: packet codec round trip - agreement of the sibling encode()/decode() implementations."""
import ast

from ..model import AnalysisError
from ..codec import EncoderLayout, DecoderLayout, pdu_classes, method_of
from ..codec_cmp import compare_class
from ..codec_prims import check_primitives

EXPLANATION = (
    "Sibling agreement of the codec, from the layouts extracted out of mqtt/pdu.py (no byte is ever encoded): L1 radix "
    "agreement of the three primitive pairs (shift/mask/multiplier, byte order, prefix width, complementary slices, "
    "modulus = divisor = continuation bit, continuation and exit tests); L2 every field read by encode() is assigned by "
    "decode(); L3 the body segments written (string, 16-bit, byte, raw, optional sections, repeated entries) are read back "
    "field by field at the same symbolic offset for every combination of optional sections, each optional section being "
    "announced by a flag bit set under the same guard and read under a test of exactly that bit; L4 every field or-ed into "
    "a flag byte (fixed header or body) at shift s is extracted with a contiguous mask starting at s, compared only with 0, the whole mask or a truth value, and including no bit at which the encoder writes another field or a constant, and a flag the decoder takes from the first byte is or-ed in on every combination of the encoder's guards (except under the flag's own truth, and DUP at QoS 0); L5 every 2-byte length prefix is len() of "
    "the very bytes appended after it; L6 encode() is deterministic (pure helpers only, reads self fields and constants, "
    "iterates fields in their own order, writes only self.encoded). NOT decided: that the primitive codecs are inverses on "
    "their whole numeric domains (a mutant keeping every constant and shape but breaking the arithmetic is out of reach).")
ASSUMPTIONS = ["Python integer and bytearray semantics"]

PURE = {"encodeString", "encode16Int", "encodeLength", "bytearray", "len", "bytes", "str", "isinstance", "int", "type", "bool"}


def loc(node, default="src/mqtt/pdu.py"):
    return "src/mqtt/pdu.py:%d" % node.lineno if node is not None and hasattr(node, "lineno") else default


def header_skip(decm, facts):
    """(applicable, ok, line, message): does the decoder skip the fixed header the way decodeLength reads the remaining length?"""
    if not (decm.reads or decm.hdr["found"]):
        return False, True, 0, ""
    h = decm.hdr
    if not h["found"]:
        if h.get("const_skip") is not None:
            return True, False, 0, ("the decoder takes the fixed header to be %d bytes long: a packet whose remaining length needs more than one "
                                    "byte (128 bytes or more) is read from the wrong place" % h["const_skip"])
        return True, False, 0, "the decoder reads the body without skipping the remaining-length field"
    el, dl = facts["length"]
    ok = h["mask"] == dl["test"] and h["start"] == 1 and h["plus"] == 1 and h.get("step", 1) == 1
    return True, ok, h["node"].lineno, ("header skip: start index %s, mask %s, index advanced by %s per length byte, body starts at scanned "
                                        "index + %s (must be 1, 0x80, 1, 1)" % (h["start"], h["mask"], h.get("step", 1), h["plus"]))


def check(ctx):
    a = ctx.a
    prog = a.prog
    mod = prog.modules.get("mqtt.pdu")
    if mod is None:
        raise AnalysisError("anchor vanished: mqtt.pdu")
    # "for every valid remaining length in 0..268435455": the round trip starts with an encode() that accepts the packet.  The one guard
    # on the packet size (PUBLISH.encode) must sit exactly at the top of the 4-byte length class - C02's S7 size-guard instance
    from .common import run_premise
    run_premise(ctx, "C02", "L1", "size-guard", "PUBLISH.encode accepts every remaining length up to 268435455",
                "a valid packet is refused by encode(): there is nothing to decode, the round trip fails for that length class",
                only=lambda f: f.construct.endswith("/size-guard"))
    probs, facts = check_primitives(prog)
    prim_names = ["encodeString", "decodeString", "encode16Int", "decode16Int", "encodeLength", "decodeLength"]
    by = {}
    for p in probs:
        by.setdefault(p.cls, []).append(p)
    for n in prim_names:
        ps = [p for k, v in by.items() if n in k for p in v]
        if not ps:
            ctx.ob("L1", "%s radix constants and shape" % n, True, where="src/mqtt/pdu.py:%d" % mod.funcs[n].node.lineno, construct="mqtt.pdu.%s" % n)
        for p in ps:
            ctx.ob(p.rule if p.rule in ("L1", "L5") else "L1", "%s %s" % (n, p.what), False, where=loc(p.node), function="mqtt.pdu.%s" % n,
                   construct="mqtt.pdu.%s/%s" % (p.cls, p.what), msg=p.msg)
    ncls = 0
    nitems = 0
    for name, c in pdu_classes(prog).items():
        ncls += 1
        problems, stats, encm, decm = compare_class(prog, c)
        nitems += stats["items"]
        ctx.count("layout_items_compared", stats["items"])
        ctx.count("guard_combinations", stats["combos"])
        rules_seen = {p.rule for p in problems}
        for rule in ("L2", "L3", "L4", "L5"):
            if rule not in rules_seen:
                ctx.ob(rule, "%s encode/decode agree (%s)" % (name, rule), True, where="src/mqtt/pdu.py:%d" % c.node.lineno,
                       construct="mqtt.pdu.%s/%s" % (name, rule), nontrivial=stats["items"] > 0 or rule == "L2")
        for p in problems:
            fn = "mqtt.pdu.%s.%s" % (name, "decode" if p.rule == "L4" else "encode")
            ctx.ob(p.rule, "%s %s" % (name, p.what), False, where=loc(p.node, "src/mqtt/pdu.py:%d" % c.node.lineno), function=fn,
                   construct="mqtt.pdu.%s/%s" % (name, p.what), msg=p.msg)
        # the fixed-header skip of the decoder agrees with decodeLength
        if decm.reads or decm.hdr["found"]:
            h = decm.hdr
            if h["found"]:
                el, dl = facts["length"]
                ok = h["mask"] == dl["test"] and h["start"] == 1 and h["plus"] == 1 and h.get("step", 1) == 1
                ctx.ob("L1", "%s.decode skips the fixed header with decodeLength's continuation bit" % name, ok,
                       where="src/mqtt/pdu.py:%d" % h["node"].lineno, function="mqtt.pdu.%s.decode" % name,
                       construct="mqtt.pdu.%s/header-skip" % name,
                       msg="header skip: start index %s, mask %s, index advanced by %s per length byte, body starts at scanned index + %s "
                           "(must be 1, 0x80, 1, 1)" % (h["start"], h["mask"], h.get("step", 1), h["plus"]))
            else:
                ctx.ob("L1", "%s.decode skips the fixed header" % name, False, where="src/mqtt/pdu.py:%d" % c.node.lineno,
                       construct="mqtt.pdu.%s/header-skip" % name, msg="the decoder reads the body without skipping the remaining-length field")
        # L6 determinism
        impure = sorted(x for x in encm.calls if x not in PURE and not x.endswith("Error"))
        ctx.ob("L6", "%s.encode calls only pure helpers" % name, not impure, where="src/mqtt/pdu.py:%d" % method_of(prog, c, "encode").node.lineno,
               function="mqtt.pdu.%s.encode" % name, construct="mqtt.pdu.%s/impure-call" % name, msg="encode() calls %s" % impure)
        ws = sorted(x for x in encm.writes_self if x != "encoded")
        ctx.ob("L6", "%s.encode writes only self.encoded" % name, not ws, where="src/mqtt/pdu.py:%d" % method_of(prog, c, "encode").node.lineno,
               function="mqtt.pdu.%s.encode" % name, construct="mqtt.pdu.%s/self-write" % name, msg="encode() assigns self.%s" % ws, nontrivial=False)
        for fn_, txt, node in getattr(encm, "iter_wrappers", []):
            ok = fn_ in ("list", "tuple")
            ctx.ob("L6", "%s.encode iterates its field in the field's own order" % name, ok, where=loc(node), function="mqtt.pdu.%s.encode" % name,
                   construct="mqtt.pdu.%s/iteration-order" % name,
                   msg="encode() iterates over %s: the order on the wire is not the order of the field (and, for a set, not even deterministic)" % txt)
    ctx.floor("PDU classes with encode/decode", ncls, 14)
    ctx.floor("layout items compared", nitems, 30)
    ctx.count("pdu_classes", ncls)
    ctx.count("primitive_helpers", 6)
    ctx.note("value-level inverse property of the primitives on their whole domains is not decided")
