"""C20: invalid arguments rejected atomically with ValueError/TypeError; valid ones accepted."""
import math

from ..model import AnalysisError
from ..terms import SELF, FAC, show, is_const, mentions, subterms
from ..catalogue import catalogue, is_effect, is_fresh
from ..interp_expr import NEG
from .common import where, cls_short, exc_class, flat, after, capabilities

EXPLANATION = (
    "Guard extraction over every path of the API entry points: for each numeric argument the accepted interval is "
    "computed from the branch conditions of the accepting paths (integer normalisation of strict bounds) and compared "
    "with the interval in the property statement; for the relational connect() checks every accepting path must refute "
    "each forbidden combination and every rejecting path must entail one (no spurious rejection); every rejection is a "
    "failed Deferred / raise whose exception class derives from ValueError or TypeError (resolved in error.py, "
    "unbound names on the raise path included); no rejecting path contains a write, registry insertion, timer or "
    "state change; no validation exception escapes the API call; G-STRBOUND - the over-long-string refusal lives in the "
    "encoders the API calls feed: encodeString compares the encoded byte count with exactly 65535 and raises a ValueError "
    "subclass, encode16Int range-checks by item assignment into a 2-byte bytearray, and every length prefix CONNECT / "
    "PUBLISH / SUBSCRIBE / UNSUBSCRIBE emit counts the very bytes appended after it (a character count would let a "
    "multi-byte string past the check). Decides the guards for all paths, not run-time values. "
    " G-STORE holds per argument of a setter; G-TYPE - subscribe()/unsubscribe() accept only on paths where a positive isinstance test of the topic argument succeeded.")
ASSUMPTIONS = ["arguments compared against integer bounds are integers (strict bounds normalised to inclusive ones)"]

INF = 10 ** 12


def interval_of(facts, var):
    lo, hi = -INF, INF
    for t, val in facts.items():
        if not (isinstance(t, tuple) and t[0] == "cmp" and t[2] == var and is_const(t[3])):
            continue
        c = t[3][1]
        if isinstance(c, bool) or not isinstance(c, (int, float)):
            continue
        op = t[1] if val else NEG.get(t[1])
        if op == "<":
            hi = min(hi, math.ceil(c) - 1)
        elif op == "<=":
            hi = min(hi, math.floor(c))
        elif op == ">":
            lo = max(lo, math.floor(c) + 1)
        elif op == ">=":
            lo = max(lo, math.ceil(c))
        elif op == "==":
            lo, hi = max(lo, c), min(hi, c)
    return lo, hi


def fmt(iv):
    lo, hi = iv
    return "[%s, %s]" % ("-inf" if lo <= -INF else lo, "+inf" if hi >= INF else hi)


def path_facts(p):
    return p.st.facts if p.st is not None else {}


def value_or_type(prog, cls):
    return cls is not None and (prog.exc_is(cls, "ValueError") or prog.exc_is(cls, "TypeError"))


def reject_info(p):
    """(is_reject, exception class, how) for a path of an API entry."""
    if p.exit_kind() == "raise":
        return True, exc_class(p.exit[1]), "raise"
    if p.exit_kind() == "return" and isinstance(p.exit[1], tuple) and p.exit[1][0] == "dfr" and p.exit[1][2] == "fail":
        for e in p.walk():
            if e.kind == "DEFNEW" and e.a["dfr"] == p.exit[1]:
                return True, exc_class(e.a["arg"]), "fail"
        return True, None, "fail"
    return False, None, None


STATE_REASONS = ("MQTTStateError", "MQTTWindowError")


def check(ctx):
    a = ctx.a
    prog = a.prog
    caps, pm, _ = capabilities(a)
    # ---------------- setters ------------------------------------------------
    expected_setters = {"setWindowSize": {"n": (1, 16)}, "setTimeout": {"timeout": (1, 1024)},
                        "setBandwith": {"bandwith": (1, INF), "factor": (1, INF)}}
    setters_seen = 0
    for cls in a.protos:
        cat = catalogue(a, cls)
        for name, exp in expected_setters.items():
            ent = cat.get(name)
            if ent is None:
                continue
            if ent.func.cls is not None and ent.func.cls.qual != cls.qual and cls is not a.protos[0] and \
                    any(c2.qual == ent.func.cls.qual for c2 in a.protos if c2 is not cls):
                continue    # inherited unchanged: analysed on the defining class
            setters_seen += 1
            params = [q for q in ent.func.params if q != "self"]
            accept = [p for p in ent.paths if p.exit_kind() in ("fall", "return")]
            reject = [p for p in ent.paths if p.exit_kind() == "raise"]
            w = "%s:%d" % (ent.func.file, ent.func.node.lineno)
            for i, (pname, iv) in enumerate(exp.items()):
                var = ("param", params[i]) if i < len(params) else None
                ok = bool(accept) and var is not None
                lo, hi = INF, -INF
                for p in accept:
                    got = interval_of(path_facts(p), var)
                    lo, hi = min(lo, got[0]), max(hi, got[1])
                    if got[0] < iv[0] or got[1] > iv[1]:
                        ok = False
                if (lo, hi) != iv:
                    ok = False
                ctx.ob("G-INTERVAL", "%s(%s) accepts exactly %s" % (name, pname, fmt(iv)), ok, where=w, function=ent.func.qual,
                       construct="%s/%s/interval" % (ent.func.qual, pname),
                       msg="%s accepts %s for argument %s, the property says %s" % (name, fmt((lo, hi)) if accept else "nothing", pname, fmt(iv)))
            for p in accept:
                stores = [e for e in p.walk() if e.kind == "SETATTR" and e.a["obj"] == SELF]
                ctx.ob("G-STORE", "%s stores the accepted value" % name, bool(stores), where=w, function=ent.func.qual,
                       construct="%s/store" % ent.func.qual, nontrivial=False, msg="%s accepts without storing anything" % name)
                # ... every accepted argument, not just one of them (a setter that drops its second argument keeps the old setting)
                for prm in params:
                    kept = any(("param", prm) == sub for e in stores for sub in subterms(e.a["val"]))
                    ctx.ob("G-STORE", "%s stores its argument %s" % (name, prm), kept, where=w, function=ent.func.qual,
                           construct="%s/store/%s" % (ent.func.qual, prm),
                           msg="%s accepts %s but stores it nowhere: the setting keeps its previous value" % (name, prm))
            for p in reject:
                c = exc_class(p.exit[1])
                eff = [e for e in p.walk() if is_effect(e)]
                ctx.ob("G-EXC", "%s rejects with ValueError" % name, c is not None and prog.exc_is(c, "ValueError"), where=w,
                       function=ent.func.qual, construct="%s/exception/%s" % (ent.func.qual, c),
                       msg="%s raises %s which is not a ValueError" % (name, c))
                ctx.ob("G-ATOMIC", "%s changes nothing when it rejects" % name, not eff, where=where(eff[0]) if eff else w,
                       function=ent.func.qual, construct="%s/atomic" % ent.func.qual,
                       msg="rejecting path of %s has effect %s" % (name, eff[0].brief() if eff else ""))
            ctx.ob("G-REJECTS", "%s has a rejecting path" % name, bool(reject), where=w, function=ent.func.qual,
                   construct="%s/no-guard" % ent.func.qual, msg="%s never raises" % name)
    ctx.floor("setter entry points", setters_seen, 3)

    # ---------------- request operations -------------------------------------
    def api_paths(cat, op, honoured_slots):
        ent = cat.get(op)
        out = []
        if ent is None:
            return ent, out
        for p in ent.paths:
            d = [e for e in p.walk() if e.kind == "DISPATCH"]
            if d and d[0].a["slot"] in honoured_slots:
                out.append((p, d[0]))
        return ent, out

    n_ops = 0
    for cls in a.protos:
        cat = catalogue(a, cls)
        ccaps = caps.get(cls.qual, set())
        plan = [("connect", {"IDLE"}, True)]
        if "pub" in ccaps:
            plan.append(("publish", {"CONNECTING", "CONNECTED"}, True))
        if "sub" in ccaps:
            plan.append(("subscribe", {"CONNECTED"}, True))
            plan.append(("unsubscribe", {"CONNECTED"}, True))
        for op, slots, _ in plan:
            ent, paths = api_paths(cat, op, slots)
            if ent is None:
                continue
            n_ops += 1
            w = "%s:%d" % (ent.func.file, ent.func.node.lineno)
            accept, reject = [], []
            for p, d in paths:
                r, c, how = reject_info(p)
                (reject if r else accept).append((p, d, c, how))
            ctx.ob("G-ACCEPTS", "%s.%s has accepting paths" % (cls_short(cls.qual), op), bool(accept), where=w,
                   construct="%s.%s/no-accept" % (cls.qual, op), msg="no accepting path")
            # exception classes and escape
            for p, d, c, how in reject:
                if c is not None and any(c.endswith(s) for s in STATE_REASONS):
                    continue
                inst = "%s.%s rejection with %s" % (cls_short(cls.qual), op, (c or "?").split(".")[-1])
                rs = [e for e in p.walk() if e.kind in ("RAISE", "ENCODE", "UNDEFINED")]
                loc = where(rs[-1]) if rs else w
                ctx.ob("G-EXC", inst, value_or_type(prog, c), where=loc, function=rs[-1].func if rs else ent.func.qual,
                       construct="%s/exception/%s" % (rs[-1].func if rs else ent.func.qual, c),
                       msg="%s() fails with %s, which is neither a ValueError nor a TypeError" % (op, c))
                ctx.ob("G-FAILRET", "%s.%s rejects through a failed Deferred" % (cls_short(cls.qual), op), how == "fail", where=loc,
                       function=ent.func.qual, construct="%s.%s/escape/%s" % (cls.qual, op, c),
                       msg="%s escapes from %s() instead of failing the returned Deferred" % (c, op))
                eff = [e for e in after(flat(p), d) if is_effect(e) and not _id_alloc(e)]
                ctx.ob("G-ATOMIC", "%s.%s changes nothing when it rejects (%s)" % (cls_short(cls.qual), op, (c or "?").split(".")[-1]),
                       not eff, where=where(eff[0]) if eff else loc, function=eff[0].func if eff else ent.func.qual,
                       construct="%s.%s/atomic/%s" % (cls.qual, op, eff[0].kind if eff else ""),
                       msg="rejecting path of %s() has effect %s" % (op, eff[0].brief() if eff else ""))
            if op in ("subscribe", "unsubscribe"):
                # "a topic argument of the wrong type" is refused: every accepting path has established, by a positive isinstance test,
                # that the argument is one of the accepted kinds (a path on which every such test failed must not accept)
                tparam = [q for q in ent.func.params if q != "self"][0] if len(ent.func.params) > 1 else None
                for p, d, c, how in accept:
                    typed = False
                    for cnd in p.conds:
                        t, pol = cnd.term, cnd.pol
                        while isinstance(t, tuple) and t and t[0] == "not":
                            t, pol = t[1], not pol
                        if pol and isinstance(t, tuple) and t[:2] == ("call", ("builtin", "isinstance")) and len(t[2]) == 2 \
                                and mentions(t[2][0], ("param", tparam)):
                            typed = True
                    ctx.ob("G-TYPE", "%s.%s accepts only a topic argument of a tested type" % (cls_short(cls.qual), op), typed, where=w,
                           function=ent.func.qual, construct="%s.%s/untyped-accept" % (cls.qual, op),
                           msg="%s() has an accepting path on which no isinstance test of the topic argument succeeded: an argument of the "
                               "wrong type (a set, a dict, a tuple of names) is encoded and sent" % op)
            if op == "connect":
                _connect_rules(ctx, cls, ent, accept, reject, w)
            elif op == "publish":
                var = ("param", [q for q in ent.func.params if q != "self"][2]) if len(ent.func.params) > 3 else None
                _interval_rule(ctx, cls, op, "qos", var, (0, 2), accept, w, ent)
                _spurious(ctx, cls, op, reject, {var: (0, 2)}, [], w, ent)
            elif op == "subscribe":
                _subscribe_rules(ctx, cls, ent, accept, reject, w)
            elif op == "unsubscribe":
                _spurious(ctx, cls, op, reject, {}, [], w, ent, type_checks=True)
    ctx.floor("request operations analysed", n_ops, 9)
    _string_bounds(ctx, prog)


def _string_bounds(ctx, prog):
    """G-STRBOUND: "any string over 65535 bytes" is refused.  The refusal lives in the encoders the API calls feed
    (their exceptions are the ones the G-EXC/G-FAILRET rules see surfacing): it holds iff (a) encodeString compares the
    number of encoded bytes with exactly 65535 and raises a ValueError subclass, (b) encode16Int stores into a 2-byte
    bytearray without masking the high part (the item assignment is the range check), and (c) every length-prefixed
    string an encoder of an API-built packet emits is prefixed with the count of the very bytes appended after it."""
    from ..codec_prims import check_primitives
    from ..codec_cmp import compare_class
    from .c01 import loc
    mod = prog.modules.get("mqtt.pdu")
    probs, facts = check_primitives(prog)
    n = 0
    for pr in probs:
        rel = (pr.rule == "S7") or (pr.rule == "L5") or (pr.rule == "L1" and pr.cls.startswith("encode16Int") and pr.what in ("width", "hi", "lo"))
        if rel:
            n += 1
            ctx.ob("G-STRBOUND", "%s %s" % (pr.cls, pr.what), False, where=loc(pr.node), function="mqtt.pdu.%s" % pr.cls.split("/")[0],
                   construct="mqtt.pdu.%s/%s" % (pr.cls, pr.what), msg="over-long strings are not refused: " + pr.msg)
    if not n:
        ctx.ob("G-STRBOUND", "encodeString refuses more than 65535 encoded bytes with a ValueError; encode16Int range-checks by item assignment",
               True, where="src/mqtt/pdu.py", construct="mqtt.pdu.encodeString/bound")
    seen = 0
    for name in ("CONNECT", "PUBLISH", "SUBSCRIBE", "UNSUBSCRIBE"):
        c = mod.classes.get(name)
        if c is None or prog.lookup_method(c, "encode") is None:
            raise AnalysisError("anchor vanished: mqtt.pdu.%s.encode" % name)
        problems, stats, encm, decm = compare_class(prog, c)
        bad = [q for q in problems if q.rule == "L5"]
        seen += 1
        for q in bad:
            ctx.ob("G-STRBOUND", "%s %s" % (name, q.what), False, where=loc(q.node, "src/mqtt/pdu.py:%d" % c.node.lineno),
                   function="mqtt.pdu.%s.encode" % name, construct="mqtt.pdu.%s/%s" % (name, q.what),
                   msg="a string of more than 65535 bytes can pass the 16-bit range check: " + q.msg)
        if not bad:
            ctx.ob("G-STRBOUND", "%s.encode: every length prefix counts the bytes appended after it" % name, True,
                   where="src/mqtt/pdu.py:%d" % c.node.lineno, construct="mqtt.pdu.%s/prefixes" % name)
    ctx.floor("API-built packet encoders checked for string bounds", seen, 4)


def _id_alloc(e):
    return e.kind == "FACRET" or (e.kind == "SETATTR" and e.a["obj"] == FAC)


def _interval_rule(ctx, cls, op, pname, var, iv, accept, w, ent):
    """The accepted set (union over accepting paths) equals the stated interval; no accepting path leaves it."""
    ok = bool(accept) and var is not None
    lo, hi = INF, -INF
    for p, d, c, how in accept:
        got = interval_of(path_facts(p), var)
        lo, hi = min(lo, got[0]), max(hi, got[1])
        if got[0] < iv[0] or got[1] > iv[1]:
            ok = False
    if (lo, hi) != iv:
        ok = False
    ctx.ob("G-INTERVAL", "%s.%s(%s) accepts exactly %s" % (cls_short(cls.qual), op, pname, fmt(iv)), ok, where=w,
           function=ent.func.qual, construct="%s.%s/%s/interval" % (cls.qual, op, pname),
           msg="%s() accepts %s for %s, the property says %s" % (op, fmt((lo, hi)) if accept else "nothing", pname, fmt(iv)),
           accepted=(lo, hi) if accept else None, stated=iv, argument=pname)


def _entails_out_of_range(facts, ranges):
    for var, (lo, hi) in ranges.items():
        if var is None:
            continue
        l2, h2 = interval_of(facts, var)
        if h2 < lo or l2 > hi:
            return True
    return False


_NEGOP = {"==": "!=", "!=": "==", "<": ">=", ">=": "<", ">": "<=", "<=": ">", "is": "is not", "is not": "is", "in": "not in", "not in": "in"}


def _lit(facts, t):
    """Truth of literal term under facts, or None.  Understands the negated comparison operator and equalities /
    inequalities between two truth-valued terms (hasA != hasB ... if hasA)."""
    def direct(t):
        if t in facts:
            return facts[t]
        if isinstance(t, tuple) and t[0] == "cmp" and t[1] in _NEGOP:
            n = ("cmp", _NEGOP[t[1]], t[2], t[3])
            if n in facts:
                return not facts[n]
        if isinstance(t, tuple) and t[0] == "nonnull":
            tr = facts.get(("truthy", t[1]))
            if tr is True:
                return True
        return None
    v = direct(t)
    if v is not None:
        return v
    for k, kv in facts.items():
        if isinstance(k, tuple) and k[0] == "cmp" and k[1] in ("==", "!=", "is", "is not") and len(k) == 4:
            a, b = k[2], k[3]
            if t not in (a, b):
                continue
            other = b if t == a else a
            ov = direct(other)
            if ov is None:
                continue
            same = (k[1] in ("==", "is")) == bool(kv)
            return ov if same else (not ov)
    return None


def _refuted(facts, combo):
    """Do the facts of a path exclude the combination (a list of (literal, value))?"""
    if any(_lit(facts, t) == (not v) for t, v in combo):
        return True
    # two literals of the combination related by an (in)equality the path decided: hasA == hasB excludes (A, not B)
    for k, kv in facts.items():
        if isinstance(k, tuple) and k[0] == "cmp" and k[1] in ("==", "!=", "is", "is not") and len(k) == 4:
            want = dict((t, v) for t, v in combo)
            if k[2] in want and k[3] in want:
                same = (k[1] in ("==", "is")) == bool(kv)
                if same != (want[k[2]] == want[k[3]]):
                    return True
    return False


def _spurious(ctx, cls, op, reject, ranges, combos, w, ent, type_checks=False):
    """Every argument-fault rejection must be justified: a numeric argument out of range, a forbidden combination,
    a type test that failed, or an encoder fault."""
    for p, d, c, how in reject:
        if c is not None and any(c.endswith(s) for s in STATE_REASONS):
            continue
        facts = path_facts(p)
        evs = list(p.walk())
        justified = _entails_out_of_range(facts, ranges)
        if not justified:
            for combo in combos:
                if all(_lit(facts, t) == v for t, v in combo):
                    justified = True
                    break
        if not justified and any(e.kind == "ENCODE" and not e.a["ok"] for e in evs):
            justified = True     # unrepresentable field: the encoder's own rejection (C02/S7)
        if not justified:
            # a failed isinstance() test of an argument
            for t, v in facts.items():
                if v is False and isinstance(t, tuple) and t[0] == "truthy" and isinstance(t[1], tuple) and t[1][0] == "call" \
                        and t[1][1] == ("builtin", "isinstance"):
                    justified = True
        if not justified:
            # numeric test inside a loop body (per-topic QoS)
            for e in evs:
                if e.kind == "LOOP":
                    for bp in e.a["body"]:
                        if bp.exit_kind() == "raise" and bp.st is not None:
                            for t, v in bp.st.facts.items():
                                if isinstance(t, tuple) and t[0] == "cmp" and is_const(t[3]):
                                    l2, h2 = interval_of(bp.st.facts, t[2])
                                    if h2 < 0 or l2 > 2:
                                        justified = True
        if not justified and op == "subscribe":
            # the same per-topic test when the topic list is a display of known length (the loop is then walked entry by entry)
            for t, v in facts.items():
                if isinstance(t, tuple) and t[0] == "cmp" and is_const(t[3]) and isinstance(t[3][1], int):
                    l2, h2 = interval_of(facts, t[2])
                    if h2 < 0 or l2 > 2:
                        justified = True
        rs = [e for e in evs if e.kind in ("RAISE", "UNDEFINED")]
        loc = where(rs[-1]) if rs else w
        ctx.ob("G-SPURIOUS", "%s.%s rejection (%s) is for a stated reason" % (cls_short(cls.qual), op, (c or "?").split(".")[-1]),
               justified, where=loc, function=rs[-1].func if rs else ent.func.qual,
               construct="%s.%s/spurious/%s" % (cls.qual, op, c),
               msg="%s() rejects although no argument is out of its stated range on this path (conditions: %s)" % (
                   op, [repr(x) for x in p.conds][-3:]))


def _connect_rules(ctx, cls, ent, accept, reject, w):
    params = {q: ("param", q) for q in ent.func.params if q != "self"}
    need = ["willQoS", "keepalive", "clientId", "version", "willTopic", "willMessage", "username", "password"]
    missing = [q for q in need if q not in params]
    if missing:
        raise AnalysisError("anchor vanished: connect() parameters %s" % missing)
    P = params
    ranges = {P["willQoS"]: (0, 2), P["keepalive"]: (0, 65535)}
    _interval_rule(ctx, cls, "connect", "willQoS", P["willQoS"], (0, 2), accept, w, ent)
    _interval_rule(ctx, cls, "connect", "keepalive", P["keepalive"], (0, 65535), accept, w, ent)
    v31 = ("constobj", "mqtt.v31")
    v311 = ("constobj", "mqtt.v311")
    is31 = ("cmp", "==", P["version"], v31)
    is311 = ("cmp", "==", P["version"], v311)
    longid = ("cmp", ">", ("call", ("builtin", "len"), (P["clientId"],)), ("const", 23))
    nn = lambda q: ("nonnull", P[q])
    combos = {
        "will message without topic": [(nn("willMessage"), True), (nn("willTopic"), False)],
        "will topic without message": [(nn("willMessage"), False), (nn("willTopic"), True)],
        "password without user name": [(nn("username"), False), (nn("password"), True)],
        "3.1 client id over 23 characters": [(is31, True), (longid, True)],
        "unknown protocol version": [(is31, False), (is311, False)],
    }
    for name, combo in combos.items():
        ok = bool(accept)
        badpath = None
        for p, d, c, how in accept:
            facts = path_facts(p)
            if not _refuted(facts, combo):
                ok = False
                badpath = p
                break
        ctx.ob("G-COMBO", "%s.connect refuses: %s" % (cls_short(cls.qual), name), ok, where=w, function=ent.func.qual,
               construct="%s.connect/combo/%s" % (cls.qual, name),
               msg="an accepting path of connect() does not exclude '%s' (conditions: %s)" % (
                   name, [repr(x) for x in badpath.conds] if badpath else ""))
    _spurious(ctx, cls, "connect", reject, ranges, list(combos.values()), w, ent)


def _subscribe_rules(ctx, cls, ent, accept, reject, w):
    # per-topic QoS: what is range-checked must be the QoS of the very entries that are encoded - the second component of each
    # (topic, qos) pair of the topic list: of each element when the list is a display built by subscribe() itself, of the loop's
    # own element when the caller's list is walked
    ok_all = bool(accept)
    got = None
    for p, d, c, how in accept:
        enc = [e for e in p.walk() if e.kind == "ENCODE" and "fields" in e.a and e.a["fields"].get("topics") is not None]
        if not enc:
            ok_all = False
            continue
        topics = enc[0].a["fields"]["topics"]
        facts = path_facts(p)
        if isinstance(topics, tuple) and topics[0] == "list" and all(isinstance(x, tuple) and x[0] == "tuple" and len(x[1]) == 2 for x in topics[1]):
            for x in topics[1]:
                got = interval_of(facts, x[1][1])
                if got != (0, 2):
                    ok_all = False
            continue
        found = False
        for e in p.walk():
            if e.kind != "LOOP" or e.a.get("iter") != topics:
                continue
            names = [n.strip(" ()") for n in str(e.a.get("target") or "").split(",")]
            qv = ("unk", "unpack:%s" % names[1]) if len(names) == 2 else None
            if qv is None and len(names) == 1:
                # for pair in topics: topic, qos = pair   - the element unpacked by the first statement that mentions it
                import ast as _ast
                ln = getattr(e, "node", None)
                for st_ in (ln.body if isinstance(ln, (_ast.For, _ast.While)) else []):
                    if isinstance(st_, _ast.Assign) and len(st_.targets) == 1 and isinstance(st_.targets[0], (_ast.Tuple, _ast.List)) \
                            and len(st_.targets[0].elts) == 2 and all(isinstance(x, _ast.Name) for x in st_.targets[0].elts) \
                            and isinstance(st_.value, _ast.Name) and st_.value.id == names[0]:
                        qv = ("unk", "unpack:%s" % st_.targets[0].elts[1].id)
                        break
            conts = [bp for bp in e.a["body"] if bp.exit_kind() in ("fall", "continue") and bp.st is not None]
            if qv is not None and conts:
                found = True
                for bp in conts:
                    got = interval_of(bp.st.facts, qv)
                    if got != (0, 2):
                        found = False
        if not found:
            ok_all = False
    ctx.ob("G-INTERVAL", "%s.subscribe(qos) accepts exactly [0, 2] per topic" % cls_short(cls.qual), ok_all, where=w,
           function=ent.func.qual, construct="%s.subscribe/qos/interval" % cls.qual,
           msg="subscribe() accepts per-topic QoS %s, the property says [0, 2]" % (fmt(got) if got else "unchecked"),
           accepted=got if got else (-INF, INF), stated=(0, 2), argument="qos")
    _spurious(ctx, cls, "subscribe", reject, {}, [], w, ent, type_checks=True)
