"""Helpers shared by the property rule modules."""
import ast

from ..model import AnalysisError, ClassInfo
from ..terms import SELF, FAC, NONE, Path, show, is_const, mentions
from ..catalogue import catalogue, is_effect, profile_map, is_fresh

# MQTT 3.1.1 control packet types (OASIS section 2.2.1), transcribed, with direction.
SPEC_TYPES = {1: ("CONNECT", "c2s"), 2: ("CONNACK", "s2c"), 3: ("PUBLISH", "both"), 4: ("PUBACK", "both"),
              5: ("PUBREC", "both"), 6: ("PUBREL", "both"), 7: ("PUBCOMP", "both"), 8: ("SUBSCRIBE", "c2s"),
              9: ("SUBACK", "s2c"), 10: ("UNSUBSCRIBE", "c2s"), 11: ("UNSUBACK", "s2c"), 12: ("PINGREQ", "c2s"),
              13: ("PINGRESP", "s2c"), 14: ("DISCONNECT", "c2s")}
# class names used by the code base for the packet types
PDU_CLASS_OF_TYPE = {"PINGRESP": "PINGRES"}


def pdu_class_name(typename):
    return PDU_CLASS_OF_TYPE.get(typename, typename)


def where(e):
    return "%s:%d" % (e.file, e.line)


def short(q):
    return q.split(".")[-1] if q else q


def cls_short(q):
    parts = q.split(".")
    return ".".join(parts[-2:]) if len(parts) >= 2 else q


def net_body_paths(cat):
    """Body paths of the framing loop in dataReceived that reach the type-nibble lookup.
    Yields (kval or None, typename or None, path)."""
    ent = cat.get("dataReceived")
    if ent is None:
        raise AnalysisError("anchor vanished: dataReceived")
    seen = 0
    # the dispatcher's frame: the deepest frame shared by the type look-up and the state dispatch that follows it (the look-up may
    # sit in a helper the dispatcher calls first) - found once, on the paths that do dispatch, and used for all of them
    disp_depth = None
    for p in ent.paths:
        for e in p.events:
            if e.kind != "LOOP":
                continue
            for bp in e.a["body"]:
                cm = [x for x in bp.events if x.kind == "CONSTMAP"]
                if not cm:
                    continue
                for x in bp.walk():
                    if x.kind == "DISPATCH":
                        k = 0
                        while k < min(len(cm[0].stack), len(x.stack)) and cm[0].stack[k] == x.stack[k]:
                            k += 1
                        if k > len(e.stack):
                            disp_depth = k if disp_depth is None else min(disp_depth, k)
                        break
    for p in ent.paths:
        for e in p.events:
            if e.kind != "LOOP":
                continue
            for bp in e.a["body"]:
                cm = [x for x in bp.events if x.kind == "CONSTMAP"]
                if not cm:
                    continue
                seen += 1
                c = cm[0]
                # events of this packet: those inside the dispatcher's frame (the framer's own bookkeeping excluded)
                pre = c.stack[:disp_depth] if disp_depth is not None and len(c.stack) > disp_depth else c.stack
                pkt = [x for x in bp.walk() if x.stack[:len(pre)] == pre and len(x.stack) >= len(pre)]
                bp.pkt_events = pkt
                if c.a["hit"]:
                    yield c.a["kval"], c.a["val"], bp
                else:
                    yield None, None, bp
        if seen:
            break   # the framer's outer paths that reach the loop differ only in how the function is left
    if not seen:
        raise AnalysisError("anchor vanished: no packet-type lookup reached from dataReceived")


def equals_const(conds, term, value):
    """What the branch conditions say about `term == value`: True, False or None (not tested).  Understands ==, !=, the
    truthiness of the term (for value 0) and negations."""
    for c in conds:
        t, pol = c.term, c.pol
        while isinstance(t, tuple) and t and t[0] == "not":
            t, pol = t[1], not pol
        if isinstance(t, tuple) and t and t[0] == "cmp" and len(t) == 4:
            op, l, r = t[1], t[2], t[3]
            if r == term and l == ("const", value):
                l, r = r, l
            if l == term and r == ("const", value):
                if op == "==":
                    return pol
                if op == "!=":
                    return not pol
                if value == 0 and op == ">":      # unsigned quantities: > 0 means != 0
                    return not pol
        if value == 0 and (t == term or (isinstance(t, tuple) and t and t[0] == "truthy" and t[1] == term)):
            return not pol
    return None


def after(events, ev):
    """Events of a (flat) list after `ev`."""
    out = []
    hit = False
    for e in events:
        if hit:
            out.append(e)
        if e is ev:
            hit = True
    return out


def flat(path):
    """Path events with loop bodies inlined (every body path, in order) - for 'does X occur' queries."""
    return list(path.walk())


def exc_class(t):
    if isinstance(t, tuple) and t and t[0] == "exc":
        return t[1]
    return None


def written_object(data):
    """The PDU object whose bytes a WRITE sends, and how: ('encres'|'encoded'|'other', obj)."""
    t = data
    if not isinstance(t, tuple):
        return "other", None
    if t[0] == "encres":
        return "encres", t[1]
    if t[0] == "ifexp":
        a, b = written_object(t[1]), written_object(t[2])
        if a[1] is not None and a[1] == b[1]:
            return a
        return "other", None
    if t[0] == "call" and isinstance(t[1], tuple) and t[1][0] == "builtin" and t[1][1] in ("bytes", "str", "bytearray") \
            and len(t[2]) == 1:
        return written_object(t[2][0])
    if t[0] == "attr" and t[2] == "encoded":
        return "encoded", t[1]
    if t[0] == "encbuf":
        return "encoded", t[1]
    return "other", None


def fresh_encoding(we, evs):
    """Does WRITE event `we` send what an encode() on this very path produced: the value encode() returned, or the object's .encoded buffer
    read after a successful encode() of the same object earlier on the path (encode() stores there what it returns)?"""
    how, obj = written_object(we.a["data"])
    if how == "encres":
        return True
    if how == "encoded" and obj is not None and we in evs:
        before = evs[:evs.index(we)]
        encs = [i for i, e in enumerate(before) if e.kind == "ENCODE" and e.a.get("ok") and e.a["obj"] == obj]
        if encs and not any(e.kind == "SETATTR" and e.a["obj"] == obj and e.a["field"] == "encoded" for e in before[encs[-1]:]):
            return True
    return False


class Types:
    """A2: classes of registry elements and timer parameters, from insertion / arming sites."""

    def __init__(self, analysis):
        self.a = analysis
        self.reg_elem = {}      # registry -> set of class quals
        self.param_cls = {}     # (timer func qual, param) -> set of class quals
        for cls in analysis.protos:
            cat = catalogue(analysis, cls)
            eng = cat.eng
            for ent, p, e in cat.all_events("REG"):
                c = self.class_of(e.a["val"], eng)
                if c:
                    self.reg_elem.setdefault(e.a["reg"], set()).update(c)
        # second pass: elements moved between registries (popped from one, inserted into another)
        for _ in range(2):
            for cls in analysis.protos:
                cat = catalogue(analysis, cls)
                for ent, p, e in cat.all_events("REG"):
                    c = self.class_of(e.a["val"], cat.eng)
                    if c:
                        self.reg_elem.setdefault(e.a["reg"], set()).update(c)
                # parameters of repository functions, from the arguments at their call sites
                for ent, p, e in cat.all_events("CALL"):
                    fn = analysis.prog.funcs.get(e.a["func"])
                    if fn is None or not e.a["args"]:
                        continue
                    params = [q for q in fn.params if q != "self"] if (fn.cls is not None and not fn.is_static) else list(fn.params)
                    for q, arg in zip(params, e.a["args"]):
                        c = self.class_of(arg, cat.eng, timer_func=ent.func.qual)
                        if c:
                            self.param_cls.setdefault((fn.qual, q), set()).update(c)
                for ent, p, e in cat.all_events("ARM"):
                    tgt = e.a["target"]
                    if isinstance(tgt, tuple) and tgt[0] == "partial":
                        tgt, extra = tgt[1], tuple(tgt[2])
                    else:
                        extra = ()
                    if isinstance(tgt, tuple) and tgt[0] == "bm":
                        params = [q for q in tgt[2].params if q != "self"]
                        for q, arg in zip(params, extra + tuple(e.a["args"])):
                            c = self.class_of(arg, cat.eng, timer_func=ent.func.qual)
                            if c:
                                self.param_cls.setdefault((tgt[2].qual, q), set()).update(c)
                    if isinstance(tgt, tuple) and tgt[0] == "func":
                        # a module-level function armed through functools.partial: its parameters, positionally
                        for q, arg in zip(list(tgt[1].params), extra + tuple(e.a["args"])):
                            c = self.class_of(arg, cat.eng, timer_func=ent.func.qual)
                            if c:
                                self.param_cls.setdefault((tgt[1].qual, q), set()).update(c)
                    if isinstance(tgt, tuple) and tgt[0] == "closure":
                        # what the closure captured, as it was when the closure was made (seen from the function that made it)
                        env, _, fi = cat.eng._closure_env[tgt[2]]
                        fi = cat._target(tgt)[1] or fi        # (the instance of the callback made for the registry captured, if any)
                        for k, v in env.items():
                            c = self.class_of(v, cat.eng, timer_func=ent.func.qual)
                            if c:
                                self.param_cls.setdefault((fi.qual, k), set()).update(c)

    def class_of(self, t, eng=None, timer_func=None):
        if not isinstance(t, tuple) or not t:
            return set()
        if t[0] == "new":
            return {t[1]}
        if t[0] in ("elem", "popped"):
            return set(self.reg_elem.get(t[1], ()))
        if t[0] == "param" and timer_func is not None:
            return set(self.param_cls.get((timer_func, t[1]), ()))
        if t[0] == "maybe":
            return self.class_of(t[1], eng, timer_func)
        return set()


def kind_names(analysis, quals):
    """Short class names of a set of class quals, where a helper subclass of a packet class that keeps the inherited codec counts as
    that packet class (class _Keepalive(PINGREQ) with timers of its own is a PINGREQ on the wire)."""
    prog = analysis.prog
    names = {n for n, _d in SPEC_TYPES.values()} | {"PINGRES"}
    out = set()
    for q in quals:
        ci = prog.classes.get(q)
        short_ = q.split(".")[-1]
        if ci is not None and short_ not in names and "encode" not in ci.methods and "decode" not in ci.methods:
            anc = [c.qual.split(".")[-1] for c in prog.mro(ci)[1:] if hasattr(c, "qual") and c.qual.split(".")[-1] in names]
            if anc:
                short_ = anc[0]
        out.add(short_)
    return out


def types(analysis):
    if "_types" not in analysis.__dict__:
        analysis._types = Types(analysis)
    return analysis._types


def profiles(analysis):
    """profile constant value -> protocol class qual; plus the raise-on-other check."""
    paths = profile_map(analysis)
    fac = analysis.engine(analysis.protos[0]).factory
    out = {}
    raises_other = False
    for p in paths:
        built = [e for e in p.events if e.kind == "NEW" and e.a["cls"] in {c.qual for c in analysis.protos}]
        val = None
        for c in p.conds:
            t, pol = c.term, c.pol
            while isinstance(t, tuple) and t and t[0] == "not":
                t, pol = t[1], not pol
            if isinstance(t, tuple) and t[0] == "cmp" and is_const(t[3]) and ((t[1] == "==" and pol) or (t[1] == "!=" and not pol)):
                val = t[3][1]
        if built and p.exit_kind() == "return":
            out[val] = built[0].a["cls"]
        elif p.exit_kind() == "raise":
            def excludes(c):
                t, pol = c.term, c.pol
                while isinstance(t, tuple) and t and t[0] == "not":
                    t, pol = t[1], not pol
                return (not pol) if not (isinstance(t, tuple) and t[:2] == ("cmp", "!=")) else bool(pol)
            if all(excludes(c) for c in p.conds):
                raises_other = True
    return out, raises_other, paths


def factory_const(analysis, name):
    fac = analysis.engine(analysis.protos[0]).factory
    ca = analysis.prog.lookup_classattr(fac, name)
    if ca is None:
        return None
    ok, v = analysis.prog.try_fold(ca[1], ca[0].module, ca[0])
    return v if ok else None


def capabilities(analysis):
    """protocol class qual -> set of {'pub','sub'} from the profile constants that build it."""
    pm, raises_other, _ = profiles(analysis)
    sub_bit = factory_const(analysis, "SUBSCRIBER")
    pub_bit = factory_const(analysis, "PUBLISHER")
    if sub_bit is None or pub_bit is None:
        raise AnalysisError("anchor vanished: MQTTFactory.SUBSCRIBER/PUBLISHER")
    caps = {}
    for val, q in pm.items():
        s = set()
        if isinstance(val, int) and val & sub_bit:
            s.add("sub")
        if isinstance(val, int) and val & pub_bit:
            s.add("pub")
        caps.setdefault(q, set()).update(s)
    return caps, pm, raises_other


class Trig:
    """One trigger context: a way control reaches protocol code, with one abstract path."""
    __slots__ = ("kind", "name", "slot", "path", "events", "decode_ok", "entry")

    def __init__(self, kind, name, slot, path, events, decode_ok=True, entry=None):
        self.kind, self.name, self.slot, self.path, self.events = kind, name, slot, path, events
        self.decode_ok = decode_ok
        self.entry = entry

    def label(self):
        if self.kind in ("API", "NET"):
            return "%s(%s,%s)" % (self.kind, self.name, self.slot)
        return "%s(%s)" % (self.kind, short(self.name))


def contexts(cat):
    """All trigger contexts of a protocol class (cached on the catalogue)."""
    if getattr(cat, "_contexts", None) is not None:
        return cat._contexts
    out = []
    for ent in cat.entries:
        if ent.kind == "NET":
            for kval, tname, bp in net_body_paths(cat):
                evs = bp.pkt_events
                d = [e for e in evs if e.kind == "DISPATCH"]
                dec = [e for e in evs if e.kind == "DECODE"]
                ok = all(x.a["ok"] for x in dec)
                out.append(Trig("NET", tname if tname is not None else "?", d[0].a["slot"] if d else None, bp, evs, ok, ent))
        elif ent.kind in ("API", "AUX"):
            for p in ent.paths:
                evs = list(p.walk())
                d = [e for e in evs if e.kind == "DISPATCH"]
                out.append(Trig(ent.kind, ent.name, d[0].a["slot"] if d else None, p, evs, True, ent))
        else:
            for p in ent.paths:
                out.append(Trig(ent.kind, ent.name, None, p, list(p.walk()), True, ent))
    cat._contexts = out
    return out


def honoured(tr, caps):
    """Is this NET/API context one the dispatch matrix honours (C14's table)?"""
    from .c14 import expected_api, expected_packet
    if tr.kind == "API":
        return expected_api(tr.name, tr.slot, caps)
    if tr.kind == "NET":
        return tr.slot is not None and expected_packet(tr.name, tr.slot, caps)
    return True


def run_premise(ctx, prop, rule, prefix, what_holds, consequence, where_="src/mqtt/client", only=None):
    """Another property's rules as a premise of this one: runs that property's check on the same analysis and reports its
    (unlisted) failures under `rule` of the calling property, one instance per failed construct, or one for the lot."""
    import importlib
    from ..report import Ctx, load_known
    sub = Ctx(prop, ctx.a, ctx.tier)
    importlib.import_module("sa.rules." + prop.lower()).check(sub)
    known = {(k["rule"], k["construct"]) for k in load_known() if k.get("property") == prop and k.get("status") == "known"}
    seen = set()
    for f in sub.findings:
        key = (f.rule, f.construct)
        if key in seen or key in known or (only is not None and not only(f)):
            continue
        seen.add(key)
        ctx.ob(rule, "%s premise %s %s" % (prefix, f.rule, f.construct), False, file=f.file, line=f.line, function=f.function,
               construct="%s/%s/%s" % (prefix, f.rule, f.construct), msg="%s (%s %s) - %s" % (f.message, prop, f.rule, consequence))
    if not seen:
        ctx.ob(rule, "%s (%d instances of %s's rules)" % (what_holds, len(sub.obligations), prop), True, where=where_, construct="%s/premises" % prefix)
    ctx.count("%s_premise_instances" % prefix, len(sub.obligations))


ONE_SHOT_BUILTINS = {"iter", "map", "filter", "zip", "reversed", "enumerate"}
FULL_CONSUMERS = {"set", "list", "sorted", "tuple", "any", "all", "sum", "max", "min", "frozenset", "dict", "len"}


def oneshot_misuses(prog, mod):
    """Locals bound to a one-shot iterator - a call of a generator function of the repository, a generator expression, iter()/map()/
    filter()/zip()/reversed()/enumerate() - and consumed more than once: a membership test, a for loop or a collecting call over the name
    that sits in a loop the binding is outside of, or a second such use.  The second consumption sees only what the first left over.
    Yields (FuncInfo, name, binding node, consuming node, why)."""
    import ast
    funcs = list(mod.funcs.values()) + [m for c in mod.classes.values() for m in c.methods.values()]
    for fn in funcs:
        binds = {}
        for x in ast.walk(fn.node):
            if isinstance(x, ast.Assign) and len(x.targets) == 1 and isinstance(x.targets[0], ast.Name):
                v = x.value
                kind = None
                if isinstance(v, ast.GeneratorExp):
                    kind = "a generator expression"
                elif isinstance(v, ast.Call) and isinstance(v.func, ast.Name) and v.func.id in ONE_SHOT_BUILTINS:
                    kind = "%s()" % v.func.id
                elif isinstance(v, ast.Call) and isinstance(v.func, ast.Name):
                    r = prog.resolve(mod, v.func.id)
                    if r and r[0] == "func" and r[1].is_generator:
                        kind = "the generator %s()" % v.func.id
                elif isinstance(v, ast.Call) and isinstance(v.func, ast.Attribute) and isinstance(v.func.value, ast.Name) and v.func.value.id == "self" \
                        and fn.cls is not None:
                    m = prog.lookup_method(fn.cls, v.func.attr)
                    if m is not None and m.is_generator:
                        kind = "the generator self.%s()" % v.func.attr
                if kind:
                    binds.setdefault(x.targets[0].id, []).append((x, kind))
        for name, bl in binds.items():
            stores = [x for x in ast.walk(fn.node) if isinstance(x, ast.Name) and x.id == name and isinstance(x.ctx, ast.Store)]
            if len(stores) != 1:
                continue       # rebound: each binding would have to be followed on its own
            bnode, kind = bl[0]
            uses = []
            for x in ast.walk(fn.node):
                if isinstance(x, ast.Compare) and len(x.ops) == 1 and isinstance(x.ops[0], (ast.In, ast.NotIn)) \
                        and isinstance(x.comparators[0], ast.Name) and x.comparators[0].id == name:
                    uses.append((x, "membership test"))
                elif isinstance(x, (ast.For, ast.comprehension)) and isinstance(x.iter, ast.Name) and x.iter.id == name:
                    uses.append((x if isinstance(x, ast.For) else x.iter, "loop"))
                elif isinstance(x, ast.Call) and isinstance(x.func, ast.Name) and x.func.id in FULL_CONSUMERS and x.args \
                        and isinstance(x.args[0], ast.Name) and x.args[0].id == name:
                    uses.append((x, "%s()" % x.func.id))
            loops = [l for l in ast.walk(fn.node) if isinstance(l, (ast.For, ast.While))]

            def in_foreign_loop(node):
                for l in loops:
                    inside = any(y is node for b in l.body + l.orelse for y in ast.walk(b)) or \
                        (isinstance(l, ast.While) and any(y is node for y in ast.walk(l.test)))
                    holds_binding = any(y is bnode for y in ast.walk(l))
                    if inside and not holds_binding:
                        return l
                return None
            for node, what in uses:
                l = in_foreign_loop(node)
                if l is not None:
                    yield fn, name, bnode, node, "%s is bound once (line %d) to %s and the %s at line %d runs on every turn of the loop at line %d: each " \
                        "turn sees only what the turns before it left unread" % (name, bnode.lineno, kind, what, node.lineno, l.lineno)
                    break
            else:
                if len(uses) > 1:
                    u = sorted(uses, key=lambda t: (t[0].lineno, t[0].col_offset))
                    yield fn, name, bnode, u[1][0], "%s is bound to %s and consumed twice (%s at line %d, %s at line %d): the second use sees only " \
                        "what the first left unread" % (name, kind, u[0][1], u[0][0].lineno, u[1][1], u[1][0].lineno)
