"""C02: bytes on the wire are exactly what the MQTT 3.1/3.1.1 specification prescribes."""
import ast

from ..model import AnalysisError
from ..terms import SELF, is_const, show, subterms
from ..codec import EncoderLayout, DecoderLayout, U, pdu_classes, method_of
from ..codec_cmp import compare_class, enc_items, src_field
from ..codec_prims import check_primitives
from ..catalogue import catalogue
from .common import contexts, where, cls_short, types, written_object
from .c01 import loc

EXPLANATION = (
    "The encoder layouts extracted from mqtt/pdu.py are compared with a table transcribed from the OASIS text (not derived "
    "from this code base): S0 the framing lemma (C03's rules F1-F7) as the premise of the decode clause - what reaches a decoder is "
    "exactly one packet as the broker sent it; S1 fixed-header byte = type<<4 | mandatory flags for all 14 packet types, PUBLISH flags at bit 0 "
    "(retain), 1-2 (qos), 3 (dup); S2 the remaining-length field measures exactly the buffers appended after it (none "
    "mutated after being measured), header-only packets carry a constant 0; S3 kind and order of the body fields per packet "
    "type, optional CONNECT sections and the flag bit each depends on, CONNECT flag bit positions, reserved bit 0 clear; "
    "S4 version constants ('MQIsdp',3) and ('MQTT',4); S5 length prefixes count the bytes that follow (= C01/L5); S6 stored "
    "packets are patched outside pdu.py only at byte 0 with dup<<3; S7 unrepresentable input raises (65535 string guard -> "
    "ValueError subclass, payload type dispatch ends in a TypeError subclass, 268435455 guard, 16-bit integers stored into "
    "a bytearray whose item assignment is the range check; and the domain premise: will QoS / QoS are shifted into two bits and the keep-alive stored into sixteen unchecked, so connect(), publish() and subscribe() must let through no more than 0..2 and 0..65535 - the G-INTERVAL instances of C20 for those arguments); S8 the primitive encoders (remaining length, 16-bit, string) have the "
    "prescribed radix, byte order and continuation/exit tests. Through C01's L2-L4 the decoders read what the encoders write. "
    "Value-level equality with a reference encoder on concrete inputs is NOT decided. "
    " S3 also follows every argument of connect/publish/subscribe/unsubscribe into a field of the request that is encoded; S9 also covers the decoders of client-bound packets: fixed header skipped the way decodeLength reads it (start 1, mask 0x80, step 1), every field read where the spec-checked encoder of the class puts it, PUBREL's DUP at bit 3 of byte 0.")
ASSUMPTIONS = ["the MQTT 3.1.1 layout table in this file is a faithful transcription of the OASIS specification"]

# type code, mandatory low nibble, body layout.  body: list of (kind, field, group) ; group = optional-section name
SPEC = {
    "CONNECT": (1, 0x0, [("str", "version", None), ("byte", "version", None), ("byte", "<flags>", None), ("u16", "keepalive", None),
                         ("str", "clientId", None), ("str", "willTopic", "will"), ("str", "willMessage", "will"),
                         ("str", "username", "user"), ("u16", "<len>", "pass"), ("bytes", "password", "pass")]),
    "CONNACK": (2, 0x0, [("byte", "session", None), ("byte", "resultCode", None)]),
    "PUBLISH": (3, None, [("str", "topic", None), ("u16", "msgId", "qos"), ("bytes", "payload", None)]),
    "PUBACK": (4, 0x0, [("u16", "msgId", None)]),
    "PUBREC": (5, 0x0, [("u16", "msgId", None)]),
    "PUBREL": (6, 0x2, [("u16", "msgId", None)]),
    "PUBCOMP": (7, 0x0, [("u16", "msgId", None)]),
    "SUBSCRIBE": (8, 0x2, [("u16", "msgId", None), ("repeat", "topics", None, ["str", "byte"])]),
    "SUBACK": (9, 0x0, [("u16", "msgId", None), ("repeat", "granted", None, ["byte"])]),
    "UNSUBSCRIBE": (10, 0x2, [("u16", "msgId", None), ("repeat", "topics", None, ["str"])]),
    "UNSUBACK": (11, 0x0, [("u16", "msgId", None)]),
    "PINGREQ": (12, 0x0, []),
    "PINGRES": (13, 0x0, []),
    "DISCONNECT": (14, 0x0, []),
}
CONNECT_FLAGS = {"cleanStart": 1, "willQoS": 3, "willRetain": 5}
CONNECT_CONST = {"will": 0x04, "pass": 0x40, "user": 0x80}
PUBLISH_FLAGS = {"retain": 0, "qos": 1, "dup": 3}


def kind_of(it):
    if it["kind"] in ("text", "raw"):
        return "bytes"
    return it["kind"]


def check(ctx, as_premise=False):
    a = ctx.a
    prog = a.prog
    if not as_premise:
        # "packets the broker sends decode to the field values the specification assigns them": the decoders see what the framer
        # hands them, so a packet cut short, long or at the wrong place decodes to other values however exact the decoders are
        from .c03 import framing_premise
        framing_premise(ctx, "S0", "a broker packet framed wrongly decodes to field values the specification does not assign it")
    mod = prog.modules.get("mqtt.pdu")
    if mod is None:
        raise AnalysisError("anchor vanished: mqtt.pdu")
    n = 0
    for name, (tcode, low, body_spec) in SPEC.items():
        c = mod.classes.get(name)
        if c is None or method_of(prog, c, "encode") is None:
            ctx.ob("S1", "%s class exists" % name, False, where="src/mqtt/pdu.py", construct="mqtt.pdu.%s/missing" % name, msg="no class %s with encode()" % name)
            continue
        n += 1
        enc = EncoderLayout(prog, c)
        hdr, remlen, body = enc_items(enc)
        encfn = "mqtt.pdu.%s.encode" % name
        w = "src/mqtt/pdu.py:%d" % method_of(prog, c, "encode").node.lineno
        # ---------------- S1 ----------------
        first = hdr[0] if hdr else None
        if first is None or first["kind"] != "byte":
            ctx.ob("S1", "%s fixed header byte" % name, False, where=w, function=encfn, construct="mqtt.pdu.%s/header" % name, msg="no fixed header byte")
        elif name == "PUBLISH":
            v = first["v"]
            arms = []
            if v[0] == "alt":
                arms = [(v[1], True, v[2]), (v[1], False, v[3])]
            else:
                arms = [(None, None, v)]
            for g, pol, d in arms:
                ok = d[0] == "bits" and d[1] == (tcode << 4)
                parts = {src_field(x): sh for x, sh, gg in d[2]} if d[0] == "bits" else {}
                exp = PUBLISH_FLAGS if (pol is not False) else {"retain": 0}
                if pol is False:
                    okp = parts == {"retain": 0} or parts == PUBLISH_FLAGS
                else:
                    okp = parts == PUBLISH_FLAGS
                ctx.ob("S1", "PUBLISH header = 0x30 | retain | qos<<1 | dup<<3%s" % ("" if pol is None else " [%s %s]" % (g, pol)), ok and okp, where=w,
                       function=encfn, construct="mqtt.pdu.PUBLISH/header",
                       msg="PUBLISH first byte is built as base 0x%02x with fields at shifts %s (specification: 0x30, retain 0, qos 1, dup 3)" % (
                           d[1] if d[0] == "bits" else -1, parts))
        else:
            v = first["v"]
            exp = (tcode << 4) | low
            ctx.ob("S1", "%s fixed header byte is 0x%02X" % (name, exp), v == ("const", exp), where=w, function=encfn,
                   construct="mqtt.pdu.%s/header" % name,
                   msg="%s is encoded with first byte %s, the specification says 0x%02X" % (name, ("0x%02X" % v[1]) if v[0] == "const" else show(v), exp))
        # ---------------- S2 ----------------
        if not body_spec and remlen is None:
            ok = len(hdr) == 2 and hdr[1]["v"] == ("const", 0)
            ctx.ob("S2", "%s carries remaining length 0 and nothing else" % name, ok, where=w, function=encfn, construct="mqtt.pdu.%s/remlen" % name,
                   msg="header-only packet is encoded as %s" % [x["text"] for x in hdr])
        else:
            if remlen is None:
                ctx.ob("S2", "%s has a remaining-length field" % name, False, where=w, function=encfn, construct="mqtt.pdu.%s/remlen" % name,
                       msg="no encodeLength() segment in the packet")
            elif remlen["v"][0] == "constlen":
                ctx.ob("S2", "%s constant remaining length = size of the fixed-size fields that follow" % name, remlen["v"][1] == remlen["v"][2], where=w,
                       function=encfn, construct="mqtt.pdu.%s/remlen" % name,
                       msg="remaining length is written as the constant %d; the fields that follow take %d bytes" % (remlen["v"][1], remlen["v"][2]))
            else:
                ok1 = len(hdr) == 1
                ctx.ob("S2", "%s remaining length directly follows the first byte" % name, ok1, where=w, function=encfn,
                       construct="mqtt.pdu.%s/remlen-position" % name, nontrivial=False, msg="%d items precede the remaining-length field" % len(hdr))
                v = remlen["v"]
                terms = list(v[1]) if v[0] == "sum" else [v]
                measured = {}
                extra = []
                for t in terms:
                    if t[0] == "len" and t[1][0] == "bufref":
                        measured[t[1][1]] = t[1][2]
                    elif t == ("const", 0):
                        pass          # a sum started at zero
                    else:
                        extra.append(t)
                lay = enc.layout()
                idx = [i for i, sg in enumerate(lay) if sg[0] == "remlen"][0]
                after = lay[idx + 1:]
                subs = {sg[1]: len(sg[2]) for sg in after if sg[0] == "sub"}
                loose = [sg for sg in after if sg[0] != "sub"]
                # a field appended as it is (a local that names self.f, measured with len() of that same local)
                for t in list(extra):
                    if t[0] == "len" and isinstance(t[1], tuple) and t[1][0] == "field":
                        m = [sg for sg in loose if sg[0] == "raw" and sg[1] == t[1]]
                        if len(m) == 1:
                            extra.remove(t)
                            loose.remove(m[0])
                ok = not extra and not loose and set(measured) == set(subs) and all(measured[k] == subs[k] for k in subs)
                ctx.ob("S2", "%s remaining length = size of exactly the buffers that follow" % name, ok, where=w, function=encfn,
                       construct="mqtt.pdu.%s/remlen" % name,
                       msg="remaining length is computed as %s; the bytes appended after it are the buffers %s%s%s" % (
                           remlen["text"], sorted(subs), " plus %d loose segment(s)" % len(loose) if loose else "",
                           " (a buffer is extended after being measured)" if any(measured.get(k) != subs.get(k) for k in subs if k in measured) else ""))
        # ---------------- S3 ----------------
        seq = []
        groups = {}
        for it in body:
            if it["kind"] == "repeat":
                seq.append(("repeat", it["field"], None, [x["kind"] for x in it["items"]]))
                continue
            g = [cx[1] for cx in it["ctx"] if cx[0] == "opt" and cx[2] is True]
            gneg = [cx[1] for cx in it["ctx"] if cx[0] == "opt" and cx[2] is False]
            f = src_field(it["v"])
            k = kind_of(it)
            if k == "u16" and it["v"][0] == "len":
                f = "<len>"
            if k == "byte" and isinstance(it["v"], tuple) and it["v"][0] == "bits" and name == "CONNECT":
                f = "<flags>"
            seq.append((k, f, tuple(g), tuple(gneg), it))
        # alternatives of the same field in complementary arms (payload as bytearray / as str) count once
        norm = []
        for e in seq:
            if e[0] != "repeat" and norm and norm[-1][0] == e[0] and norm[-1][1] == e[1] and e[0] == "bytes":
                continue
            norm.append(e)
        exp_seq = body_spec
        same = len(norm) == len(exp_seq)
        if same:
            for e, s in zip(norm, exp_seq):
                if s[0] == "repeat":
                    if not (e[0] == "repeat" and e[1] == s[1] and e[3] == s[3]):
                        same = False
                elif not (e[0] == s[0] and e[1] == s[1]):
                    same = False
        ctx.ob("S3", "%s body fields: %s" % (name, [(s[0], s[1]) for s in exp_seq]), same, where=w, function=encfn,
               construct="mqtt.pdu.%s/body-layout" % name,
               msg="%s body is written as %s; the specification prescribes %s" % (
                   name, [(e[0], e[1]) + ((e[3],) if e[0] == "repeat" else ()) for e in norm], [(s[0], s[1]) + ((s[3],) if s[0] == "repeat" else ()) for s in exp_seq]))
        if same:
            # optional groups: every member of a group under one guard, different groups under different guards, mandatory fields unguarded
            gmap = {}
            okg = True
            for e, s in zip(norm, exp_seq):
                if s[0] == "repeat":
                    continue
                grp = s[2]
                if grp is None:
                    if e[0] == "bytes" and name == "PUBLISH":
                        continue
                    if e[2]:
                        okg = False
                else:
                    if len(e[2]) != 1:
                        okg = False
                    else:
                        if gmap.setdefault(grp, e[2][0]) != e[2][0]:
                            okg = False
            if len(set(gmap.values())) != len(gmap):
                okg = False
            ctx.ob("S3", "%s optional sections are guarded consistently" % name, okg, where=w, function=encfn,
                   construct="mqtt.pdu.%s/optional-sections" % name, msg="optional sections and their guards: %s" % gmap, nontrivial=bool(gmap))
            if name == "CONNECT":
                fl = [e for e in norm if e[1] == "<flags>"]
                d = fl[0][4]["v"]
                parts = {}
                consts = {}
                for x, sh, g in d[2]:
                    if x[0] == "const":
                        consts[g] = consts.get(g, 0) | (x[1] << sh)
                    else:
                        parts[src_field(x)] = (sh, g)
                okf = d[1] == 0
                for f, sh in CONNECT_FLAGS.items():
                    if f not in parts or parts[f][0] != sh:
                        okf = False
                for grp, bit in CONNECT_CONST.items():
                    g = gmap.get(grp)
                    if g is None or consts.get(g) != bit:
                        okf = False
                for f in ("willQoS", "willRetain"):
                    if f in parts and parts[f][1] != gmap.get("will"):
                        okf = False
                if parts.get("cleanStart", (None, "x"))[1] is not None:
                    okf = False
                ctx.ob("S3", "CONNECT flags: clean<<1, will 0x04, willQoS<<3, willRetain<<5, password 0x40, username 0x80, bit 0 clear", okf, where=w,
                       function=encfn, construct="mqtt.pdu.CONNECT/connect-flags",
                       msg="CONNECT flag byte: base 0x%02x, fields %s, constant bits per guard %s" % (d[1], parts, consts))
            if name == "PUBLISH":
                g = gmap.get("qos")
                ctx.ob("S3", "PUBLISH identifier present exactly when qos > 0", g == "self.qos", where=w, function=encfn,
                       construct="mqtt.pdu.PUBLISH/msgid-guard", msg="the packet identifier is written under `%s`" % g)
    ctx.floor("packet types checked against the table", n, 14)
    # ---------------- S4 ----------------
    root = prog.modules.get("mqtt")
    for nm, exp in (("v31", {"level": 3, "tag": "MQIsdp"}), ("v311", {"level": 4, "tag": "MQTT"})):
        ok, v = prog.try_fold(root.consts[nm], root) if root and nm in root.consts else (False, None)
        ctx.ob("S4", "%s == %s" % (nm, exp), ok and v == exp, where="src/mqtt/__init__.py", construct="mqtt.%s" % nm,
               msg="%s is %s, the specification says %s" % (nm, v, exp))
    # ---------------- S7: numbers the encoders write into a field narrower than an int ----------------
    # the encoders shift will QoS / QoS into two bits and store the keep-alive into 16 of them without looking at the value: what keeps
    # the reserved QoS 3 (and anything wider) off the wire is the range check of the API call that accepts the number.  C20's interval
    # rule computes the set each call lets through; letting through more than the field's domain is an S7 violation here
    from .common import run_premise

    def _wider(f):
        acc, st = f.detail.get("accepted"), f.detail.get("stated")
        return f.rule == "G-INTERVAL" and f.detail.get("argument") in ("willQoS", "qos", "keepalive") and acc is not None and st is not None \
            and (acc[0] < st[0] or acc[1] > st[1])
    run_premise(ctx, "C20", "S7", "domain", "connect()/publish()/subscribe() let through only QoS 0..2 and a 16-bit keep-alive",
                "the encoder writes the number into its bits unchecked: a reserved QoS or an overflowing keep-alive goes on the wire",
                only=_wider)
    # ---------------- S5 / S7 from the primitives and the agreement check ----------------
    probs, facts = check_primitives(prog)
    for p in probs:
        if p.rule in ("L5", "S7"):
            ctx.ob("S5" if p.rule == "L5" else "S7", "%s %s" % (p.cls, p.what), False, where=loc(p.node), function="mqtt.pdu.%s" % p.cls,
                   construct="mqtt.pdu.%s/%s" % (p.cls, p.what), msg=p.msg)
    enc_prims = ("encodeLength", "encode16Int", "encodeString")
    for p in probs:
        if p.rule == "L1" and any(p.cls.startswith(x) for x in enc_prims):
            ctx.ob("S8", "%s %s" % (p.cls, p.what), False, where=loc(p.node), function="mqtt.pdu.%s" % p.cls.split("/")[0],
                   construct="mqtt.pdu.%s/%s" % (p.cls, p.what), msg=p.msg)
    # S9: "packets the broker sends in the prescribed format decode to the field values the specification assigns them" rests on
    # the decoding primitives as much as on the layouts: radix, byte order, continuation test, accumulation order, and no
    # rejection of part of the legal domain (a guard that refuses every 4-byte remaining length)
    dec_prims = ("decodeLength", "decode16Int", "decodeString")
    for p in ([] if as_premise else probs):       # (the decode clause is C02's own; C18 builds on the encoders' side only)
        if p.rule == "L1" and any(p.cls.startswith(x) for x in dec_prims):
            ctx.ob("S9", "%s %s" % (p.cls, p.what), False, where=loc(p.node), function="mqtt.pdu.%s" % p.cls.split("/")[0],
                   construct="mqtt.pdu.%s/%s" % (p.cls, p.what), msg=p.msg)
    for x in dec_prims:
        if not [p for p in probs if p.rule == "L1" and p.cls.startswith(x)]:
            ctx.ob("S9", "%s decodes the prescribed encoding over its whole domain" % x, True, where="src/mqtt/pdu.py", construct="mqtt.pdu.%s/shape" % x)
    for x in enc_prims:
        if not [p for p in probs if p.rule == "L1" and p.cls.startswith(x)]:
            ctx.ob("S8", "%s produces the prescribed encoding (radix, byte order, continuation)" % x, True, where="src/mqtt/pdu.py", construct="mqtt.pdu.%s/shape" % x)
    if not [p for p in probs if p.rule == "L5"]:
        ctx.ob("S5", "encodeString prefix counts the UTF-8 bytes", True, where="src/mqtt/pdu.py", construct="mqtt.pdu.encodeString/prefix")
    if not [p for p in probs if p.rule == "S7"]:
        ctx.ob("S7", "over-long strings raise a ValueError subclass (limit 65535)", True, where="src/mqtt/pdu.py", construct="mqtt.pdu.encodeString/overlong-guard")
    CLIENT_BOUND = ("CONNACK", "SUBACK", "UNSUBACK", "PUBLISH", "PUBACK", "PUBREC", "PUBREL", "PUBCOMP", "PINGRESP")
    from .c01 import header_skip
    for name, c in pdu_classes(prog).items():
        problems, stats, encm, decm = compare_class(prog, c)
        if name in CLIENT_BOUND and not as_premise:
            # the decoders of what a broker sends: the fixed header skipped the way decodeLength reads it, every field read where the
            # (spec-checked) encoder of the same class puts it
            appl, okh, ln, msgh = header_skip(decm, facts)
            if appl:
                ctx.ob("S9", "%s.decode skips the fixed header with decodeLength's continuation bit" % name, okh,
                       where="src/mqtt/pdu.py:%d" % (ln or c.node.lineno), function="mqtt.pdu.%s.decode" % name,
                       construct="mqtt.pdu.%s/header-skip" % name, msg=msgh)
            # flag bits a decoder exposes that its own encoder does not write from a field (so C01's pairing cannot judge them): the
            # DUP flag of a PUBREL (meaningful under 3.1) is bit 3 of byte 0
            for fld, bit in {"PUBREL": {"dup": 0x08}}.get(name, {}).items():
                for rd in decm.reads:
                    if rd.get("kind") == "bits" and rd.get("target") == ("self", fld):
                        src_ok = isinstance(rd.get("source"), dict) and rd["source"].get("kind") == "hdrbyte" and str(rd["source"].get("off")) == "0"
                        cmpc = rd.get("cmp")
                        val_ok = (rd.get("mask") == bit and (cmpc in (("Eq", bit), ("NotEq", 0)) or (cmpc is None and rd.get("shift") in (0, bit.bit_length() - 1))))
                        ctx.ob("S9", "%s.decode reads %s from bit 0x%02x of the first byte" % (name, fld, bit), src_ok and val_ok,
                               where=loc(rd.get("node"), "src/mqtt/pdu.py:%d" % c.node.lineno), function="mqtt.pdu.%s.decode" % name,
                               construct="mqtt.pdu.%s/decode/flag-%s" % (name, fld),
                               msg="self.%s is decoded with mask %s, shift %s, comparison %s: the specification puts it at bit 0x%02x of byte 0" % (
                                   fld, rd.get("mask"), rd.get("shift"), cmpc, bit))
            for p in problems:
                if p.rule in ("L2", "L3", "L4"):
                    ctx.ob("S9", "%s %s" % (name, p.what), False, where=loc(p.node, "src/mqtt/pdu.py:%d" % c.node.lineno),
                           function="mqtt.pdu.%s.decode" % name, construct="mqtt.pdu.%s/decode/%s" % (name, p.what),
                           msg="the decoder of a packet the broker sends does not read a field where the prescribed layout has it: " + p.msg)
        for p in problems:
            if p.rule == "L5":
                ctx.ob("S5", "%s %s" % (name, p.what), False, where=loc(p.node, "src/mqtt/pdu.py:%d" % c.node.lineno), function="mqtt.pdu.%s.encode" % name,
                       construct="mqtt.pdu.%s/%s" % (name, p.what), msg=p.msg)
        # S7: exceptions raised by encoders
        for guard, exc, node in encm.raises:
            r = prog.resolve(mod, exc)
            cq = r[1].qual if r and r[0] == "class" else exc
            fam_ok = prog.exc_is(cq, "ValueError") or prog.exc_is(cq, "TypeError")
            ctx.ob("S7", "%s.encode raises a ValueError/TypeError subclass (%s)" % (name, exc), fam_ok, where=loc(node), function="mqtt.pdu.%s.encode" % name,
                   construct="mqtt.pdu.%s/raise/%s" % (name, exc), msg="%s raised by encode() is neither a ValueError nor a TypeError" % exc)
            if "isinstance" in guard:
                ctx.ob("S7", "%s unsupported payload type raises a TypeError subclass" % name, prog.exc_is(cq, "TypeError"), where=loc(node),
                       function="mqtt.pdu.%s.encode" % name, construct="mqtt.pdu.%s/payload-type" % name, msg="unsupported payload type raises %s" % exc)
    pub = EncoderLayout(prog, mod.classes["PUBLISH"])
    tguard = [g for g, e, nd in pub.raises if "isinstance" in g]
    ctx.ob("S7", "PUBLISH payload type dispatch ends in a raise", bool(tguard), where="src/mqtt/pdu.py", construct="mqtt.pdu.PUBLISH/payload-type-raise",
           msg="a payload that is neither bytearray nor str does not raise")
    big = None
    from ..codec_prims import truth_set, _iv_not, INF
    for x in (y for s in pub.body for y in ast.walk(s)):      # encode() with its helpers inlined
        if isinstance(x, ast.If) and any(isinstance(y, ast.Raise) for y in x.body):
            # the raising test as the set of sizes it lets through, whatever way round it is written
            cands = set()
            for y in ast.walk(x.test):
                if isinstance(y, ast.Compare):
                    for o_ in [y.left] + list(y.comparators):
                        if not prog.try_fold(o_, mod)[0]:
                            cands.add(ast.unparse(o_))
            for nm in cands:
                t = truth_set(x.test, nm, lambda e: prog.try_fold(e, mod))
                if t is None:
                    continue
                acc = _iv_not(t)
                top = acc[-1][1] if acc else None
                if top is not None and top != INF and top > 65535:
                    big = ("Gt", top, x)
    okb = big is not None and big[1] == 268435455
    ctx.ob("S7", "PUBLISH rejects a remaining length above 268435455", okb, where=loc(big[2]) if big else "src/mqtt/pdu.py",
           function="mqtt.pdu.PUBLISH.encode", construct="mqtt.pdu.PUBLISH/size-guard", msg="size guard is %s" % (str(big[:2]) if big else None))
    # ---------------- S3 (API side): every argument of an operation reaches the field its packet is encoded from ----------------
    # the encoders are exact for the field values they are given; the packet on the wire is the one the caller asked for only if
    # each argument of connect() / publish() / subscribe() / unsubscribe() is stored into the request that is then encoded
    from .common import contexts as _contexts
    API_PDU = {"connect": "CONNECT", "publish": "PUBLISH", "subscribe": "SUBSCRIBE", "unsubscribe": "UNSUBSCRIBE"}
    n_args = 0
    for cls in ([] if as_premise else a.protos[1:2]):      # (a clause of C02 itself, not of the encoders' side that C18 builds on)
        cat = catalogue(a, cls)
        for op, pdu in sorted(API_PDU.items()):
            fn = prog.lookup_method(cls, op)
            pc = mod.classes.get(pdu)
            if fn is None or pc is None:
                continue
            trs = [tr for tr in _contexts(cat) if tr.kind == "API" and tr.name == op]
            if not trs:
                continue
            enc_fields = EncoderLayout(prog, pc).fields_read
            stored = {}
            for tr in trs:
                news = {e.a["obj"] for e in tr.events if e.kind == "NEW" and e.a["cls"] == pc.qual}
                for e in tr.events:
                    if e.kind == "SETATTR" and e.a["obj"] in news:
                        for sub in subterms(e.a["val"]):
                            if isinstance(sub, tuple) and len(sub) == 2 and sub[0] == "param":
                                stored.setdefault(sub[1], set()).add(e.a["field"])
            for prm in [x for x in fn.params if x != "self"]:
                n_args += 1
                flds = stored.get(prm, set())
                ctx.ob("S3", "%s(%s=) is stored into the %s that is encoded" % (op, prm, pdu), bool(flds), where="%s:%d" % (fn.file, fn.node.lineno),
                       function=fn.qual, construct="%s/argument-dropped/%s" % (fn.qual, prm),
                       msg="the argument %s of %s() is never stored into the %s request: the packet is encoded from the constructor's default "
                           "instead of what the caller asked for" % (prm, op, pdu))
    if not as_premise:
        ctx.floor("API arguments followed into their requests", n_args, 14)
        # subscribe()/unsubscribe() take their topics in three shapes (a string with qos, one pair, a list of pairs): that the topic list
        # reaching encode() is what the caller gave - each filter with its own QoS - is C07's normalisation rule; it is the plumbing of
        # the one argument the rule above cannot follow field by field
        run_premise(ctx, "C07", "S3", "topic-list", "the topic list given to subscribe()/unsubscribe() reaches encode() as given",
                    "the SUBSCRIBE / UNSUBSCRIBE on the wire does not carry the filters and requested QoS the caller asked for",
                    only=lambda f: f.rule == "S-NORM")
    # ---------------- S6: stored packets patched at byte 0 with dup<<3 only ----------------
    npatch = 0
    for cls in a.protos[1:]:
        cat = catalogue(a, cls)
        # the version that decides the DUP patch (and every other version-dependent byte) is the one of this connection's CONNECT
        from ..lifecycle import rule_session_field
        rule_session_field(ctx, cat, "S6", "version", "the protocol version",
                           "packets re-sent before the assignment (the session resume at CONNACK) are patched according to the previous "
                           "connection's or the default version: DUP missing under 3.1, or set on reserved flag bits under 3.1.1")
        for ent, p, e in cat.all_events("SETITEM"):
            b = e.a["base"]
            if isinstance(b, tuple) and b[0] in ("attr", "encbuf") and (b[0] == "encbuf" or b[2] == "encoded"):
                npatch += 1
                ok = e.a["key"] == ("const", 0) and e.a["op"] == "BitOr" and e.a["val"] in (("const", 0), ("const", 8))
                # the DUP flag exists only for PUBLISH in 3.1.1: for the other stored packets the patch must sit under the 3.1 test
                from .c08 import version_cond
                obj = b[1]
                tf = ent.func.qual if ent.kind == "TIMER" else None
                kinds = {c.split(".")[-1] for c in types(a).class_of(obj, cat.eng, timer_func=tf)}
                if kinds and "PUBLISH" not in kinds and not (e.a["op"] == "BitOr" and e.a["val"] == ("const", 0)):     # (|= 0 sets nothing)
                    gated = version_cond(e.conds) is True
                    ctx.ob("S6", "%s DUP bit of a stored %s only under protocol 3.1 (%s)" % (cls_short(cls.qual), "/".join(sorted(kinds)), e.func.split(".")[-1]),
                           gated, where=where(e), function=e.func, construct="%s/dup-gating" % e.func,
                           msg="byte 0 of a stored %s is or-ed with the DUP bit without the `version == 3.1` test: under 3.1.1 the flag bits of this "
                               "packet type are reserved (a re-sent PUBREL would go out as 0x6A)" % "/".join(sorted(kinds)))
                ctx.ob("S6", "stored packet patched only at byte 0 with dup<<3 (%s)" % e.func.split(".")[-1], ok, where=where(e), function=e.func,
                       construct="%s/patch" % e.func, nontrivial=False,
                       msg="already-encoded packet modified at index %s with %s %s" % (show(e.a["key"]), e.a["op"], show(e.a["val"])))
    ctx.floor("DUP patch events", npatch, 2)
    ctx.count("packet_types", n)


def wire_premise(ctx, rule, consequence, only=None):
    """The encoders' side of a property about the byte stream: what is written is only well-formed if every encoder produces the
    prescribed packet (first byte, remaining length that counts exactly what follows, fields in place, primitives exact).  Runs
    the C02 rules and reports their failures under `rule` of the calling property."""
    from ..report import Ctx, load_known
    sub = Ctx("C02", ctx.a, ctx.tier)
    check(sub, as_premise=True)
    known = {(k["rule"], k["construct"]) for k in load_known() if k.get("property") == "C02" and k.get("status") == "known"}
    seen = set()
    for f in sub.findings:
        key = (f.rule, f.construct)
        if key in seen or key in known:
            continue
        if only is not None and not only(f):
            continue        # the calling property builds on a part of the encoders' side only
        seen.add(key)
        ctx.ob(rule, "encoding premise %s %s" % (f.rule, f.construct), False, file=f.file, line=f.line, function=f.function,
               construct="encoding/%s/%s" % (f.rule, f.construct), msg="%s (C02 %s) - %s" % (f.message, f.rule, consequence))
    if not seen:
        ctx.ob(rule, "every encoder produces the packet the specification prescribes (%d instances of C02's rules)" % len(sub.obligations),
               True, where="src/mqtt/pdu.py", construct="encoding/premises")
    ctx.count("encoding_premise_instances", len(sub.obligations))
