"""C14: operations honoured only in the states and profiles that allow them (R-MATRIX)."""
from ..model import AnalysisError
from ..terms import SELF, FAC, show, is_const
from ..catalogue import catalogue, is_effect
from .common import (SPEC_TYPES, pdu_class_name, where, net_body_paths, after, flat, exc_class, written_object,
                     types, capabilities, cls_short, short, contexts)

EXPLANATION = (
    "Dispatch matrix protocol class x state slot x operation, read off the resolved program: the state table is "
    "obtained by abstractly running each constructor chain, every API method and the network dispatcher are "
    "walked path by path, and each cell is classified by the events reachable after the state dispatch: "
    "'refuse' (no effect event at all; API calls return defer.fail(MQTTStateError) / raise MQTTStateError) or "
    "'honour' (the effect signature of that very operation). The expected table is the one in the property "
    "statement; capabilities of a class come from the profile constant the factory builds it for. Decides the "
    "table, for all paths of every cell at once; does not run any history. M-LOSS-IDLE: every path through "
    "connectionLost ends with state = IDLE, and no exception can leave it before that assignment - raises seen by the "
    "walk, cancel() of a handle that already fired, a method call on a None handle, errback() of a Deferred created "
    "already fired (typestate facts computed over all contexts). "
    " M-IDLE - the state is set to IDLE only in the loss context or on a refused CONNACK, the two ways the property lets a protocol become idle again.")
ASSUMPTIONS = ["the state object in self.state is always one of the slot objects (checked: only self.<SLOT> is ever assigned)"]

API_OPS = ["connect", "disconnect", "publish", "subscribe", "unsubscribe"]


def expected_api(op, slot, caps):
    if op == "connect":
        return slot == "IDLE"
    if op == "disconnect":
        return slot == "CONNECTED"
    if op == "publish":
        return "pub" in caps and slot in ("CONNECTING", "CONNECTED")
    if op in ("subscribe", "unsubscribe"):
        return "sub" in caps and slot == "CONNECTED"
    return False


def expected_packet(tname, slot, caps):
    if tname == "CONNACK":
        return slot == "CONNECTING"
    if tname == "PINGRESP":
        return slot == "CONNECTED"
    if tname in ("SUBACK", "UNSUBACK", "PUBLISH", "PUBREL"):
        return "sub" in caps and slot == "CONNECTED"
    if tname in ("PUBACK", "PUBREC", "PUBCOMP"):
        return "pub" in caps and slot == "CONNECTED"
    return False


def signature_ok(op, evs, ty, eng):
    """Does the set of effect events carry the signature of operation `op` (and not of a sibling)?"""
    def has(kind, **kw):
        for e in evs:
            if e.kind != kind:
                continue
            if all(e.a.get(k) == v for k, v in kw.items()):
                return True
        return False

    def writes(cname):
        for e in evs:
            if e.kind == "WRITE":
                how, obj = written_object(e.a["data"])
                if any(c.endswith("." + cname) for c in ty.class_of(obj, eng)):
                    return True
        return False

    def fires(how):
        return any(e.kind == "FIRE" and e.a["how"] == how for e in evs)

    if op == "connect":
        return writes("CONNECT") and has("STATE", slot="CONNECTING")
    if op == "disconnect":
        return writes("DISCONNECT") and has("CLOSE")
    if op == "publish":
        return has("REG", reg="queuePublishTx")
    if op == "subscribe":
        return has("REG", reg="windowSubscribe") and not has("REG", reg="windowUnsubscribe")
    if op == "unsubscribe":
        return has("REG", reg="windowUnsubscribe") and not has("REG", reg="windowSubscribe")
    if op == "CONNACK":
        return has("STATE", slot="CONNECTED") and fires("callback")
    if op == "PINGRESP":
        return has("CANCEL")
    if op == "SUBACK":
        return has("LOOKUP", reg="windowSubscribe") and not has("LOOKUP", reg="windowUnsubscribe")
    if op == "UNSUBACK":
        return has("LOOKUP", reg="windowUnsubscribe") and not has("LOOKUP", reg="windowSubscribe")
    if op == "PUBLISH":
        return has("REG", reg="windowPubRx") or has("CALLBACK", name="onPublish")
    if op == "PUBACK":
        return has("LOOKUP", reg="windowPublish") and fires("callback") and not has("REG", reg="windowPubRelease")
    if op == "PUBREC":
        return has("LOOKUP", reg="windowPublish") and has("REG", reg="windowPubRelease") and not fires("callback")
    if op == "PUBREL":
        return has("LOOKUP", reg="windowPubRx")
    if op == "PUBCOMP":
        return has("LOOKUP", reg="windowPubRelease") and not has("LOOKUP", reg="windowPublish")
    return False


def check(ctx):
    a = ctx.a
    ty = types(a)
    caps, pm, raises_other = capabilities(a)
    cells = 0
    # ---- profile mapping ---------------------------------------------------
    sub_bit = 1
    by_name = {}
    for val, q in sorted(pm.items(), key=lambda kv: str(kv[0])):
        c = caps.get(q, set())
        mod = q.split(".")[-2]
        exp = {"subscriber": {"sub"}, "publisher": {"pub"}, "pubsubs": {"pub", "sub"}}.get(mod)
        ctx.ob("M-PROFILE", "profile %r -> %s" % (val, cls_short(q)), exp is None or c == exp,
               where="src/mqtt/client/factory.py", construct="buildProtocol/profile=%r" % (val,),
               msg="profile constant %r builds %s whose module says %s" % (val, q, exp))
    ctx.ob("M-PROFILE", "three profile constants mapped", len(pm) >= 3, construct="buildProtocol/mapping",
           where="src/mqtt/client/factory.py", msg="buildProtocol maps %d profile constants (3 expected)" % len(pm))
    ctx.ob("M-PROFILE", "unknown profile raises", raises_other, construct="buildProtocol/other",
           where="src/mqtt/client/factory.py", msg="buildProtocol does not raise for an unsupported profile value")
    # each of the three capability sets must be served by the class whose state table restricts it
    ctx.count("profile_mappings", len(pm))

    for cls in a.protos:
        cat = catalogue(a, cls)
        eng = cat.eng
        ccaps = caps.get(cls.qual, set())
        slots = sorted(eng.state_slots)
        ctx.ob("M-SLOTS", "%s has slots IDLE/CONNECTING/CONNECTED" % cls_short(cls.qual),
               set(slots) >= {"IDLE", "CONNECTING", "CONNECTED"}, construct=cls.qual + "/slots",
               where=cls.module.path, msg="state slots found: %s" % slots)
        # self.state only ever takes slot objects
        for ent, p, e in cat.all_events("STATE"):
            if e.a["slot"] not in eng.state_slots:
                ctx.ob("M-STATEVAL", "%s state assignment" % where(e), False, where=where(e),
                       construct="%s/state=%s" % (e.func, show(e.a["val"])),
                       msg="self.state assigned something that is not a state slot: %s" % show(e.a["val"]))
        # ---- API cells -----------------------------------------------------
        for op in API_OPS:
            ent = cat.get(op)
            if ent is None or ent.kind != "API":
                continue
            per_slot = {}
            for p in ent.paths:
                evs = flat(p)
                disp = [e for e in evs if e.kind == "DISPATCH"]
                if not disp:
                    # the API method does not go through the state object at all
                    ctx.ob("M-DISPATCH", "%s.%s dispatches through self.state" % (cls_short(cls.qual), op), False,
                           where="%s:%d" % (ent.func.file, ent.func.node.lineno), function=ent.func.qual,
                           construct="%s.%s/no-dispatch" % (cls.qual, op),
                           msg="API method reaches its end without consulting self.state")
                    continue
                d = disp[0]
                pre = [e for e in evs[:evs.index(d)] if is_effect(e)]
                for e in pre:
                    ctx.ob("M-DISPATCH", "%s.%s: no effect before the state dispatch" % (cls_short(cls.qual), op), False,
                           where=where(e), function=e.func, construct="%s.%s/pre-dispatch/%s" % (cls.qual, op, e.kind),
                           msg="effect %s before the state object is consulted" % e.brief())
                per_slot.setdefault(d.a["slot"], []).append((p, d, after(evs, d)))
                if d.a["op"] != op:
                    ctx.ob("M-DISPATCH", "%s.%s dispatches its own operation" % (cls_short(cls.qual), op), False,
                           where=where(d), function=d.func, construct="%s.%s/op=%s" % (cls.qual, op, d.a["op"]),
                           msg="API %s dispatches state operation %s" % (op, d.a["op"]))
            for slot in slots:
                cells += 1
                inst = "%s x %s x %s" % (cls_short(cls.qual), slot, op)
                segs = per_slot.get(slot, [])
                if not segs:
                    ctx.ob("M-CELL", inst, False, where=ent.func.file, construct="%s/%s/%s/unreached" % (cls.qual, slot, op),
                           msg="no path dispatches %s in slot %s" % (op, slot))
                    continue
                exp = expected_api(op, slot, ccaps)
                effects = [e for (_, _, seg) in segs for e in seg if is_effect(e)]
                w = where(segs[0][1])
                if exp:
                    ok = signature_ok(op, [e for (_, _, seg) in segs for e in seg], ty, eng)
                    ctx.ob("M-CELL", inst, ok, where=w, construct="%s/%s/%s" % (cls.qual, slot, op),
                           function=segs[0][1].func,
                           msg="%s must be honoured in %s of %s but its effect signature is missing (effects: %s)" % (
                               op, slot, cls_short(cls.qual), sorted({e.kind for e in effects})))
                else:
                    ok = not effects
                    first = effects[0] if effects else None
                    ctx.ob("M-CELL", inst, ok, where=where(first) if first else w,
                           construct="%s/%s/%s" % (cls.qual, slot, op), function=first.func if first else "",
                           msg="%s must be refused in %s of %s but has effect %s" % (
                               op, slot, cls_short(cls.qual), first.brief() if first else ""),
                           trigger="API(%s,%s)" % (op, slot))
                    # refusal shape: failed Deferred with MQTTStateError, or MQTTStateError raised (disconnect)
                    shape_ok = True
                    bad = ""
                    for p, d, seg in segs:
                        if op == "disconnect":
                            good = p.exit_kind() == "raise" and (exc_class(p.exit[1]) or "").endswith("MQTTStateError")
                        else:
                            good = False
                            if p.exit_kind() == "return" and isinstance(p.exit[1], tuple) and p.exit[1][0] == "dfr" \
                                    and p.exit[1][2] == "fail":
                                dn = [e for e in seg if e.kind == "DEFNEW" and e.a["dfr"] == p.exit[1]]
                                good = bool(dn) and (exc_class(dn[0].a["arg"]) or "").endswith("MQTTStateError")
                        if not good:
                            shape_ok = False
                            bad = "exit=%s %s" % (p.exit_kind(), show(p.exit[1]) if p.exit else "")
                    ctx.ob("M-REFUSE", inst, shape_ok, where=w, construct="%s/%s/%s/refusal" % (cls.qual, slot, op),
                           function=segs[0][1].func,
                           msg="refusal of %s in %s must be MQTTStateError (failed Deferred / raised): %s" % (op, slot, bad))
        # ---- network cells -------------------------------------------------
        seen_types = {}
        miss_ok = None
        for kval, tname, bp in net_body_paths(cat):
            evs = bp.pkt_events
            if kval is None:
                # unknown type nibble: must abort, nothing else
                eff = [e for e in evs if is_effect(e)]
                miss_ok = bool(eff) and all(e.kind == "CLOSE" for e in eff) and bp.exit_kind() != "raise"
                continue
            seen_types.setdefault((kval, tname), []).append((bp, evs))
        ctx.ob("M-UNKNOWN-TYPE", "%s: unknown packet type aborts" % cls_short(cls.qual), bool(miss_ok),
               where=cls.module.path, construct=cls.qual + "/unknown-type",
               msg="a type nibble outside packetTypes does not lead to exactly an abort")
        for (kval, tname), lst in sorted(seen_types.items()):
            spec = SPEC_TYPES.get(kval)
            if kval == 0 or kval == 15:
                spec = (tname, "none")
            # name table agrees with the specification
            if spec is not None and kval not in (0, 15):
                ctx.ob("M-TYPETABLE", "type %d is %s" % (kval, spec[0]), spec[0] == tname, nontrivial=False,
                       where=cls.module.path, construct="packetTypes/%d" % kval,
                       msg="packetTypes[%d] = %r, specification says %s" % (kval, tname, spec[0]))
            direction = spec[1] if spec else "none"
            handled = [x for x in lst if any(e.kind == "DISPATCH" for e in x[1]) or
                       any(e.kind == "CALL" for e in x[1])]
            if direction in ("c2s", "none"):
                # broker-bound or reserved: no handler, connection aborted
                cells += len(slots)
                for bp, evs in lst:
                    eff = [e for e in evs if is_effect(e)]
                    ok = bool(eff) and all(e.kind == "CLOSE" for e in eff)
                    ctx.ob("M-CELL", "%s x * x %s (broker-bound)" % (cls_short(cls.qual), tname), ok,
                           where=where(eff[0]) if eff else cls.module.path,
                           construct="%s/*/%s" % (cls.qual, tname),
                           msg="broker-bound/reserved packet type %s must only abort; effects: %s" % (
                               tname, [e.brief() for e in eff][:3]))
                continue
            per_slot = {}
            for bp, evs in lst:
                disp = [e for e in evs if e.kind == "DISPATCH"]
                if not disp:
                    continue
                d = disp[0]
                # the wrapper decodes the class that belongs to this type
                dec = [e for e in evs[:evs.index(d)] if e.kind == "DECODE"]
                if any(not de.a["ok"] for de in dec):
                    continue    # dispatch after a failed decode is C16/E1's subject, not a matrix cell
                for de in dec:
                    ok = (de.a["cls"] or "").endswith("." + pdu_class_name(tname))
                    ctx.ob("M-DECODE-CLASS", "%s: type %s decoded as %s" % (cls_short(cls.qual), tname, pdu_class_name(tname)),
                           ok, where=where(de), function=de.func, construct="%s/decode/%s" % (cls.qual, tname),
                           msg="packet type %s is decoded with class %s" % (tname, de.a["cls"]), nontrivial=False)
                pre = [e for e in evs[:evs.index(d)] if is_effect(e)]
                for e in pre:
                    ctx.ob("M-DISPATCH", "%s %s: no effect before the state dispatch" % (cls_short(cls.qual), tname), False,
                           where=where(e), function=e.func, construct="%s/%s/pre-dispatch/%s" % (cls.qual, tname, e.kind),
                           msg="effect %s before the state object is consulted" % e.brief())
                per_slot.setdefault(d.a["slot"], []).append((bp, d, after(evs, d)))
            if not per_slot:
                ctx.ob("M-CELL", "%s x * x %s" % (cls_short(cls.qual), tname), False, where=cls.module.path,
                       construct="%s/*/%s/undispatched" % (cls.qual, tname),
                       msg="client-bound packet type %s never reaches the state object" % tname)
                continue
            for slot in slots:
                cells += 1
                inst = "%s x %s x %s" % (cls_short(cls.qual), slot, tname)
                segs = per_slot.get(slot, [])
                if not segs:
                    ctx.ob("M-CELL", inst, False, where=cls.module.path, construct="%s/%s/%s/unreached" % (cls.qual, slot, tname),
                           msg="no path dispatches %s in slot %s" % (tname, slot))
                    continue
                exp = expected_packet(tname, slot, ccaps)
                # effects of this packet only: stop at the framer's own bookkeeping (carry buffer update)
                effects = []
                for (_, d, seg) in segs:
                    for e in seg:
                        if is_effect(e):
                            effects.append(e)
                w = where(segs[0][1])
                if exp:
                    ok = signature_ok(tname, [e for (_, _, seg) in segs for e in seg], ty, eng)
                    ctx.ob("M-CELL", inst, ok, where=w, construct="%s/%s/%s" % (cls.qual, slot, tname),
                           function=segs[0][1].func,
                           msg="%s must be honoured in %s of %s but its effect signature is missing (effects: %s)" % (
                               tname, slot, cls_short(cls.qual), sorted({e.kind for e in effects})))
                else:
                    first = effects[0] if effects else None
                    ctx.ob("M-CELL", inst, not effects, where=where(first) if first else w,
                           construct="%s/%s/%s" % (cls.qual, slot, tname), function=first.func if first else "",
                           msg="%s must be ignored in %s of %s but has effect %s" % (
                               tname, slot, cls_short(cls.qual), first.brief() if first else ""),
                           trigger="NET(%s,%s)" % (tname, slot))
        # a refused CONNACK leaves the protocol idle again at once (not only when the transport reports the loss)
        from .common import contexts
        for tr in contexts(cat):
            if not (tr.kind == "NET" and tr.name == "CONNACK" and tr.slot == "CONNECTING" and tr.decode_ok):
                continue
            if tr.path.exit_kind() == "raise":
                continue
            dec = [e for e in tr.events if e.kind == "DECODE" and e.a["ok"]]
            resp = dec[0].a["obj"] if dec else None
            rc0 = None
            for c in tr.path.conds:
                t, pol = c.term, c.pol
                while isinstance(t, tuple) and t and t[0] == "not":
                    t, pol = t[1], not pol
                if t == ("cmp", "==", ("net", resp, "resultCode"), ("const", 0)):
                    rc0 = pol
                elif t == ("cmp", "!=", ("net", resp, "resultCode"), ("const", 0)):
                    rc0 = not pol
                elif t == ("net", resp, "resultCode"):
                    rc0 = not pol
            st = [e for e in tr.events if e.kind == "STATE"]
            last = st[-1].a["slot"] if st else "CONNECTING"
            if rc0 is False:
                ctx.ob("M-REFUSED", "%s a refused CONNACK leaves the protocol IDLE" % cls_short(cls.qual), last == "IDLE",
                       where=where(st[-1]) if st else where(tr.events[-1]), function=(st[-1] if st else tr.events[-1]).func,
                       construct="%s/CONNACK-refused/state" % cls.qual,
                       msg="after a CONNACK with a non-zero return code the state is %s: until the loss is reported, operations and packets are "
                           "still honoured as in that state (publish() accepted, a second CONNACK handled)" % last)
            elif rc0 is True:
                ctx.ob("M-REFUSED", "%s an accepted CONNACK leaves the protocol CONNECTED" % cls_short(cls.qual), last == "CONNECTED",
                       where=where(st[-1]) if st else where(tr.events[-1]), function=(st[-1] if st else tr.events[-1]).func,
                       construct="%s/CONNACK-accepted/state" % cls.qual, nontrivial=False, msg="after an accepted CONNACK the state is %s" % last)
        # the loss path and the refused-CONNACK path return to IDLE
        loss = cat.get("connectionLost")
        for p in loss.paths:
            st = [e for e in p.events if e.kind == "STATE"]
            if p.exit_kind() == "raise":
                ctx.ob("M-LOSS-IDLE", "%s connectionLost raises only after the state is IDLE" % cls_short(cls.qual),
                       bool(st) and st[-1].a["slot"] == "IDLE", where="%s:%d" % (loss.func.file, loss.func.node.lineno),
                       function=loss.func.qual, construct=cls.qual + "/connectionLost/raises-before-idle", nontrivial=False,
                       msg="an exception leaves connectionLost before the state is reset: the protocol stays %s on a dead transport"
                           % (st[-1].a["slot"] if st else "in its previous state"))
                continue
            ctx.ob("M-LOSS-IDLE", "%s connectionLost ends in IDLE" % cls_short(cls.qual),
                   bool(st) and st[-1].a["slot"] == "IDLE", where="%s:%d" % (loss.func.file, loss.func.node.lineno),
                   function=loss.func.qual, construct=cls.qual + "/connectionLost/state", nontrivial=False,
                   msg="a path through connectionLost does not leave the protocol in IDLE")
    # exceptions the path walk does not raise by itself: cancel() of a fired handle, a method call on a None handle and
    # errback() of a Deferred that was created already fired - each skips the state reset at the end of connectionLost
    from ..handles import handles
    from .flows import prefired_fires
    for cls in a.protos:
        cat = catalogue(a, cls)
        hd = handles(a, cls)
        hazards = []
        for ent, p, loc, tr, e in hd.fired_handles():
            if tr.kind == "LOSS":
                hazards.append((e, "fired-handle/%s" % ".".join(loc), "%s leaves its fired handle in %s and connectionLost cancels it (AlreadyCalled)"
                                % (short(ent.func.qual), ".".join(loc))))
                break
        for tr, e, loc, why in hd.none_deref():
            if tr.kind == "LOSS":
                hazards.append((e, "none-handle/%s" % ".".join(loc), why))
        for tr, f, rg, (tr0, st0, rg0) in prefired_fires(cat):
            if tr.kind == "LOSS":
                hazards.append((f, "prefired/%s" % rg, "errback() of a request taken from %s without testing .called: %s stores an already "
                                "fired Deferred there (%s), AlreadyCalledError" % (rg, tr0.label(), where(st0))))
        seen_ul = set()
        for tr, e, loc, tr2, e2 in hd.unstarted_loops():
            if tr2.kind == "LOSS" and (e.func, loc) not in seen_ul:
                seen_ul.add((e.func, loc))
                hazards.append((e2, "loop-created-not-started/%s" % ".".join(loc), "%s stores the periodic call in %s without starting it (%s); connectionLost "
                                "stops a loop that is not running (LoopingCall.stop() asserts)" % (tr.label(), ".".join(loc), where(e))))
        for tr, e, loc, tr2, e2 in hd.cancelled_kept():
            hazards.append((e2, "cancelled-handle-kept/%s" % ".".join(loc), "%s cancels the handle in %s and leaves it stored (%s); connectionLost "
                            "cancels it again (AlreadyCancelled)" % (tr.label(), ".".join(loc), where(e))))
        seen_kept = set()
        for tr, what, ok, ev in hd.loss_obligations():
            # a keepalive handle that the loss stops/cancels but leaves stored: the next loss of this protocol object finds it
            # still there and stops/cancels it again - stop() of a LoopingCall that is not running and cancel() of a cancelled
            # call both raise
            if what.startswith("keepalive ") and not ok and ev is not None and what not in seen_kept:
                seen_kept.add(what)
                hazards.append((ev, "stopped-handle-kept/%s" % what.split()[1],
                                "connectionLost stops the keepalive %s but leaves the stopped handle stored: a later loss of the same protocol "
                                "object (one on which it was not started again, e.g. keepalive 0 or a loss before CONNACK) stops it a second "
                                "time, which raises" % what.split()[1]))
        for e, what, why in hazards:
            idle_before = False
            for tr in contexts(cat):
                if tr.kind == "LOSS":
                    evs = list(tr.path.walk())
                    if e in evs and any(x.kind == "STATE" and x.a["slot"] == "IDLE" for x in evs[:evs.index(e)]):
                        idle_before = True
            ctx.ob("M-LOSS-IDLE", "%s connectionLost reaches the state reset (%s)" % (cls_short(cls.qual), what), idle_before, where=where(e),
                   function=e.func, construct="%s/connectionLost/%s" % (cls.qual, what),
                   msg="%s: the exception leaves connectionLost before self.state = IDLE, the protocol stays CONNECTED on a dead transport" % why)
    # the operations' effects happen only behind the state dispatch: an entry point that is open in every state (the setters) and
    # does not ask the state object must not send, queue, arm or settle anything - otherwise an operation takes effect (a PUBLISH
    # held back earlier is written, a timer starts) in a state that does not allow it
    for cls in a.protos:
        cat = catalogue(a, cls)
        seen_aux = set()
        for tr in contexts(cat):
            if tr.kind != "AUX" or any(e.kind == "DISPATCH" for e in tr.events):
                continue
            for e in tr.events:
                if e.kind in ("WRITE", "ARM", "REG", "UNREG", "FIRE", "CLOSE") and (e.func, e.kind) not in seen_aux:
                    seen_aux.add((e.func, e.kind))
                    ctx.ob("M-AUX", "%s %s() has no protocol effect outside the state dispatch" % (cls_short(cls.qual), short(tr.name)), False,
                           where=where(e), function=e.func, construct="%s/effect-outside-dispatch/%s/%s" % (e.func, short(tr.name), e.kind),
                           msg="%s() is accepted in every state and, without consulting the state object, performs %s: the effect of an operation "
                               "takes place while IDLE (or on a connection that is still connecting)" % (short(tr.name), e.brief()))
        ctx.ob("M-AUX", "%s entry points outside the state dispatch have no protocol effects" % cls_short(cls.qual), not seen_aux, nontrivial=False,
               where=cls.module.path, construct="%s/effect-outside-dispatch" % cls.qual)
    # the protocol is idle again only "after a loss or a refused CONNACK": any other context that declares it idle opens connect()
    # on a connection that is still there (and shuts the operations its real state allows)
    for cls in a.protos:
        cat = catalogue(a, cls)
        seen_idle = set()
        n_idle = 0
        for tr in contexts(cat):
            for e in tr.events:
                if e.kind == "STATE" and e.a["slot"] == "IDLE":
                    n_idle += 1
                    ok = tr.kind == "LOSS" or (tr.kind == "NET" and tr.name == "CONNACK")
                    key = (e.func, tr.kind, tr.name)
                    if key in seen_idle:
                        continue
                    seen_idle.add(key)
                    ctx.ob("M-IDLE", "%s the state returns to IDLE only at a loss or a refused CONNACK (%s)" % (cls_short(cls.qual), tr.label()), ok,
                           where=where(e), function=e.func, construct="%s/idle-assigned/%s" % (e.func, tr.label()),
                           msg="the state is set to IDLE in context %s: the connection has not been reported lost, yet connect() is now honoured "
                               "(a CONNECT written on a connection that is still up or closing) and the operations of the real state fail" % tr.label())
        ctx.floor("IDLE assignments of %s" % cls_short(cls.qual), n_idle, 2)
    ctx.count("matrix_cells", cells)
    ctx.count("protocol_classes", len(a.protos))
    ctx.count("state_classes", len({c.qual for cls in a.protos for c in a.engine(cls).state_slots.values()}))
    ctx.floor("matrix cells", cells, 150)
    ctx.floor("protocol classes", len(a.protos), 4)
    # note, not a finding: ping is state-dispatched but not one of the operations the property lists
