"""C18: each connection's output is a well-formed client packet stream led by CONNECT."""
from ..model import AnalysisError
from ..terms import SELF, FAC, NONE, show, is_const, mentions, subterms
from ..catalogue import catalogue, is_effect
from ..lifecycle import lifecycle, cancels
from ..handles import handles, TIMED
from .common import where, cls_short, contexts, capabilities, types, short, written_object, SPEC_TYPES, pdu_class_name, kind_names
from .flows import post_dispatch

EXPLANATION = (
    "Who-may-write table over all trigger contexts of every protocol class: W1 - every transport.write sends the whole "
    "encode() result or the whole stored buffer of exactly one PDU object of a client-to-broker class (no slice, "
    "concatenation or literal; broker-only classes never flow into a write); W2 - CONNECT is written only by connect() in "
    "IDLE and nothing else writes while the state is IDLE; W3 - DISCONNECT is written only by disconnect() while "
    "CONNECTED, with a close request after it on the same path; W4 - after the DISCONNECT no write may remain reachable "
    "(state in which no operation writes, every writing timer cancelled); W5 - every return to IDLE outside the loss "
    "closure closes the transport (else connect() is honoured again on the same connection: second CONNECT); W6 - the "
    "loss closure writes nothing and cancels every timer that can write; W7 - every retry timer stays reachable for those "
    "cancel loops: no request leaves its window with the timer pending and no alarm field is overwritten while the old "
    "timer is live (an orphaned retry timer re-sends its packet after the loss). Liveness of the transport object is not modelled. W0: every encoder produces the prescribed packet (every rule of C02), a necessary condition of a well-formed stream.")
ASSUMPTIONS = ["a TCP transport still sends write() issued after loseConnection() until its buffer is flushed"]

C2S = {pdu_class_name(n) for k, (n, d) in SPEC_TYPES.items() if d in ("c2s", "both")}
S2C_ONLY = {pdu_class_name(n) for k, (n, d) in SPEC_TYPES.items() if d == "s2c"}


def check(ctx):
    a = ctx.a
    from .c02 import wire_premise
    wire_premise(ctx, "W0", "the bytes written are not a sequence of well-formed client-to-broker packets: a strict broker loses framing or drops the connection")
    # a packet identifier of 0 is not a well-formed PUBLISH (QoS>0) / SUBSCRIBE / UNSUBSCRIBE [MQTT-2.3.1-1]: the range clause of C17
    from .common import run_premise
    run_premise(ctx, "C17", "W0", "identifier-range", "packet identifiers on the wire are in 1..65535",
                "a PUBLISH (QoS>0), SUBSCRIBE or UNSUBSCRIBE goes out with an identifier the specification forbids: not a well-formed packet",
                only=lambda f: f.rule in ("ID-RANGE", "ID-SOURCE"))
    ty = types(a)
    nw = 0
    sites = set()
    kinds_written = set()
    for cls in a.protos:
        cat = catalogue(a, cls)
        eng = cat.eng
        cq = cls_short(cls.qual)
        lc = lifecycle(a, cls)
        slot_writes = {}
        for tr in contexts(cat):
            for e in tr.events:
                if e.kind != "WRITE":
                    continue
                nw += 1
                sites.add((e.file, e.line))
                how, obj = written_object(e.a["data"])
                cl = kind_names(a, ty.class_of(obj, eng, timer_func=tr.entry.func.qual if tr.kind == "TIMER" else None)) if obj is not None else set()
                kinds_written.update(cl)
                ok = how in ("encres", "encoded") and bool(cl) and cl <= C2S
                ctx.ob("W1", "%s write of one whole client packet (%s in %s)" % (cq, short(e.func), tr.label()), ok, where=where(e),
                       function=e.func, construct="%s/write-shape" % e.func,
                       msg="transport.write(%s): not the whole encoding of exactly one client-to-broker packet (classes %s)" % (show(e.a["data"]), sorted(cl)))
                if tr.slot is not None:
                    slot_writes.setdefault(tr.slot, []).append((tr, e, cl))
                elif tr.kind in ("API", "NET", "AUX") and not any(x.kind == "DISPATCH" for x in tr.events):
                    # not routed through the state object at all: the write happens in whatever state the protocol is, IDLE included
                    slot_writes.setdefault("IDLE", []).append((tr, e, cl))
                if "CONNECT" in cl:
                    okc = tr.kind == "API" and tr.name == "connect" and tr.slot == "IDLE"
                    ctx.ob("W2", "%s CONNECT written only by connect() on an idle protocol (%s)" % (cq, tr.label()), okc, where=where(e),
                           function=e.func, construct="%s/connect-write/%s" % (e.func, tr.label()), msg="CONNECT written in context %s" % tr.label())
                if "DISCONNECT" in cl:
                    okd = tr.kind == "API" and tr.name == "disconnect" and tr.slot == "CONNECTED"
                    later = tr.events[tr.events.index(e) + 1:]
                    closes = [x for x in later if x.kind == "CLOSE"]
                    ctx.ob("W3", "%s DISCONNECT written only by disconnect() (%s)" % (cq, tr.label()), okd, where=where(e), function=e.func,
                           construct="%s/disconnect-write/%s" % (e.func, tr.label()), msg="DISCONNECT written in context %s" % tr.label())
                    ctx.ob("W3", "%s DISCONNECT is followed by a close request" % cq, bool(closes), where=where(e), function=e.func,
                           construct="%s/disconnect-close" % e.func, msg="disconnect() writes DISCONNECT without asking the transport to close")
                    wl = [x for x in later if x.kind == "WRITE"]
                    ctx.ob("W3", "%s nothing is written after DISCONNECT on that path" % cq, not wl, where=where(wl[0]) if wl else where(e),
                           function=e.func, construct="%s/disconnect-then-write" % e.func, nontrivial=False, msg="a write follows the DISCONNECT")
                    # W4: is any write still reachable afterwards?
                    st = [x for x in tr.events if x.kind == "STATE"]
                    new_slot = st[-1].a["slot"] if st else tr.slot
                    writes_there = [t2 for t2 in contexts(cat) if t2.slot == new_slot and t2.kind in ("API", "NET", "AUX")
                                    and any(x.kind == "WRITE" for x in t2.events)]
                    timers_cancelled = all(cancels(tr.path.events, r)[0] for r in TIMED) and \
                        any(x.kind == "CANCEL" and hd_loc(a, cls, x, tr) == ("ping", "timer") for x in tr.events)
                    ok4 = not writes_there and timers_cancelled
                    ctx.ob("W4", "%s nothing can be written after the DISCONNECT" % cq, ok4, where=where(e), function=e.func,
                           construct="after-disconnect/phase=CLOSING/%s" % tr.label(),
                           msg="after disconnect() the state is still %s (%d writing operations/packets honoured there) and the retry and "
                               "keepalive timers keep running until the transport reports the loss: PUBLISH/PINGREQ/... can follow the "
                               "DISCONNECT" % (new_slot, len(writes_there)), trigger=tr.label())
        # W2: nothing but CONNECT is written while IDLE
        for tr, e, cl in slot_writes.get("IDLE", []):
            if "CONNECT" not in cl:
                ctx.ob("W2", "%s no write while IDLE except CONNECT (%s)" % (cq, tr.label()), False, where=where(e), function=e.func,
                       construct="%s/idle-write/%s" % (e.func, tr.label()), msg="%s written while the protocol is IDLE" % sorted(cl))
        ctx.ob("W2", "%s only connect() writes while IDLE" % cq,
               all("CONNECT" in cl for _, _, cl in slot_writes.get("IDLE", [])), where=cls.module.path, construct="%s/idle-writes" % cls.qual,
               nontrivial=False)
        # W5: STATE(IDLE) outside the loss closure is accompanied by a close
        for tr in contexts(cat):
            if tr.kind == "LOSS":
                continue
            for e in tr.events:
                if e.kind == "STATE" and e.a["slot"] == "IDLE":
                    closes = [x for x in tr.events if x.kind == "CLOSE"]
                    ctx.ob("W5", "%s return to IDLE on an open transport closes it (%s)" % (cq, tr.label()), bool(closes), where=where(e),
                           function=e.func, construct="%s/idle-without-close" % e.func,
                           msg="the protocol returns to IDLE in context %s without closing the transport: connect() is honoured again on the "
                               "same connection (second CONNECT), and timers armed while CONNECTING keep writing" % tr.label(), trigger=tr.label())
                    # closing is not enough: a real transport reports the loss later, and until it does the connection is the same
                    # one - a connect() made in between (from the errback that has just fired, say) is honoured by the IDLE state and
                    # writes a second CONNECT on it.  Only the loss report itself may bring the protocol back to IDLE.
                    ctx.ob("W5", "%s the protocol becomes IDLE only when the transport reports the loss (%s)" % (cq, tr.label()), False, where=where(e),
                           function=e.func, construct="idle-before-loss/%s" % tr.label(),
                           msg="the protocol returns to IDLE in context %s, before the transport has reported the loss of the connection it "
                               "closes: until connectionLost() runs, connect() is honoured again and writes a second CONNECT on the same "
                               "connection" % tr.label(), trigger=tr.label())
        # W6
        for tr in lc.loss:
            ws = [e for e in tr.events if e.kind == "WRITE"]
            ctx.ob("W6", "%s the loss closure writes nothing" % cq, not ws, where=where(ws[0]) if ws else cls.module.path,
                   function=ws[0].func if ws else "", construct="%s/loss/write" % cls.qual, nontrivial=False, msg="write on the loss path")
        hd = handles(a, cls)
        for tr, what, ok, ev in hd.loss_obligations():
            fnc = tr.entry.func
            ctx.ob("W6", "%s loss: %s" % (cq, what), ok, where=where(ev) if ev is not None else "%s:%d" % (fnc.file, fnc.node.lineno),
                   function=fnc.qual, construct="%s/loss/%s" % (cls.qual, what), nontrivial=False, msg="connectionLost: %s fails on a path" % what)
        # W7: every retry timer stays reachable for the loss closure's cancel loops.  A request removed from its window with the
        # timer still pending, or an alarm field overwritten while the old timer is live, leaves a timer no later code can cancel;
        # every such timer's callback re-sends its packet, so it writes after the connection was reported lost.
        if cls is not a.protos[0]:
            from .c13 import timer_discipline
            timer_discipline(ctx, a, cls, r_cancel="W7", r_arm="W7")
        # broker-only classes never encoded by client code
        for tr in contexts(cat):
            for e in tr.events:
                if e.kind == "ENCODE" and e.a.get("cls") and e.a["cls"].split(".")[-1] in S2C_ONLY:
                    ctx.ob("W1", "%s broker-only packets are never encoded by the client" % cq, False, where=where(e), function=e.func,
                           construct="%s/encode-broker-only/%s" % (e.func, e.a["cls"].split(".")[-1]), msg="%s encoded in %s" % (e.a["cls"], tr.label()))
    ctx.count("write_events", nw)
    ctx.count("write_sites", len(sites))
    # (the number of places that call transport.write is the code's business - one shared helper is as good as nine places; what must have
    # been seen is the writing of every kind of packet a client sends)
    ctx.count("packet_kinds_written", len(kinds_written & C2S))
    ctx.floor("kinds of client packets seen written", len(kinds_written & C2S), 9)


def hd_loc(a, cls, x, tr):
    return handles(a, cls).handle_location(x.a["handle"], tr)
