"""C05: publish() Deferred fires exactly once, only on the acknowledgement its QoS level requires."""
from ..model import AnalysisError
from ..terms import SELF, FAC, NONE, show, is_const, mentions
from ..catalogue import catalogue, is_effect
from .common import where, cls_short, contexts, honoured, capabilities, types, short
from . import flows
from .flows import (rule_lookup, rule_fire_once, rule_drop, mark_qos0_exception, qos0_correlation, owner_of_fire,
                    elem_reg, post_dispatch, ack_cells, net_msgid)

EXPLANATION = (
    "Who-may-fire and pairing rules over every abstract path of the publisher-capable protocol classes: a publish "
    "Deferred is success-fired only in the PUBACK handler on an entry looked up in the publish window, in the PUBCOMP "
    "handler on an entry looked up in the release window, and at creation for QoS 0; the PUBREC handler never fires, it "
    "transfers the Deferred to a PUBREL registered under the same key; each handler looks its request up by the received "
    "identifier inside try/except KeyError with an effect-free miss branch; fired entries leave their registry on the same "
    "path (at most once), removed entries are fired, transferred or re-registered (at least once); the identifier reaching "
    "encode() comes from the allocator, is the one copied to deferred.msgId, is never reassigned, is the registry key and "
    "the callback argument. Decides these structural clauses for all paths; does not explore interleavings. R-FRAME: the premises of the framing lemma (every rule of C03) hold, a necessary condition of anything said about inbound packets. "
    " R-IDS - C17's allocator rules as the premise of 'the acknowledgement for its identifier': an identifier names at most one unfinished exchange. R-REACH - no acknowledgement handler cancels, without an .active() test, a handle that a retry routine can leave stored after it fired (e.g. by leaving through an exception before re-arming): the AlreadyCalled would precede the callback. R-PURGE - C12's Y-MARK / Y-EXEMPT as premise of 'only on the ack': the session code of the CONNACK fails or re-sends only what an earlier connection left behind, never a publish made on this connection.")
ASSUMPTIONS = ["a broker answers a QoS 1 PUBLISH with PUBACK and a QoS 2 PUBLISH with PUBREC (the property's own quantifier)"]

EXPECT_FIRE = {"windowPublish": "PUBACK", "windowPubRelease": "PUBCOMP", "windowSubscribe": "SUBACK",
               "windowUnsubscribe": "UNSUBACK"}


def check(ctx):
    a = ctx.a
    from .c03 import framing_premise
    framing_premise(ctx, 'R-FRAME', 'an acknowledgement that is mis-framed fires the wrong publish request, or none')
    # "only when a PUBACK / PUBCOMP for its packet identifier arrives": the identifier names ONE unfinished exchange only if the
    # allocator never hands out one that is still in use (C17's rules)
    # "the identifier exposed on the Deferred, the identifier on the wire and the value passed to the callback are the same number":
    # the identifier on the wire is the one the broker reads, which is msgId only if the PUBLISH is encoded as prescribed (a length
    # prefix that is short by a byte moves the identifier field) - the encoders' side of C02
    from .c02 import wire_premise
    wire_premise(ctx, "R-WIRE", "the broker reads the packet identifier of a PUBLISH from another place than the client put it: it "
                 "acknowledges an identifier the client never issued, and the Deferred does not fire on its own acknowledgement",
                 only=lambda f: f.rule in ("S2", "S3", "S5", "S8") and (f.construct.startswith("mqtt.pdu.PUBLISH") or f.construct.startswith("mqtt.pdu.encode")))
    from .common import run_premise
    run_premise(ctx, "C17", "R-IDS", "identifiers", "an identifier names at most one unfinished exchange",
                "two unfinished publishes share an identifier: the acknowledgement of one settles the other, which then succeeds without "
                "the acknowledgement its QoS level requires while the first never fires")
    # "fires ... only on the ack its QoS level requires": while its connection is up nothing but the acknowledgement settles a publish - in
    # particular not the session purge / resume at the CONNACK, which is meant for what an earlier connection left behind.  That the purge
    # tells the two apart (alarm cleared by the loss path only, tested before an entry is touched) is C12's Y-MARK / Y-EXEMPT
    run_premise(ctx, "C12", "R-PURGE", "carried-over", "the CONNACK purge fails only what an earlier connection left behind",
                "a publish made on this connection is failed (or re-sent) by the session code at the CONNACK: its Deferred fires without "
                "the acknowledgement, and the acknowledgement that follows finds nothing", only=lambda f: f.rule in ("Y-MARK", "Y-EXEMPT"))
    # "only when a PUBACK / PUBCOMP for its identifier arrives": each handler looks the identifier up in its own window.  The windows of
    # one address are separate containers only if buildProtocol makes them so: one dict stored under two registries lets an inbound QoS 2
    # message and an outbound exchange with the same number overwrite or delete each other's entry
    run_premise(ctx, "C19", "R-LOOKUP", "containers", "every registry of an address has a container of its own",
                "two registries of one address share a container: a handler of the other registry replaces or removes the entry of a publish "
                "in flight, whose acknowledgement then finds nothing and whose Deferred never fires",
                only=lambda f: f.rule in ("I-FRESH", "I-SHARED") and "windowPub" in f.construct)
    caps, pm, _ = capabilities(a)
    classes = [c for c in a.protos if "pub" in caps.get(c.qual, set())]
    ctx.floor("publisher-capable classes", len(classes), 2)
    nfire = 0
    for cls in classes:
        cat = catalogue(a, cls)
        cq = cls_short(cls.qual)
        ccaps = caps[cls.qual]
        mark_qos0_exception(cat)
        rule_lookup(ctx, cat, ccaps, "PUBACK", "windowPublish")
        rule_lookup(ctx, cat, ccaps, "PUBREC", "windowPublish")
        rule_lookup(ctx, cat, ccaps, "PUBCOMP", "windowPubRelease")
        rule_fire_once(ctx, cat)
        rule_drop(ctx, cat)
        flows.rule_ack_reaches_fire(ctx, a, cls, "R-REACH", ("windowPublish", "windowPubRelease"), ("PUBACK", "PUBREC", "PUBCOMP"))
        n = qos0_correlation(ctx, cat)
        ctx.floor("%s publish accept paths" % cq, n, 2)
        # ---- R-WHO: success fires ------------------------------------------------
        for tr in contexts(cat):
            for e in tr.events:
                if e.kind == "FIRE" and e.a["how"] == "callback":
                    nfire += 1
                    own = owner_of_fire(e)
                    rg = elem_reg(own)
                    if rg in ("windowPublish", "windowPubRelease", "queuePublishTx") or rg is None and own != ("attr", SELF, "connReq"):
                        exp = EXPECT_FIRE.get(rg)
                        ok = tr.kind == "NET" and tr.name == exp and tr.slot == "CONNECTED" and own is not None and own[0] == "elem"
                        ctx.ob("R-WHO-FIRE", "%s success-fire of a publish Deferred only on its acknowledgement (%s)" % (cq, tr.label()),
                               ok, where=where(e), function=e.func, construct="%s/success-fire/%s/%s" % (e.func, rg, tr.label()),
                               msg="publish Deferred of %s succeeds in context %s (allowed: NET(%s,CONNECTED) on the looked-up entry)" % (
                                   show(own), tr.label(), exp), trigger=tr.label())
                        if ok:
                            lk = [x for x in tr.events if x.kind == "LOOKUP" and x.a["reg"] == rg and x.a["hit"]]
                            key = lk[0].a["key"] if lk else None
                            ctx.ob("R-ID", "%s %s: callback argument is the identifier of the looked-up entry" % (cq, tr.name),
                                   e.a["arg"] == key and own[2] == key, where=where(e), function=e.func,
                                   construct="%s/callback-arg" % e.func,
                                   msg="callback called with %s; the entry was looked up under %s" % (show(e.a["arg"]), show(key)))
                if e.kind == "DEFNEW" and e.a["how"] == "succeed":
                    ok = tr.kind == "API" and tr.name == "publish"
                    ctx.ob("R-WHO-FIRE", "%s already-succeeded Deferred only for publish (%s)" % (cq, tr.label()), ok,
                           where=where(e), function=e.func, construct="%s/succeed/%s" % (e.func, tr.label()),
                           msg="defer.succeed() in context %s" % tr.label(), nontrivial=False)
        # ---- PUBREC: transfer, never fire ----------------------------------------------
        for tr in ack_cells(ctx, cat, ccaps, "PUBREC"):
            evs = post_dispatch(tr)
            lk = [x for x in evs if x.kind == "LOOKUP" and x.a["reg"] == "windowPublish"]
            if not lk or not lk[0].a["hit"]:
                continue
            key = lk[0].a["key"]
            el = ("elem", "windowPublish", key)
            fires = [x for x in evs if x.kind == "FIRE"]
            ctx.ob("R-PUBREC", "%s PUBREC never fires the Deferred" % cq, not fires, where=where(fires[0]) if fires else where(lk[0]),
                   function=lk[0].func, construct="%s/PUBREC/fires" % lk[0].func,
                   msg="the PUBREC handler fires a Deferred: the publish would complete before PUBCOMP")
            regs = [x for x in evs if x.kind == "REG" and x.a["reg"] == "windowPubRelease"]
            xfer = [x for x in evs if x.kind == "SETATTR" and x.a["field"] == "deferred" and x.a["val"] == ("attr", el, "deferred")]
            ok = bool(regs) and bool(xfer) and regs[0].a["val"] == xfer[0].a["obj"] and regs[0].a["key"] == key
            ctx.ob("R-PUBREC", "%s PUBREC moves the Deferred to a PUBREL registered under the same identifier" % cq, ok,
                   where=where(regs[0]) if regs else where(lk[0]), function=lk[0].func,
                   construct="%s/PUBREC/transfer" % lk[0].func,
                   msg="transfer of the Deferred to the release window is missing or uses another key (reg=%s xfer=%s)" % (
                       [show(r.a["key"]) for r in regs], len(xfer)))
            enc = [x for x in evs if x.kind == "ENCODE" and x.a["ok"] and regs and x.a["obj"] == regs[0].a["val"]]
            ctx.ob("R-ID", "%s PUBREL carries the received identifier" % cq, bool(enc) and enc[0].a["fields"].get("msgId") == key,
                   where=where(enc[0]) if enc else where(lk[0]), function=lk[0].func, construct="%s/PUBREL/msgId" % lk[0].func,
                   msg="PUBREL encoded with msgId %s, PUBREC carried %s" % (show(enc[0].a["fields"].get("msgId")) if enc else None, show(key)))
        # ---- identifier identity on the publish path ----------------------------------------
        for tr in contexts(cat):
            if tr.kind != "API" or tr.name != "publish":
                continue
            regs = [e for e in tr.events if e.kind == "REG" and e.a["reg"] == "queuePublishTx"]
            if not regs:
                continue
            req = regs[0].a["val"]
            enc = [e for e in tr.events if e.kind == "ENCODE" and e.a["ok"] and e.a["obj"] == req]
            mids = [e for e in tr.events if e.kind == "SETATTR" and e.a["obj"] == req and e.a["field"] == "msgId"]
            dfrs = [e for e in tr.events if e.kind == "SETATTR" and e.a["field"] == "msgId" and isinstance(e.a["obj"], tuple)
                    and e.a["obj"][0] == "dfr"]
            if not enc:
                ctx.ob("R-ID", "%s publish encodes the queued request" % cq, False, where=where(regs[0]), function=regs[0].func,
                       construct="%s/publish/no-encode" % regs[0].func, msg="request queued without encode()")
                continue
            wire = enc[0].a["fields"].get("msgId")
            qos0 = wire is None or wire == NONE
            if not qos0:
                ctx.ob("R-ID", "%s publish: identifier on the wire comes from the allocator" % cq,
                       isinstance(wire, tuple) and wire[0] == "facret", where=where(enc[0]), function=enc[0].func,
                       construct="%s/publish/id-source" % enc[0].func,
                       msg="msgId reaching encode() is %s, not a result of the factory's allocator" % show(wire))
            later = [e for e in mids if e.seq > enc[0].seq and e.stack == enc[0].stack]
            late_any = [e for e in tr.events if e.kind == "SETATTR" and e.a["obj"] == req and e.a["field"] == "msgId"
                        and tr.events.index(e) > tr.events.index(enc[0])]
            ctx.ob("R-ID", "%s publish: identifier not reassigned after encode()" % cq, not late_any,
                   where=where(late_any[0]) if late_any else where(enc[0]), function=enc[0].func,
                   construct="%s/publish/id-reassigned" % enc[0].func, msg="msgId assigned again after the packet was encoded")
            ctx.ob("R-ID", "%s publish: deferred.msgId is the identifier on the wire" % cq,
                   bool(dfrs) and dfrs[-1].a["val"] == wire, where=where(dfrs[-1]) if dfrs else where(enc[0]), function=enc[0].func,
                   construct="%s/publish/deferred-msgId" % enc[0].func,
                   msg="deferred.msgId = %s but the wire identifier is %s" % (show(dfrs[-1].a["val"]) if dfrs else None, show(wire)))
        # ---- registry key invariant ---------------------------------------------------
        for tr in contexts(cat):
            for e in tr.events:
                if e.kind == "REG" and e.a["how"] == "setitem":
                    ctx.ob("ID-KEY", "%s %s: %s keyed by the entry's own identifier" % (cq, short(e.func), e.a["reg"]),
                           e.a["key"] == e.a["valkey"], where=where(e), function=e.func, construct="%s/key/%s" % (e.func, e.a["reg"]),
                           msg="entry stored in %s under %s but its msgId is %s" % (e.a["reg"], show(e.a["key"]), show(e.a["valkey"])),
                           nontrivial=False)
            # no later reassignment of an element's identifier
            for e in tr.events:
                if e.kind == "SETATTR" and e.a["field"] == "msgId" and elem_reg(e.a["obj"]):
                    ctx.ob("ID-KEY", "%s identifier of a registered entry is never reassigned" % cq, False, where=where(e),
                           function=e.func, construct="%s/elem-msgId-reassigned" % e.func,
                           msg="msgId of an entry of %s is reassigned" % elem_reg(e.a["obj"]))
    ctx.count("success_fire_sites_seen", nfire)
    ctx.floor("success-fire events", nfire, 4)
