"""C17: packet identifiers are 1..65535 and never shared by two unfinished requests."""
from ..model import AnalysisError
from ..terms import SELF, FAC, NONE, show, is_const, mentions, subterms
from ..catalogue import catalogue, is_effect
from .common import where, cls_short, contexts, capabilities, types, short, written_object

EXPLANATION = (
    "Three structural clauses: (1) range by interval arithmetic over the folded constants of the allocator's return "
    "expression - a value `(.. % M)` with 0 replaced by a constant c lies in [min(1,c), M-1], which must be inside "
    "1..65535 (so % 65535 is accepted, % 65537 or a dropped zero-replacement is not); (2) who-may-assign - on every "
    "accepting path of publish (QoS>0), subscribe and unsubscribe the msgId that reaches encode() is a result of that "
    "allocator, PUBREL and the receiver-side replies take the looked-up / received identifier; (3) the allocator's "
    "result depends on the set of identifiers in use: some registry of unfinished requests is read in its closure - a "
    "necessary condition, since no allocator over a finite counter can avoid a live identifier without looking at which "
    "ones are live; all five registries must be read, keyed windows by membership of the candidate, the hold-back queue by "
    "its requests' identifiers, and (ID-SCAN) every non-returning iteration of those loops performs the test or runs the "
    "nested loop that does - no entry is skipped under another condition, no early break before the candidate was found. "
    "ID-INUSE also: no registry read of the scan sits under a test on the factory's own state (a profile-dependent scan leaves the other profile's windows unread). "
    "ID-SCAN also: in the factory module no one-shot iterator (generator call, generator expression, iter/map/filter/zip/reversed/enumerate) is bound once and consumed on every turn of a loop or twice - the later consumption sees the unread tail only. "
    "Absence of collisions over concrete histories is not decided.")
ASSUMPTIONS = []


def interval(t):
    """Integer interval of a term built from constants, %, +, `or`, conditional; None if unknown."""
    if not isinstance(t, tuple):
        return None
    if t[0] == "const" and isinstance(t[1], int) and not isinstance(t[1], bool):
        return (t[1], t[1])
    if t[0] == "binop":
        op, x, y = t[1], t[2], t[3]
        iy = interval(y)
        ix = interval(x)
        if op == "Mod" and iy and iy[0] == iy[1] and iy[0] > 0:
            return (0, iy[0] - 1)
        if op == "Add" and ix and iy:
            return (ix[0] + iy[0], ix[1] + iy[1])
        if op == "Sub" and ix and iy:
            return (ix[0] - iy[1], ix[1] - iy[0])
        if op == "BitAnd" and iy and iy[0] == iy[1] and iy[0] >= 0:
            return (0, iy[0])
        return None
    if t[0] == "call" and isinstance(t[1], tuple) and t[1][:1] == ("builtin",) and t[1][1] in ("max", "min") and len(t) > 2 and len(t[2]) >= 2:
        ivs = [interval(x) for x in t[2]]
        if all(ivs):
            pick = max if t[1][1] == "max" else min
            return (pick(i[0] for i in ivs), pick(i[1] for i in ivs))
        return None
    if t[0] == "boolop" and t[1] == "Or" and len(t[2]) == 2:
        ia, ib = interval(t[2][0]), interval(t[2][1])
        if ia and ib:
            lo = ia[0]
            if ia[0] <= 0 <= ia[1]:
                # zero is replaced by b
                lo = min(1 if ia[1] >= 1 else ib[0], ib[0]) if ia[0] == 0 else min(ia[0], ib[0])
                hi = max(ia[1], ib[1])
                return (lo, hi)
            return ia
        return None
    if t[0] == "ifexp":
        ia, ib = interval(t[1]), interval(t[2])
        if ia and ib:
            test = t[3] if len(t) > 3 else None
            zero = ("const", 0)
            if ia[0] == 0 and test in (t[1], ("cmp", "!=", t[1], zero), ("cmp", ">", t[1], zero)):
                ia = (1, ia[1])        # `x if x else c` / `x if x != 0 else c`: the first arm is taken only when x is not 0
            if ib[0] == 0 and test in (("cmp", "==", t[2], zero), ("not", t[2])):
                ib = (1, ib[1])        # `c if x == 0 else x`
            return (min(ia[0], ib[0]), max(ia[1], ib[1]))
    return None


def check(ctx):
    a = ctx.a
    # the in-use scan has to look at every registry for every candidate: a scan that is a one-shot iterator (a generator, map(), iter())
    # bound once and asked again for each candidate answers the later candidates from the tail the earlier ones left over
    from .common import oneshot_misuses
    fmod = a.prog.modules.get("mqtt.client.factory")
    if fmod is None:
        raise AnalysisError("anchor vanished: mqtt.client.factory")
    shots = list(oneshot_misuses(a.prog, fmod))
    for fn, name, bnode, node, why in shots:
        ctx.ob("ID-SCAN", "%s consumes no one-shot iterator twice" % fn.qual, False, where="%s:%d" % (fn.file, node.lineno), function=fn.qual,
               construct="%s/one-shot/%s" % (fn.qual, name), msg=why)
    if shots:
        return      # what the allocator computes from a half-read scan is not what the rules below reason about
    ctx.ob("ID-SCAN", "the factory consumes no one-shot iterator twice", True, where=fmod.path, construct="factory/one-shot", nontrivial=False)
    ty = types(a)
    caps, pm, _ = capabilities(a)
    n_alloc = n_enc = 0
    alloc_funcs = {}
    for cls in a.protos[1:]:
        cat = catalogue(a, cls)
        eng = cat.eng
        cq = cls_short(cls.qual)
        # ID-LIVE: the in-use scan looks at the registries, so they have to hold every unfinished request: an entry leaves a
        # registry only together with the settling of its Deferred (fired, or handed to the entry that replaces it)
        from .flows import rule_drop, mark_qos0_exception
        mark_qos0_exception(cat)      # a QoS 0 request carries no identifier: leaving the queue unsettled-looking is no concern here
        rule_drop(ctx, cat, prefix="ID-LIVE")
        for tr in contexts(cat):
            for e in tr.events:
                if e.kind == "FACRET":
                    n_alloc += 1
                    alloc_funcs.setdefault(e.a["func"], []).append((tr, e))
            if tr.kind != "API" or tr.name not in ("publish", "subscribe", "unsubscribe"):
                continue
            for e in tr.events:
                if e.kind == "ENCODE" and e.a["ok"] and e.a.get("cls"):
                    nm = e.a["cls"].split(".")[-1]
                    if nm not in ("PUBLISH", "SUBSCRIBE", "UNSUBSCRIBE"):
                        continue
                    n_enc += 1
                    mid = e.a["fields"].get("msgId")
                    if nm == "PUBLISH" and (mid is None or mid == NONE):
                        continue      # QoS 0 carries no identifier
                    ctx.ob("ID-SOURCE", "%s %s: identifier on the wire comes from the allocator (%s)" % (cq, nm, tr.label()),
                           isinstance(mid, tuple) and mid[0] == "facret", where=where(e), function=e.func,
                           construct="%s/id-source/%s" % (e.func, nm), msg="msgId reaching encode() of a %s is %s" % (nm, show(mid)))
    ctx.floor("allocator call events", n_alloc, 3)
    ctx.floor("outbound request encodes", n_enc, 3)
    ctx.ob("ID-ALLOC", "one identifier allocator", len(alloc_funcs) == 1, where="src/mqtt/client/factory.py", construct="allocator/count",
           msg="identifier results come from %s" % sorted(alloc_funcs))
    for fq, evs in sorted(alloc_funcs.items()):
        tr, e = evs[0]
        f = a.prog.funcs.get(fq)
        w = "%s:%d" % (f.file, f.node.lineno) if f else where(e)
        inners = {}
        for tr1, e1 in evs:
            inners.setdefault(e1.a["inner"], (tr1, e1))
        for inner, (tr1, e1) in inners.items():
            iv = interval(inner)
            if iv is None and isinstance(inner, tuple) and inner[:2] == ("attr", FAC):
                # the counter itself, returned after a loop: every iteration's last assignment to it bounds the value
                iv = counter_interval(tr1, e1, fq, inner[2])
            if iv is None:
                iv = loopvar_interval(tr1, inner)
            ctx.ob("ID-RANGE", "%s returns a value in 1..65535 (%s)" % (short(fq), show(inner)[:40]), iv is not None and 1 <= iv[0] and iv[1] <= 65535,
                   where=w, function=fq, construct="%s/range" % fq,
                   msg="the allocator returns %s whose value range is %s (must lie within 1..65535)" % (show(inner), iv))
        # dependence on the identifiers in use: some registry read inside the allocator's frame
        reads = []
        for tr2, e2 in evs[:1]:
            i = tr2.events.index(e2)
            depth = len(e2.stack)
            for x in reversed(tr2.events[:i]):
                if x.kind == "CALL" and x.a["func"] == fq and len(x.stack) == depth:
                    break
                if len(x.stack) > depth and x.kind in ("REGADDR", "REGTOPCALL", "LOOKUP", "LOOP", "COMP"):
                    # (a loop or a comprehension counts when what it iterates over is made of whole registries)
                    if x.kind not in ("LOOP", "COMP") or any(isinstance(s, tuple) and s[:1] == ("regtop",)
                                                             for s in subterms(x.a.get("iter") or x.a.get("iters") or ())):
                        reads.append(x)
        # the counter is shared by every address of the factory, so the scan has to look at every address: a registry consulted for
        # one address only (registry[addr]) leaves the requests of the other addresses out
        for x in reads:
            if x.kind == "REGADDR":
                ctx.ob("ID-INUSE", "%s looks at every address of %s" % (short(fq), x.a["reg"]), False, where=where(x), function=x.func,
                       construct="%s/one-address/%s" % (x.func, x.a["reg"]),
                       msg="the in-use scan reads %s only for the address %s: the identifier counter is shared by all addresses of the factory, "
                           "so an identifier still in use on another address is handed out again" % (x.a["reg"], show(x.a["key"])))
        # how the in-use test looks at each registry: a keyed window may be tested by membership of the identifier, a sequence of
        # request objects (the hold-back queue) must be searched by the requests' identifiers
        seq_regs = set()
        for cls in a.protos[1:]:
            for ent, p, x in catalogue(a, cls).all_events("REG"):
                if x.a["how"] in ("append", "appendleft", "insert", "extend"):
                    seq_regs.add(x.a["reg"])
        for tr2, e2 in evs[:1]:
            i = tr2.events.index(e2)
            depth = len(e2.stack)
            for x in reversed(tr2.events[:i]):
                if x.kind == "CALL" and x.a["func"] == fq and len(x.stack) == depth:
                    break
                if x.kind == "MEMBER" and len(x.stack) > depth:
                    srcs = {sub[1] for sub in subterms(x.a["container"]) if isinstance(sub, tuple) and sub[:1] in (("regtop",), ("reg",))}
                    bad = sorted(srcs & seq_regs)
                    ctx.ob("ID-INUSE", "%s tests membership of the identifier only in registries keyed by identifier" % short(fq), not bad,
                           where=where(x), function=x.func, construct="%s/membership/%s" % (x.func, "+".join(bad) or "keyed"),
                           msg="`identifier in container` is applied to %s, which holds request objects, not identifiers: the test is always "
                               "false and identifiers of requests waiting there are handed out again" % bad, nontrivial=bool(srcs))
        # ID-SCAN: the "not in use" verdict is only reached after every entry was looked at: inside the allocator's frame every
        # iteration of a loop over a registry (or over what a registry holds) that does not return performs the identifier test
        # (membership of the candidate, or comparison of an entry's identifier with it) or runs the nested loop that does
        for tr2, e2 in evs[:1]:
            n_scan = 0
            # the scan written as "collect the identifiers in use, then test the candidate against the collection": a local
            # collection is as good as the registries it was filled from when (a) the candidate is tested against it, (b) what goes
            # in are identifiers (keys of a keyed window, or msgId of the entries of a queue), unfiltered, and (c) nothing is taken
            # out of it again
            frame = [x for x in tr2.path.walk() if any(fr[2] == fq for fr in x.stack)]
            tested_accs = {x.a["container"] for x in frame if x.kind == "MEMBER" and isinstance(x.a["container"], tuple)
                           and x.a["container"][:1] == ("accum",)}
            for x in frame:
                if x.kind != "ACCUM" or x.a["acc"] not in tested_accs:
                    continue
                src = x.a["src"]
                regs = {sub[1] for sub in subterms(src) if isinstance(sub, tuple) and sub[:1] in (("regtop",), ("reg",))}
                if x.a["how"] not in ("init", "add", "update"):
                    ctx.ob("ID-SCAN", "%s: nothing is taken out of the collection of identifiers in use (%s:%d)" % (short(fq), x.file, x.line), False,
                           where=where(x), function=x.func, construct="%s/scan-skips/removes" % x.func,
                           msg="the collection of identifiers in use the candidate is tested against is reduced by .%s(%s): identifiers "
                               "removed there are handed out again while still unfinished" % (x.a["how"], show(src)[:60]))
                    continue
                if not regs:
                    continue
                if isinstance(src, tuple) and src[:1] == ("comp",):
                    continue       # judged with the generator expression below
                is_ids = (x.a["how"] in ("init", "update") and isinstance(src, tuple) and src[:1] == ("reg",) and src[1] not in seq_regs) or (
                    x.a["how"] == "add" and isinstance(src, tuple) and ((src[:1] == ("attr",) and src[-1] == "msgId") or src[:1] == ("keyof",)))
                ctx.ob("ID-INUSE", "%s collects identifiers, not request objects (%s:%d)" % (short(fq), x.file, x.line), is_ids, where=where(x),
                       function=x.func, construct="%s/membership/%s" % (x.func, "+".join(sorted(regs))),
                       msg="the collection the candidate is tested against is filled by .%s(%s), which does not put the identifiers of the "
                           "requests of %s into it: the test never finds them and their identifiers are handed out again" % (
                               x.a["how"], show(src)[:60], sorted(regs)))
            for lp in tr2.path.walk():
                if lp.kind != "LOOP" or not any(fr[2] == fq for fr in lp.stack):
                    continue
                it = lp.a.get("iter") or ()
                if not any(isinstance(sub, tuple) and sub[:1] in (("regtop",), ("reg",)) for sub in subterms(it)):
                    continue
                cand = None
                for fr_i, fr in enumerate(lp.stack):
                    if fr[2] == fq:
                        break
                for bp in lp.a["body"]:
                    if bp.exit_kind() in ("return", "raise"):
                        continue
                    n_scan += 1
                    own = list(bp.events)
                    tested = any(x.kind == "MEMBER" for x in own) or any(x.kind == "LOOP" for x in own) or any(
                        x.kind == "COMP" and x.a.get("consumer") == "any" for x in own) or any(
                        x.kind == "ACCUM" and x.a["acc"] in tested_accs and x.a["how"] in ("add", "update") for x in own) or any(
                        isinstance(c.term, tuple) and c.term[:1] == ("cmp",) and c.term[1] in ("==", "!=", "in", "not in")
                        and any(isinstance(sub, tuple) and sub[:1] == ("attr",) and sub[-1] == "msgId" for sub in subterms(c.term))
                        for c in bp.conds[len(lp.conds):])
                    extra = [c for c in bp.conds[len(lp.conds):] if not (isinstance(c.term, tuple) and c.term[:1] == ("cmp",))]
                    itregs = {sub[1] for sub in subterms(it) if isinstance(sub, tuple) and sub[:1] in (("regtop",), ("reg",))}
                    if not tested and extra and all(c.pol is False and isinstance(c.term, tuple) and c.term[:1] == ("reg",) and c.term[1] in itregs
                                                    and isinstance(c.term[2], tuple) and c.term[2][:1] == ("anyaddr",) for c in extra):
                        tested = True      # the visited container itself is empty: nothing to test
                    if bp.exit_kind() == "break":
                        # leaving the scan early is only sound once the candidate was found
                        tested = any(isinstance(c.term, tuple) and c.term[:1] == ("cmp",) and (
                            (c.term[1] in ("==", "in") and c.pol is True) or (c.term[1] in ("!=", "not in") and c.pol is False))
                            for c in bp.conds[len(lp.conds):])
                    ctx.ob("ID-SCAN", "%s: every entry visited by the in-use scan is tested (%s:%d, exit %s)" % (short(fq), lp.file, lp.line, bp.exit_kind()),
                           tested, where="%s:%d" % (lp.file, lp.line), function=lp.func, construct="%s/scan-skips/%s" % (lp.func, _regs_of(it)),
                           msg="an iteration of the in-use scan over %s ends (%s) without testing the candidate identifier%s: identifiers of the "
                               "requests skipped there are handed out again while still unfinished" % (
                                   _regs_of(it), bp.exit_kind(), (" under the condition %s" % show(extra[0].term)[:80]) if extra else ""))
            # the same scan written with any() over generator expressions: nothing can be skipped unless a generator filters
            for cp in tr2.path.walk():
                if cp.kind != "COMP" or not any(fr[2] == fq for fr in cp.stack):
                    continue
                its = cp.a["iters"]
                if not any(isinstance(sub, tuple) and sub[:1] in (("regtop",), ("reg",)) for it in its for sub in subterms(it)):
                    continue
                n_scan += 1
                filt = [c for cs in cp.a["ifs"] for c in cs]
                elt = cp.a["elts"][0] if cp.a["elts"] else None
                tests = isinstance(elt, tuple) and ((elt[:1] == ("cmp",) and elt[1] in ("==", "in")) or (
                    # an inner any(<test> for ..) over what this generator yields: the inner generator is judged on its own
                    elt[:2] == ("call", ("builtin", "any")) and len(elt[2]) == 1 and isinstance(elt[2][0], tuple) and elt[2][0][:1] == ("comp",)))
                ok = not filt and tests and cp.a.get("consumer") == "any"
                collects = [x for x in frame if x.kind == "ACCUM" and x.a["acc"] in tested_accs and x.a["how"] in ("init", "update")
                            and isinstance(x.a["src"], tuple) and x.a["src"][:1] == ("comp",) and x.file == cp.file and x.line == cp.line]
                if collects and cp.a.get("consumer") in (".update", "set", "frozenset", "list"):
                    # the generator fills the collection the candidate is tested against: every entry's identifier, unfiltered
                    ok = not filt and isinstance(elt, tuple) and ((elt[:1] == ("attr",) and elt[-1] == "msgId") or elt[:1] == ("keyof",))
                ctx.ob("ID-SCAN", "%s: the in-use scan written as any(<test> for ..) visits every entry (%s:%d)" % (short(fq), cp.file, cp.line), ok,
                       where="%s:%d" % (cp.file, cp.line), function=cp.func, construct="%s/scan-skips/%s" % (cp.func, _regs_of(its)),
                       msg="the generator scanning %s %s: identifiers of the requests it skips are handed out again while still unfinished" % (
                           _regs_of(its), "filters entries with %s" % show(filt[0])[:80] if filt else
                           ("is not an any() over the identifier test (%s, consumed by %s)" % (show(elt)[:60], cp.a.get("consumer")))))
            ctx.floor("in-use scan iterations checked", n_scan, 2)
        # ID-VERDICT: the allocator leaves its candidate loop - by break or return - only with the "not in use" verdict for the
        # candidate in hand; the only other way out is the loop's own end (every candidate tried).  The verdict on a path is the
        # negative outcome of the membership test against the registries / the collected set, the in-use scan function having
        # handed back its "nothing found" value, or the any()-scan having been false.
        for tr2, e2 in evs[:1]:
            cand_loops = [lp for lp in tr2.path.walk() if lp.kind == "LOOP" and lp.func == fq
                          and not any(isinstance(sub, tuple) and sub[:1] in (("regtop",), ("reg",)) for sub in subterms(lp.a.get("iter") or ()))]
            found_vals = set()
            for lp in tr2.path.walk():
                if lp.kind == "LOOP" and lp.func != fq and any(fr[2] == fq for fr in lp.stack):
                    for bp in lp.a["body"]:
                        if bp.exit_kind() == "return" and bp.exit is not None:
                            found_vals.add(bp.exit[1])
            for lp in cand_loops:
                trips = loop_trips(lp)
                if trips is not None:
                    # the loop's own end is the "every candidate tried" exit only if it can try them all
                    ctx.ob("ID-VERDICT", "%s tries every identifier before it gives up (%s:%d)" % (short(fq), lp.file, lp.line), trips >= 65535,
                           where="%s:%d" % (lp.file, lp.line), function=fq, construct="%s/gives-up-early" % fq,
                           msg="the allocator gives up after %d candidates and hands out the last one tried: with more than that many "
                               "consecutive identifiers in use it returns one that is still unfinished (65535 candidates exist)" % trips)
                for bp in lp.a["body"]:
                    if bp.exit_kind() not in ("break", "return"):
                        continue
                    own_conds = bp.conds[len(lp.conds):]
                    free = False
                    for c in own_conds:
                        t, pol = c.term, c.pol
                        while isinstance(t, tuple) and t and t[0] == "not":
                            t, pol = t[1], not pol
                        if isinstance(t, tuple) and t[:1] == ("cmp",) and t[1] in ("in", "not in") and isinstance(t[3], tuple) \
                                and (t[3][:1] == ("accum",) or any(isinstance(s, tuple) and s[:1] in (("reg",), ("regtop",)) for s in subterms(t[3]))):
                            if (t[1] == "not in") == bool(pol):
                                free = True
                        if isinstance(t, tuple) and t[:1] == ("call",) and t[1] == ("builtin", "any") and pol is False:
                            free = True
                    for x in bp.walk():
                        if x.kind == "MRET" and x.a["func"] != fq and found_vals and is_const(x.a["val"]) and x.a["val"] not in found_vals:
                            free = True
                    ctx.ob("ID-VERDICT", "%s leaves its candidate loop (%s) only with a candidate found free" % (short(fq), bp.exit_kind()), free,
                           where="%s:%d" % (lp.file, lp.line), function=fq, construct="%s/early-exit" % fq,
                           msg="the allocator leaves its loop over the candidates by %s on a path where the candidate in hand was not found free "
                               "(conditions %s): an identifier still in use is handed out" % (
                                   bp.exit_kind(), [repr(c) for c in own_conds][-3:]))
        # every registry is looked at whatever else is the case: a scan of a registry that sits under a test on the factory's own state
        # (the profile, a flag) leaves that registry unread for the other outcome of the test
        flagged = set()
        for x in reads:
            rg = x.a.get("reg") or next((sub[1] for sub in subterms(x.a.get("iter") or x.a.get("iters") or ()) if isinstance(sub, tuple) and sub[:1] == ("regtop",)), None)
            for c in x.conds:
                for sub in subterms(c.term):
                    if isinstance(sub, tuple) and len(sub) == 3 and sub[0] == "attr" and sub[1] == FAC and isinstance(sub[2], str) \
                            and sub[2] != "id" and not sub[2].startswith("window") and not sub[2].startswith("queue"):
                        if (rg, sub[2]) not in flagged:
                            flagged.add((rg, sub[2]))
                            ctx.ob("ID-INUSE", "%s looks at %s unconditionally" % (short(fq), rg), False, where=where(x), function=x.func,
                                   construct="%s/conditional-scan/%s" % (fq, rg),
                                   msg="the in-use scan reads %s only under a test on the factory's %s (%s): for the other outcome the identifiers "
                                       "of the requests waiting there are handed out again" % (rg, sub[2], c.text if hasattr(c, "text") else ""))
        regs_read = set()
        for x in reads:
            if x.a.get("reg"):
                regs_read.add(x.a["reg"])
            for sub in subterms(x.a.get("iter") or x.a.get("iters") or ()):
                if isinstance(sub, tuple) and sub[:1] == ("regtop",):
                    regs_read.add(sub[1])
        need = {"queuePublishTx", "windowPublish", "windowPubRelease", "windowSubscribe", "windowUnsubscribe"}
        if reads:
            ctx.ob("ID-INUSE", "%s looks at every registry of unfinished requests" % short(fq), need <= regs_read, where=w, function=fq,
                   construct="%s/in-use-coverage" % fq,
                   msg="the allocator does not look at %s: identifiers of requests waiting there can be handed out again" % sorted(need - regs_read))
        ctx.ob("ID-INUSE", "%s consults the identifiers still in use" % short(fq), bool(reads), where=w, function=fq,
               construct="%s/ignores-in-use" % fq,
               msg="the allocator reads nothing but its counter: after the 16-bit counter wraps it hands out identifiers of requests that are "
                   "still unfinished (counter at 65534 with ids 1-3 pending -> 65535, 1, 2, 3)")
    ctx.count("allocator_events", n_alloc)


def loop_trips(lp):
    """Number of iterations a counted loop makes at most, when it can be read off: for _ in range(K); while n: n -= 1 from
    n = K; while n < K: n += 1 from n = 0.  None otherwise."""
    it = lp.a.get("iter")
    if isinstance(it, tuple) and it[:2] == ("call", ("builtin", "range")) and len(it[2]) == 1 and is_const(it[2][0]) and isinstance(it[2][0][1], int):
        return it[2][0][1]
    t = lp.a.get("test")
    pre = lp.a.get("pre") or {}
    if t is None:
        return None
    bound = None
    var = None
    if isinstance(t, tuple) and t[:1] == ("unk",) and "@loop" in str(t[1]):
        var, kind = str(t[1]).partition("@loop")[0], "down"
    elif isinstance(t, tuple) and t[:1] == ("cmp",) and isinstance(t[2], tuple) and t[2][:1] == ("unk",) and "@loop" in str(t[2][1]) and is_const(t[3]):
        var = str(t[2][1]).partition("@loop")[0]
        if t[1] in (">", "!=") and t[3][1] == 0:
            kind = "down"
        elif t[1] == ">=" and t[3][1] == 1:
            kind = "down"
        elif t[1] == "<" and isinstance(t[3][1], int):
            kind, bound = "up", t[3][1]
        elif t[1] == "<=" and isinstance(t[3][1], int):
            kind, bound = "up", t[3][1] + 1
        else:
            return None
    else:
        return None
    p0 = pre.get(var)
    if not (is_const(p0) and isinstance(p0[1], int)):
        return None
    step_ok = True
    for bp in lp.a["body"]:
        if bp.exit_kind() in ("raise",) or bp.st is None:
            continue
        v = bp.st.env.get(var)
        want = ("binop", "Sub" if kind == "down" else "Add", ("unk", "%s@loop%s" % (var, lp.a.get("loop"))), ("const", 1))
        if v != want and bp.exit_kind() in ("fall", "continue"):
            step_ok = False
    if not step_ok:
        return None
    return p0[1] if kind == "down" else (bound - p0[1])


def _regs_of(it):
    return "+".join(sorted({sub[1] for sub in subterms(it) if isinstance(sub, tuple) and sub[:1] in (("regtop",), ("reg",))})) or "?"


def refined_interval(v, facts):
    """interval(v), with 0 excluded when the path has tested v against 0."""
    iv = interval(v)
    if iv is None:
        return None
    zero = ("const", 0)
    if iv[0] == 0 and (facts.get(("truthy", v)) is True or facts.get(("cmp", "==", v, zero)) is False
                       or facts.get(("cmp", "!=", v, zero)) is True or facts.get(("cmp", "==", zero, v)) is False
                       or facts.get(("cmp", "!=", zero, v)) is True or facts.get(("cmp", ">", v, zero)) is True
                       or facts.get(("cmp", ">=", v, ("const", 1))) is True):
        iv = (1, iv[1])
    return iv


def _surely_entered(lp):
    """for _ in range(K) with a constant K >= 1 runs its body at least once."""
    it = lp.a.get("iter")
    return isinstance(it, tuple) and it[:2] == ("call", ("builtin", "range")) and len(it[2]) == 1 and is_const(it[2][0]) \
        and isinstance(it[2][0][1], int) and it[2][0][1] >= 1


def loopvar_interval(tr, inner):
    """Interval of a local that a loop modifies (term ('unk', 'name@loopN')): hull of the value it has at the end of every
    iteration (each refined by the facts of that iteration: tested non-zero -> at least 1), and of its value before the loop
    unless the loop test is known to hold on entry."""
    if not (isinstance(inner, tuple) and len(inner) == 2 and inner[0] == "unk" and "@loop" in str(inner[1])):
        return None
    name, _, lid = inner[1].partition("@loop")
    lp = next((x for x in tr.path.walk() if x.kind == "LOOP" and str(x.a.get("loop")) == lid), None)
    if lp is None:
        return None
    vals = []
    for bp in lp.a["body"]:
        if bp.exit_kind() == "raise" or bp.st is None:
            continue
        v = bp.st.env.get(name)
        iv = refined_interval(v, bp.st.facts)
        if iv is None:
            return None
        vals.append(iv)
    if lp.a.get("enters") is not True and not _surely_entered(lp):
        # (refined by what the path tested before the loop: `return x if x != 0 else 1` read as two returns leaves x under x != 0)
        pre_facts = {c.term: c.pol for c in lp.conds}
        iv = refined_interval((lp.a.get("pre") or {}).get(name), pre_facts)
        if iv is None:
            return None
        vals.append(iv)
    if not vals:
        return None
    return (min(v[0] for v in vals), max(v[1] for v in vals))


def counter_interval(tr, e, fq, field):
    """Hull of the values last assigned to factory.<field> in each loop iteration inside the allocator's frame."""
    i = tr.events.index(e)
    depth = len(e.stack)
    frame = []
    for x in reversed(tr.path.events[:tr.path.events.index(e)] if e in tr.path.events else tr.events[:i]):
        if x.kind == "CALL" and x.a["func"] == fq and len(x.stack) == depth:
            break
        frame.append(x)
    lo = hi = None
    found = False
    for x in frame:
        if x.kind == "LOOP":
            it = x.a.get("iter")
            for bp in x.a["body"]:
                last = None
                for y in bp.events:
                    if y.kind == "SETATTR" and y.a["obj"] == FAC and y.a["field"] == field:
                        last = y
                if last is None:
                    continue
                # the tests that stood when the value was stored (the store itself outdates path facts that mention the field)
                at_store = {}
                for c in last.conds:
                    t, pol = c.term, c.pol
                    while isinstance(t, tuple) and t and t[0] == "not":
                        t, pol = t[1], not pol
                    if isinstance(t, tuple) and t and t[0] == "cmp":
                        at_store[t] = pol
                    elif isinstance(t, tuple):
                        at_store[("truthy", t)] = pol
                iv = refined_interval(last.a["val"], at_store)
                if iv is None:
                    return None
                found = True
                lo = iv[0] if lo is None else min(lo, iv[0])
                hi = iv[1] if hi is None else max(hi, iv[1])
    return (lo, hi) if found else None


def allocator_reads(a):
    """identifier allocator (factory method whose result is used as msgId) -> set of registries read inside its frame."""
    out = {}
    for cls in a.protos[1:]:
        cat = catalogue(a, cls)
        for tr in contexts(cat):
            for e in tr.events:
                if e.kind != "FACRET":
                    continue
                fq = e.a["func"]
                regs = out.setdefault(fq, set())
                i = tr.events.index(e)
                depth = len(e.stack)
                for x in reversed(tr.events[:i]):
                    if x.kind == "CALL" and x.a["func"] == fq and len(x.stack) == depth:
                        break
                    if len(x.stack) > depth:
                        if x.a.get("reg") and x.kind in ("REGADDR", "REGTOPCALL", "LOOKUP"):
                            regs.add(x.a["reg"])
                        if x.kind in ("LOOP", "COMP"):
                            for sub in subterms(x.a.get("iter") or x.a.get("iters") or ()):
                                if isinstance(sub, tuple) and sub[:1] == ("regtop",):
                                    regs.add(sub[1])
        if out:
            break
    return out
