"""C16: malformed or unexpected input is contained - no crash, no unjustified effect."""
import ast

from ..model import AnalysisError
from ..terms import SELF, FAC, NONE, show, is_const, mentions, subterms
from ..catalogue import catalogue, is_effect
from ..lifecycle import lifecycle
from ..handles import handles
from .common import where, cls_short, contexts, capabilities, types, short, honoured, SPEC_TYPES
from .flows import post_dispatch, prefired_fires
from .c04 import index_hazards

EXPLANATION = (
    "Containment rules over the closure of the data-receiving entry point and of every timer target, for every protocol "
    "class: E1 - every decode() call sits in a try whose handler catches Exception and reaches a close of the transport; a "
    "dispatch after a failed decode is tolerated only when the decoder leaves the looked-up field at its constructor "
    "default on failure, no registry is ever keyed by that default, and the path then has no effect; E2 - the type-nibble "
    "lookup is guarded (miss -> abort, nothing else), broker-bound and reserved types only abort; E3 - hazards on values "
    "derived from the packet outside any catching try: unbounded index into a constant table, registry lookup by network "
    "identifier without KeyError handler, method call on a handle that can be None (unless a handler around it catches the AttributeError), cancel() of a handle that already "
    "fired or that was cancelled earlier and left stored, callback()/errback() without a .called test on an entry of a registry that can hold an already fired Deferred; a "
    "constant sequence of names indexed by a packet value is walked entry by entry with an IndexError edge; no abstract path of these entry points leaves by exception; E4 - every self./state/factory call resolves and "
    "no name is undefined on these paths; E5 - a packet that does not belong to the current state/profile, and a failed "
    "decode, cause no delivery, no Deferred success, no registry change. Does not decide value-level decoding faults that "
    "do not raise (e.g. a truncated QoS 0 PUBLISH delivered short). "
    " E7 - decodeString decodes strictly: bytes that are not UTF-8 raise (and the wrappers abort) instead of being replaced or ignored.")
ASSUMPTIONS = ["after abortConnection() the transport delivers connectionLost, which settles pending requests (C11/C12/C13)"]


def decode_dirty_fields(prog):
    """For each PDU class: fields that may already be assigned when decode() raises (A7 fact (i))."""
    m = prog.modules.get("mqtt.pdu")
    out = {}
    if m is None:
        raise AnalysisError("anchor vanished: mqtt.pdu")
    for c in m.classes.values():
        dec = prog.lookup_method(c, "decode")
        if dec is None:
            continue
        stmts = list(_flat_stmts(dec.node.body))
        raising = [i for i, s in enumerate(stmts) if _may_raise(s)]
        last = raising[-1] if raising else -1
        dirty = set()
        for i, s in enumerate(stmts):
            if i < last:        # assigned strictly before the last statement that can raise
                for t in _self_targets(s):
                    dirty.add(t)
        dirty.discard("encoded")
        out[c.qual] = dirty
    return out


def _flat_stmts(body):
    for s in body:
        if isinstance(s, (ast.If, ast.While, ast.For, ast.Try)):
            # the compound header itself
            yield s
            for fld in ("body", "orelse", "finalbody"):
                yield from _flat_stmts(getattr(s, fld, []) or [])
        else:
            yield s


def _header_exprs(s):
    if isinstance(s, (ast.If, ast.While)):
        return [s.test]
    if isinstance(s, ast.For):
        return [s.iter]
    if isinstance(s, ast.Try):
        return []
    return [s]


def _may_raise(s):
    for h in _header_exprs(s):
        for x in ast.walk(h):
            if isinstance(x, ast.Subscript) and not isinstance(x.slice, ast.Slice) and isinstance(x.ctx, ast.Load):
                return True
            if isinstance(x, ast.Call):
                return True
    return False


def _self_targets(s):
    if isinstance(s, (ast.If, ast.While, ast.For, ast.Try)):
        return []
    out = []
    for x in ast.walk(s):
        if isinstance(x, ast.Attribute) and isinstance(x.ctx, ast.Store) and isinstance(x.value, ast.Name) and x.value.id == "self":
            out.append(x.attr)
    return out


def check(ctx):
    a = ctx.a
    # "no Deferred success, delivery or registry change that a well-formed packet did not justify": what a handler does is justified by the
    # field values the decoder hands it - which are the packet's only if the decoder reads each field where the packet has it (a CONNACK read
    # from a fixed offset takes a refusal sent with a two-byte length for an acceptance).  C02's S9 instances
    from .common import run_premise
    run_premise(ctx, "C02", "E5", "decoders", "the decoders of client-bound packets read every field where the packet has it",
                "a well-formed packet decodes to other values than it carries: the handler acts on them - a Deferred succeeds, a message is "
                "delivered or an entry removed that the packet did not justify", only=lambda f: f.rule == "S9")
    ty = types(a)
    caps, pm, _ = capabilities(a)
    dirty = decode_dirty_fields(a.prog)
    n_dec = n_paths = 0
    # no registry is ever keyed by a constructor default (None)
    none_keys = []
    for cls in a.protos:
        cat = catalogue(a, cls)
        for ent, p, e in cat.all_events("REG"):
            if e.a["how"] == "setitem" and (e.a["key"] == NONE or (is_const(e.a["key"]))):
                none_keys.append(e)
    ctx.ob("E1", "no registry is keyed by a constant / constructor default", not none_keys, where=where(none_keys[0]) if none_keys else "src/mqtt/client",
           construct="registry/none-key", msg="a registry entry is stored under %s" % (show(none_keys[0].a["key"]) if none_keys else ""))
    for cls in a.protos:
        cat = catalogue(a, cls)
        eng = cat.eng
        cq = cls_short(cls.qual)
        ccaps = caps.get(cls.qual, set())
        hd = handles(a, cls)
        # ---- nothing escapes from the framing step itself (before any packet reaches its handler) ----
        ent0 = cat.get("dataReceived")
        n_fr = 0
        if ent0 is not None:
            def framer_paths(path, depth=0):
                yield path
                for e in path.events:
                    if e.kind == "LOOP" and depth < 3:
                        for bp in e.a["body"]:
                            yield from framer_paths(bp, depth + 1)
            seen_fr = set()
            for p0 in ent0.paths:
                for bp in framer_paths(p0):
                    if any(x.kind == "CONSTMAP" for x in bp.walk()):
                        continue          # reached the dispatcher: judged per packet type below
                    n_fr += 1
                    if bp.exit_kind() != "raise":
                        continue
                    src = [x for x in bp.walk() if x.kind in ("BUFINDEX", "RAISE", "UNDEFINED", "UNRESOLVED", "NONE_DEREF", "BADCALL", "NOTCALLABLE")]
                    at = src[-1] if src else None
                    key = (at.func if at else "", show(bp.exit[1]))
                    if key in seen_fr:
                        continue
                    seen_fr.add(key)
                    ctx.ob("E3", "%s no exception escapes from the framing step" % cq, False, where=where(at) if at else "%s:%d" % (ent0.func.file, ent0.func.node.lineno),
                           function=at.func if at else ent0.func.qual, construct="%s/framing-escape/%s" % (at.func if at else ent0.func.qual, show(bp.exit[1])),
                           msg="%s escapes from dataReceived while the bytes received are being cut into packets%s" % (
                               show(bp.exit[1]), (": %s[%s] is read without a test that so many bytes have arrived (conditions %s)" % (
                                   show(at.a["base"]), show(at.a["key"]), [repr(c) for c in at.conds][-2:])) if at is not None and at.kind == "BUFINDEX" else ""))
            ctx.ob("E3", "%s the framing step raises nothing on any split of the input (%d paths)" % (cq, n_fr), True, where="%s:%d" % (ent0.func.file, ent0.func.node.lineno),
                   construct="%s/framing-escape/none" % cls.qual, nontrivial=n_fr > 0) if not seen_fr else None
        for tr in contexts(cat):
            if tr.kind not in ("NET", "TIMER"):
                continue
            n_paths += 1
            evs = tr.events
            # ---- nothing escapes ----
            if tr.path.exit_kind() == "raise":
                exc = tr.path.exit[1]
                src = [e for e in evs if e.kind in ("RAISE", "LOOKUP", "DECODE", "NONE_DEREF", "UNRESOLVED", "UNDEFINED", "BADCALL", "CONSTMAP", "NOTCALLABLE")]
                at = src[-1] if src else (evs[-1] if evs else None)
                ctx.ob("E3", "%s no exception escapes (%s)" % (cq, tr.label()), False, where=where(at) if at else cls.module.path,
                       function=at.func if at else "", construct="%s/escape/%s/%s" % (at.func if at else cls.qual, show(exc), tr.kind),
                       msg="%s escapes from %s" % (show(exc), "dataReceived" if tr.kind == "NET" else "timer callback " + short(tr.name)),
                       trigger=tr.label())
            else:
                ctx.ob("E3", "%s no exception escapes (%s)" % (cq, tr.label()), True, nontrivial=False, where="", construct="ok")
            for h in index_hazards(evs):
                ctx.ob("E3", "%s constant table indexed within bounds (%s)" % (cq, tr.label()), False, where=where(h), function=h.func,
                       construct="%s/unguarded-index" % h.func,
                       msg="a table of %d entries is indexed by a value from the packet without a bound test: IndexError" % h.a["size"])
            for e in evs:
                if e.kind in ("UNRESOLVED", "UNDEFINED", "NOTCALLABLE", "BADCALL"):
                    ctx.ob("E4", "%s everything resolves on network/timer paths" % cq, False, where=where(e), function=e.func,
                           construct="%s/unresolved/%s" % (e.func, e.a.get("name") or e.kind), msg="%s: %s" % (e.kind, e.brief()))
            if tr.kind != "NET":
                continue
            # ---- E1: decode containment ----
            decs = [e for e in evs if e.kind == "DECODE"]
            for d in decs:
                n_dec += 1
                if d.a["ok"]:
                    continue
                later = evs[evs.index(d) + 1:]
                caught = [e for e in later if e.kind == "CATCH"]
                closes = [e for e in later if e.kind == "CLOSE"]
                ctx.ob("E1", "%s a corrupt %s is caught and the connection aborted" % (cq, tr.name), bool(caught) and bool(closes) and
                       tr.path.exit_kind() != "raise", where=where(d), function=d.func, construct="%s/decode-uncaught" % d.func,
                       msg="decode() failure of %s is not caught by a handler that closes the connection" % tr.name)
                disp = [e for e in later if e.kind == "DISPATCH"]
                if disp:
                    # deviant sibling: dispatch after a failed decode - tolerated only if provably without effect
                    cq_dirty = dirty.get(d.a["cls"], set())
                    eff = [e for e in later[later.index(disp[0]):] if is_effect(e)]
                    lk = [e for e in later if e.kind == "LOOKUP"]
                    # (lookups that can only happen after a hit under the default key - which no registry has - do not count)
                    keyed_by_default = all(e.a["key"] == NONE for e in lk if not _after_impossible_hit(later, e))
                    feasible_eff = [e for e in eff if not _after_impossible_hit(later, e)]
                    ok = "msgId" not in cq_dirty and keyed_by_default and not feasible_eff
                    ctx.ob("E1", "%s dispatch after a failed decode of %s is without effect" % (cq, tr.name), ok, where=where(disp[0]),
                           function=disp[0].func, construct="%s/dispatch-after-failed-decode" % disp[0].func,
                           msg="the handler is called after decode() failed and has effect %s (fields possibly assigned before the failure: %s)" % (
                               feasible_eff[0].brief() if feasible_eff else "", sorted(cq_dirty)))
                else:
                    bad = [e for e in later if e.kind in ("CALLBACK", "FIRE", "REG", "UNREG", "WRITE")]
                    ctx.ob("E5", "%s a corrupt %s has no application-visible effect" % (cq, tr.name), not bad, where=where(bad[0]) if bad else where(d),
                           function=d.func, construct="%s/corrupt-effect" % d.func, nontrivial=False,
                           msg="after a failed decode: %s" % (bad[0].brief() if bad else ""))
            # ---- E2: unknown / broker-bound types ----
            if tr.name == "?" or tr.slot is None and not decs and not any(e.kind == "DISPATCH" for e in evs):
                eff = [e for e in evs if is_effect(e)]
                ok = bool(eff) and all(e.kind == "CLOSE" for e in eff) and tr.path.exit_kind() != "raise"
                ctx.ob("E2", "%s packet type %s only aborts the connection" % (cq, tr.name), ok, where=where(eff[0]) if eff else cls.module.path,
                       function=eff[0].func if eff else "", construct="%s/type/%s" % (cls.qual, tr.name),
                       msg="unknown/broker-bound packet type %s: effects %s" % (tr.name, [e.kind for e in eff]))
            # ---- E5: a PUBLISH with the reserved QoS value (both bits set) is malformed: no delivery, no reply, nothing stored ----
            if tr.name == "PUBLISH" and tr.slot is not None and tr.decode_ok and honoured(tr, ccaps):
                from .c06 import qos_of
                dresp = [e for e in evs if e.kind == "DECODE" and e.a["ok"]]
                if dresp and qos_of(tr, dresp[0].a["obj"]) is None:
                    eff = [e for e in post_dispatch(tr) if is_effect(e)]
                    ctx.ob("E5", "%s a PUBLISH with QoS 3 has no effect" % cq, not eff, where=where(eff[0]) if eff else cls.module.path,
                           function=eff[0].func if eff else "", construct="%s/PUBLISH/qos3" % cls.qual,
                           msg="a PUBLISH whose QoS bits are both set (malformed) causes %s" % (eff[0].brief() if eff else ""))
            # ---- E5: packets outside their state/profile ----
            if tr.slot is not None and tr.decode_ok and not honoured(tr, ccaps):
                eff = [e for e in post_dispatch(tr) if is_effect(e)]
                ctx.ob("E5", "%s %s outside its state/profile is ignored (%s)" % (cq, tr.name, tr.slot), not eff, where=where(eff[0]) if eff else cls.module.path,
                       function=eff[0].func if eff else "", construct="%s/%s/%s/ignored" % (cls.qual, tr.slot, tr.name), nontrivial=False,
                       msg="unexpected %s in %s has effect %s" % (tr.name, tr.slot, eff[0].brief() if eff else ""))
        # ---- E3: handle hazards ----
        for tr, e, loc, why in hd.none_deref():
            if tr.kind in ("NET", "TIMER", "LOSS"):
                ctx.ob("E3", "%s no method call on a None handle (%s)" % (cq, tr.label()), False, where=where(e), function=e.func,
                       construct="%s/none-handle/%s" % (e.func, ".".join(loc)),
                       msg="%s.%s() where the handle can be None (%s): AttributeError escapes" % (".".join(loc), e.a["how"], why))
        seen = set()
        for ent, p, loc, tr, e in hd.fired_handles():
            if (loc, e.func) in seen:
                continue
            seen.add((loc, e.func))
            ctx.ob("E3", "%s no cancel() of a handle that already fired" % cq, False, where=where(e), function=e.func,
                   construct="%s/fired-handle/%s/%s" % (ent.func.qual, ".".join(loc), short(e.func)),
                   msg="%s leaves its fired handle in %s and %s cancels it: AlreadyCalled escapes" % (short(ent.func.qual), ".".join(loc), short(e.func)))
        seen_ul = set()
        for tr, e, loc, tr2, e2 in hd.unstarted_loops():
            if (e.func, loc) in seen_ul or not (True):
                continue
            seen_ul.add((e.func, loc))
            ctx.ob("E3", "%s no periodic call is stored without being started (%s)" % (cq, tr.label()), False, where=where(e), function=e.func,
                   construct="%s/loop-created-not-started/%s" % (e.func, ".".join(loc)),
                   msg="%s creates the periodic call stored in %s without starting it; %s (%s) finds it not None and calls stop() on a loop that is not running: LoopingCall.stop() asserts - %s" % (tr.label(), ".".join(loc), tr2.label(), where(e2), 'an AssertionError escapes from connectionLost (reached from dataReceived() or a timer when the library aborts the connection)'))
        for tr, e, loc, tr2, e2 in hd.cancelled_kept():
            ctx.ob("E3", "%s no cancel() of a handle that was cancelled before (%s)" % (cq, tr.label()), False, where=where(e), function=e.func,
                   construct="%s/cancelled-handle-kept/%s" % (e.func, ".".join(loc)),
                   msg="%s cancels the handle in %s and leaves it stored; the next connectionLost (%s) - reached from dataReceived() or a timer when "
                       "the library itself aborts the connection - finds it not None and cancels it again: AlreadyCancelled escapes" % (
                           tr.label(), ".".join(loc), where(e2)))
        for tr, f, rg, (tr0, st0, rg0) in prefired_fires(cat):
            if tr.kind in ("NET", "TIMER", "LOSS"):
                ctx.ob("E3", "%s no second firing of an already fired Deferred (%s)" % (cq, tr.label()), False, where=where(f), function=f.func,
                       construct="%s/prefired/%s" % (f.func, rg),
                       msg="callback()/errback() of a request taken from %s without testing .called; %s registers requests whose Deferred "
                           "is already fired (%s): AlreadyCalledError escapes" % (rg, tr0.label(), where(st0)))
        # optional application callbacks (fields the constructor sets to None): calling one, or handing it to callLater, without
        # testing it raises TypeError out of dataReceived / connectionLost / the reactor when the application has not set it
        init_none = {f for (o, f), v in eng.full_init_heap.items() if o == SELF and v == NONE}

        def _guarded_field(e, name):
            for c in e.conds:
                t, pol = c.term, c.pol
                while isinstance(t, tuple) and t and t[0] == "not":
                    t, pol = t[1], not pol
                if pol and (t == ("attr", SELF, name) or (isinstance(t, tuple) and t[:1] in (("nonnull",), ("truthy",)) and t[1] == ("attr", SELF, name))
                            or (isinstance(t, tuple) and t[:2] == ("call", ("builtin", "callable")) and t[2] == (("attr", SELF, name),))):
                    return True
            return False
        seen_cb = set()
        for tr in contexts(cat):
            if tr.kind not in ("NET", "TIMER", "LOSS"):
                continue
            for e in tr.events:
                nm = None
                if e.kind == "CALLBACK" and e.a["name"] in init_none:
                    nm = e.a["name"]
                elif e.kind == "ARM" and isinstance(e.a.get("target"), tuple) and e.a["target"][:2] == ("attr", SELF) and e.a["target"][2] in init_none:
                    nm = e.a["target"][2]
                if nm is None or (e.func, nm) in seen_cb:
                    continue
                if not _guarded_field(e, nm):
                    seen_cb.add((e.func, nm))
                    ctx.ob("E3", "%s optional callback %s is used only when set (%s)" % (cq, nm, tr.label()), False, where=where(e), function=e.func,
                           construct="%s/unset-callback/%s" % (e.func, nm),
                           msg="self.%s is None until the application sets it; it is %s here without a test: TypeError escapes when no handler is "
                               "registered" % (nm, "called" if e.kind == "CALLBACK" else "scheduled with callLater"))
        # the CONNACK deadline: its callback fails the connect Deferred; a CONNACK path (a reserved return code as much as 0) that
        # fires that Deferred and leaves the deadline armed lets the callback fire it a second time - AlreadyCalledError out of a timer
        from .c04 import conn_owner
        from ..fieldroles import is_alarm_field
        timer_fires_conn = any(tr.kind == "TIMER" and any(
            e.kind == "FIRE" and isinstance(e.a["dfr"], tuple) and e.a["dfr"][0] == "attr" and conn_owner(e.a["dfr"][1], hd, tr)
            and not any("called" in repr(c.term) for c in e.conds) for e in tr.events) for tr in contexts(cat))
        if timer_fires_conn:
            seen_c = set()
            for tr in contexts(cat):
                if not (tr.kind == "NET" and tr.name == "CONNACK" and tr.slot == "CONNECTING" and tr.decode_ok) or tr.path.exit_kind() == "raise":
                    continue
                fires = [e for e in tr.events if e.kind == "FIRE" and isinstance(e.a["dfr"], tuple) and e.a["dfr"][0] == "attr"
                         and conn_owner(e.a["dfr"][1], hd, tr)]
                if not fires:
                    continue
                cn = [e for e in tr.events if e.kind == "CANCEL" and isinstance(e.a["handle"], tuple) and e.a["handle"][0] == "attr"
                      and is_alarm_field(e.a["handle"][2]) and conn_owner(e.a["handle"][1], hd, tr)]
                key = fires[0].func
                if not cn and key not in seen_c:
                    seen_c.add(key)
                    ctx.ob("E3", "%s a CONNACK that settles the connect request disarms its deadline (%s)" % (cq, tr.label()), False, where=where(fires[0]),
                           function=fires[0].func, construct="%s/connect-deadline-left-armed" % fires[0].func,
                           msg="a path of the CONNACK handler fires the connect Deferred without cancelling the CONNACK deadline: when it "
                               "expires its callback fires the same Deferred again and AlreadyCalledError escapes from the timer")
            if not seen_c:
                ctx.ob("E3", "%s every CONNACK path that settles the connect request disarms its deadline" % cq, True, where=cls.module.path,
                       construct="%s/connect-deadline" % cls.qual, nontrivial=False)
        names = {tr.name for tr in contexts(cat) if tr.kind == "NET" and tr.slot is not None}
        exp = {n for k, (n, d) in SPEC_TYPES.items() if d in ("s2c", "both")}
        ctx.ob("E2", "%s every client-bound packet type has a handler" % cq, exp <= names, where=cls.module.path,
               construct="%s/handlers" % cls.qual, msg="no handler reached for %s" % sorted(exp - names))
    ctx.count("decode_events", n_dec)
    ctx.count("network_and_timer_paths", n_paths)
    # E6: a packet cut short inside a fixed-width field must fault (the wrappers then abort the connection); a 16-bit read that slices
    # instead of indexing accepts a 0- or 1-byte field as a number, so a truncated acknowledgement can settle a pending request
    from ..codec_prims import check_primitives
    _probs, _facts = check_primitives(a.prog)
    ln = _facts.get("u16_lenient")
    ctx.ob("E6", "decode16Int faults on a field shorter than 2 bytes", ln is None, where="src/mqtt/pdu.py:%d" % (ln.lineno if ln is not None else 0),
           function="mqtt.pdu.decode16Int", construct="mqtt.pdu.decode16Int/lenient",
           msg="decode16Int reads the 16-bit field through a slice: a packet cut short inside a packet identifier is decoded (missing bytes "
               "count as nothing) instead of raising, so the truncated packet has the effect of a well-formed one")
    # E7: invalid UTF-8 in a string field is "malformed input": the decoder must raise on it (the handlers' wrappers then abort the
    # connection), not replace / ignore the bad bytes and hand the application a PUBLISH no broker packet justified
    se = _facts.get("string_errors")
    ctx.ob("E7", "decodeString faults on bytes that are not valid UTF-8", se is None, where="src/mqtt/pdu.py:%d" % (se[1].lineno if se is not None else 0),
           function="mqtt.pdu.decodeString", construct="mqtt.pdu.decodeString/lenient-utf8",
           msg="decodeString decodes with errors=%r: a PUBLISH whose topic is not valid UTF-8 is delivered (onPublish, PUBACK / PUBREC) with "
               "altered text instead of aborting the connection" % (se[0] if se is not None else None))
    ctx.floor("decode events over contexts", n_dec, 12)
    ctx.floor("network and timer paths", n_paths, 40)


def _after_impossible_hit(later, e):
    """Effects that follow a registry HIT under the constructor-default key cannot happen (no entry has that key)."""
    i = later.index(e)
    return any(x.kind == "LOOKUP" and x.a["key"] == NONE and x.a["hit"] for x in later[:i])
