"""Rule families over request/acknowledgement flows: R-LOOKUP, R-FIRE, R-DROP, R-WHO, identifier identity."""
import ast
import re

from ..model import AnalysisError
from ..terms import SELF, FAC, NONE, show, is_const, mentions, subterms
from ..catalogue import catalogue, is_effect, is_fresh
from .common import (where, cls_short, exc_class, contexts, honoured, written_object, types, capabilities, short)

# registries whose elements carry a Deferred of the caller, and the acknowledgement that settles them
ACK_OF = {"SUBACK": "windowSubscribe", "UNSUBACK": "windowUnsubscribe", "PUBACK": "windowPublish",
          "PUBREC": "windowPublish", "PUBCOMP": "windowPubRelease"}
DEFERRED_REGS = ["queuePublishTx", "windowPublish", "windowPubRelease", "windowSubscribe", "windowUnsubscribe"]
TIMED_REGS = ["windowPublish", "windowPubRelease", "windowSubscribe", "windowUnsubscribe"]


def net_msgid(t):
    return isinstance(t, tuple) and t[0] == "net" and t[2] == "msgId"


def owner_of_fire(e):
    """The object whose .deferred is fired, or None."""
    d = e.a["dfr"]
    if isinstance(d, tuple) and d[0] == "attr" and d[2] == "deferred":
        return d[1]
    return None


def elem_reg(t):
    if isinstance(t, tuple) and t and t[0] in ("elem", "popped"):
        return t[1]
    return None


def ack_cells(ctx, cat, caps, packet):
    """Honoured, successfully decoded contexts of one acknowledgement type."""
    return [tr for tr in contexts(cat) if tr.kind == "NET" and tr.name == packet and tr.decode_ok
            and honoured(tr, caps)]


def post_dispatch(tr):
    d = [e for e in tr.events if e.kind == "DISPATCH"]
    if not d:
        return tr.events
    i = tr.events.index(d[0])
    return tr.events[i + 1:]


def rule_lookup(ctx, cat, caps, packet, reg, prefix="R-LOOKUP", miss_must_be_empty=True):
    """The handler obtains its request by LOOKUP(reg, response.msgId) inside try/except KeyError; the miss branch has
    no effect at all."""
    cells = ack_cells(ctx, cat, caps, packet)
    cq = cls_short(cat.cls.qual)
    if not cells:
        ctx.ob(prefix, "%s %s handler reachable" % (cq, packet), False, where=cat.cls.module.path,
               construct="%s/%s/unreachable" % (cat.cls.qual, packet), msg="no honoured path handles %s" % packet)
        return
    hit = miss = 0
    for tr in cells:
        evs = post_dispatch(tr)
        lks = [e for e in evs if e.kind == "LOOKUP" and e.a["reg"] == reg]
        first_eff = next((e for e in evs if is_effect(e)), None)
        if not lks:
            ctx.ob(prefix, "%s %s looks its request up in %s" % (cq, packet, reg), False,
                   where=where(first_eff) if first_eff else where(tr.events[0]), function=first_eff.func if first_eff else "",
                   construct="%s/%s/no-lookup/%s" % (cat.cls.qual, packet, reg),
                   msg="a path handling %s does not look the request up in %s" % (packet, reg), trigger=tr.label())
            continue
        lk = lks[0]
        # nothing may happen before the lookup decides
        pre = [e for e in evs[:evs.index(lk)] if is_effect(e)]
        ctx.ob(prefix, "%s %s: nothing happens before the lookup" % (cq, packet), not pre, where=where(pre[0]) if pre else where(lk),
               function=lk.func, construct="%s/%s/effect-before-lookup" % (lk.func, packet), nontrivial=False,
               msg="effect %s before the request is found" % (pre[0].brief() if pre else ""), trigger=tr.label())
        ctx.ob(prefix, "%s %s: lookup key is the received identifier" % (cq, packet), net_msgid(lk.a["key"]), where=where(lk),
               function=lk.func, construct="%s/%s/key" % (lk.func, reg), nontrivial=False,
               msg="lookup key is %s, not the identifier of the received packet" % show(lk.a["key"]), trigger=tr.label())
        if lk.a["hit"] is False:
            miss += 1
            escaped = tr.path.exit_kind() == "raise"
            ctx.ob(prefix, "%s %s: a miss is caught" % (cq, packet), not escaped, where=where(lk), function=lk.func,
                   construct="%s/%s/miss-escapes" % (lk.func, reg),
                   msg="KeyError of an unknown identifier escapes from the handler", trigger=tr.label())
            if miss_must_be_empty:
                eff = [e for e in evs[evs.index(lk):] if is_effect(e)]
                ctx.ob(prefix, "%s %s: unknown identifier has no effect" % (cq, packet), not eff,
                       where=where(eff[0]) if eff else where(lk), function=eff[0].func if eff else lk.func,
                       construct="%s/%s/miss-effect/%s" % (lk.func, reg, eff[0].kind if eff else ""),
                       msg="an acknowledgement with an unknown identifier causes %s" % (eff[0].brief() if eff else ""),
                       trigger=tr.label())
        elif lk.a["hit"] is True:
            hit += 1
        else:
            # dict.get(): the None default must be tested before use - treated as undecided idiom
            raise AnalysisError("lookup idiom .get() in %s not modelled" % lk.func)
    ctx.ob(prefix, "%s %s has a hit path and a miss path" % (cq, packet), hit > 0 and miss > 0, where=cat.cls.module.path,
           construct="%s/%s/paths" % (cat.cls.qual, packet), nontrivial=False,
           msg="%d hit paths, %d miss paths" % (hit, miss))


def rule_fire_once(ctx, cat, prefix="R-FIRE"):
    """At most once: on every path that fires x.deferred for a registry element x, x leaves its registry on that path."""
    cq = cls_short(cat.cls.qual)
    n = 0
    for tr in contexts(cat):
        if not tr.decode_ok:
            continue
        _fire_once_events(ctx, cq, tr, tr.path.events, prefix)
    return n


def _fire_once_events(ctx, cq, tr, events, prefix):
    """Within one region (a path, or one loop iteration)."""
    fires = [e for e in events if e.kind == "FIRE"]
    for f in fires:
        own = owner_of_fire(f)
        rg = elem_reg(own)
        if rg is None:
            continue
        if own[0] == "popped":
            unreg = True
        else:
            unreg = any(e.kind == "UNREG" and e.a["reg"] == rg and (e.a["key"] == own[2] or e.a.get("elem") == own
                                                                      or e.a["how"] == "clear") for e in events)
        guarded = any(isinstance(c.term, tuple) and mentions(c.term, ("attr", f.a["dfr"], "called")) for c in f.conds)
        # (a `.called` test protects this firing from being a second one; it does not excuse leaving the fired entry registered,
        # from where a later acknowledgement or refill reaches it again)
        ctx.ob(prefix, "%s %s: fired element leaves %s (%s)" % (cq, short(f.func), rg, tr.label()), unreg,
               where=where(f), function=f.func, construct="%s/fire-without-unreg/%s" % (f.func, rg),
               msg="Deferred of an element of %s is fired but the element stays registered: a second acknowledgement fires it "
                   "again (AlreadyCalledError)" % rg, trigger=tr.label())
    for e in events:
        if e.kind == "LOOP":
            for bp in e.a["body"]:
                _fire_once_events(ctx, cq, tr, bp.events, prefix)


def prefired_registries(cat):
    """Registries that can hold a request whose Deferred was created already fired (defer.succeed / defer.fail stored in
    .deferred, then the request is registered on the same path).  {registry: (context, store event, REG event)}"""
    got = getattr(cat, "_prefired", None)
    if got is not None:
        return got
    regs = {}
    for tr in contexts(cat):
        pre = {}
        for e in tr.path.walk():
            if e.kind == "SETATTR" and e.a["field"] == "deferred":
                v = e.a["val"]
                if isinstance(v, tuple) and v and v[0] == "dfr" and len(v) > 2 and v[2] in ("succeed", "fail"):
                    pre[e.a["obj"]] = e
                else:
                    pre.pop(e.a["obj"], None)
            elif e.kind == "REG" and e.a.get("val") in pre and e.a["reg"] not in regs:
                regs[e.a["reg"]] = (tr, pre[e.a["val"]], e)
    cat._prefired = regs
    return regs


def prefired_fires(cat):
    """FIRE events on an element taken straight from such a registry that are not under a test of .called:
    callback()/errback() raises AlreadyCalledError there.  [(context, FIRE event, registry, origin)]"""
    regs = prefired_registries(cat)
    out = []
    if not regs:
        return out
    seen = set()
    for tr in contexts(cat):
        for f in tr.path.walk():
            if f.kind != "FIRE":
                continue
            own = owner_of_fire(f)
            rg = elem_reg(own)
            if rg not in regs:
                continue
            guarded = any(isinstance(c.term, tuple) and mentions(c.term, ("attr", f.a["dfr"], "called")) for c in f.conds)
            if guarded or (tr.label(), f.file, f.line) in seen:
                continue
            seen.add((tr.label(), f.file, f.line))
            out.append((tr, f, rg, regs[rg]))
    return out


def rule_drop(ctx, cat, prefix="R-DROP"):
    """At least once: every removal of a Deferred-carrying entry is accompanied by a fire, a transfer of the Deferred
    to an entry that is registered, or a re-registration of the entry itself."""
    cq = cls_short(cat.cls.qual)
    for tr in contexts(cat):
        if not tr.decode_ok:
            continue
        _drop_events(ctx, cq, tr, tr.path, prefix, cat)


def _drop_events(ctx, cq, tr, path, prefix, cat):
    events = path.events
    rfacts = path.st.facts if path.st is not None else {}
    for u in events:
        if u.kind == "LOOP":
            for bp in u.a["body"]:
                _drop_events(ctx, cq, tr, bp, prefix, cat)
            continue
        if u.kind != "UNREG" or u.a["reg"] not in DEFERRED_REGS:
            continue
        rg = u.a["reg"]
        el = u.a.get("elem") or (("elem", rg, u.a["key"]) if u.a["key"] is not None else None)
        ok = False
        why = ""
        if u.a["how"] == "clear" or el is None:
            ok = False
            why = "bulk removal"
        else:
            dterm = ("attr", el, "deferred")
            for e in events:
                if e.kind == "FIRE" and owner_of_fire(e) == el:
                    ok = True
                elif e.kind == "REG" and e.a["val"] == el:
                    ok = True
                elif e.kind == "SETATTR" and e.a["field"] == "deferred" and e.a["val"] == dterm:
                    # transfer: the receiving object must itself be registered on this path
                    if any(r.kind == "REG" and r.a["val"] == e.a["obj"] for r in events):
                        ok = True
            if not ok and rfacts.get(("truthy", ("attr", dterm, "called"))) is True:
                ok = True       # the 'already fired' arm of a fire guarded by `not x.deferred.called`
            if not ok and rg == "queuePublishTx":
                # reviewed exception: a QoS 0 entry leaves the queue with its Deferred already fired (checked separately)
                facts = tr.path.st.facts if tr.path.st is not None else {}
                # find the facts of the region the event is in
                if _falsy_msgid(u, el):
                    ok = True
                    why = "qos0"
        ctx.ob(prefix, "%s %s: removal from %s settles or moves the Deferred (%s)" % (cq, short(u.func), rg, tr.label()), ok,
               where=where(u), function=u.func, construct="%s/drop/%s" % (u.func, rg),
               msg="an entry is removed from %s without its Deferred being fired, transferred or re-registered: it stays "
                   "pending for ever" % rg, trigger=tr.label())


def _falsy_msgid(u, el):
    """Is there, after the removal in the same region, a branch taken on 'not el.msgId'?  (conds of later events)"""
    return bool(u.a.get("qos0_ok"))


def mark_qos0_exception(cat):
    """R-DROP's reviewed exception: entries popped from the queue that are not inserted into the window are exactly
    those with a falsy msgId.  Marks the UNREG events for which the region's branch condition says so."""
    for tr in contexts(cat):
        _mark_region(tr.path)


def _mark_region(path):
    for e in path.events:
        if e.kind == "LOOP":
            for bp in e.a["body"]:
                _mark_region(bp)
    pops = [e for e in path.events if e.kind == "UNREG" and e.a["reg"] == "queuePublishTx" and e.a.get("elem")]
    for u in pops:
        el = u.a["elem"]
        key = ("truthy", ("attr", el, "msgId"))
        facts = path.st.facts if path.st is not None else {}
        if facts.get(key) is False or facts.get(("nonnull", ("attr", el, "msgId"))) is False:
            u.a["qos0_ok"] = True


def qos0_correlation(ctx, cat, prefix="R-DROP"):
    """In the publish path, the branch that leaves msgId empty is the branch that creates an already-fired Deferred."""
    cq = cls_short(cat.cls.qual)
    n = 0
    for tr in contexts(cat):
        if tr.kind != "API" or tr.name != "publish":
            continue
        regs = [e for e in tr.events if e.kind == "REG" and e.a["reg"] == "queuePublishTx"]
        if not regs:
            continue
        n += 1
        req = regs[0].a["val"]
        mid = None
        dfr = None
        for e in tr.events:
            if e.kind == "SETATTR" and e.a["obj"] == req and e.a["field"] == "msgId":
                mid = e.a["val"]
            if e.kind == "SETATTR" and e.a["obj"] == req and e.a["field"] == "deferred":
                dfr = e.a["val"]
        empty = mid is None or mid == NONE or (is_const(mid) and not mid[1])
        fired = isinstance(dfr, tuple) and dfr[0] == "dfr" and dfr[2] == "succeed"
        ctx.ob(prefix, "%s publish: empty identifier <=> Deferred created already fired" % cq, empty == fired,
               where=where(regs[0]), function=regs[0].func, construct="%s/qos0-correlation" % regs[0].func,
               msg="a request queued with msgId=%s carries a Deferred created by %s" % (show(mid) if mid else None, show(dfr)),
               trigger=tr.label())
    return n


def documented_deliver_order(prog):
    m = prog.modules.get("mqtt.client.interfaces")
    if m is not None:
        mm = re.search(r"with parameters \(([^)]*)\)", m.src)
        if mm:
            return [x.strip() for x in mm.group(1).split(",")]
    return ["topic", "payload", "qos", "dup", "retain", "msgId"]


def rule_ack_reaches_fire(ctx, a, cls, rule, regs, acks):
    """A retry routine that leaves the handle that just fired in the request (no re-arm, no clearing - e.g. it left by an exception before
    either) makes the acknowledgement handler's alarm.cancel() raise AlreadyCalled in front of the callback: the acknowledgement arrives
    and the Deferred never fires."""
    from ..handles import handles
    from .common import cls_short, where, short
    hd = handles(a, cls)
    seen = False
    for ent, p, loc, tr, e in hd.fired_handles():
        if tr.kind != "NET" or tr.name not in acks or not any(r in ".".join(loc) for r in regs):
            continue
        seen = True
        ctx.ob(rule, "%s %s reaches the Deferred after cancelling the retry timer" % (cls_short(cls.qual), tr.name), False, where=where(e), function=e.func,
               construct="%s/fired-handle/%s/%s" % (ent.func.qual, ".".join(loc), short(e.func)),
               msg="timer routine %s can return with the handle that just fired still stored in %s; the %s handler then cancels it without "
                   ".active(): AlreadyCalled leaves the handler before the Deferred of the request is fired" % (
                       short(ent.func.qual), ".".join(loc), tr.name))
    if not seen:
        ctx.ob(rule, "%s no acknowledgement handler cancels a handle that already fired" % cls_short(cls.qual), True, nontrivial=False,
               where=cls.module.path, construct="%s/fired-handle/acks" % cls.qual)


SESSION_REGS = ("windowPublish", "windowPubRelease", "windowSubscribe", "windowUnsubscribe", "queuePublishTx")


def rule_hook_after_session(ctx, cat, rule, consequence):
    """The application's onMqttConnectionMade hook may call subscribe() / unsubscribe() / publish().  The session code of the CONNACK
    (purge on a clean session, resume on a persistent one) takes every entry of the subscribe / unsubscribe windows - and every publish
    whose alarm is unset - for something an earlier connection left behind: it must have run before the hook does."""
    from .common import cls_short, where, contexts
    cq = cls_short(cat.cls.qual)
    n = 0
    for tr in contexts(cat):
        if tr.kind != "NET" or tr.name != "CONNACK" or not tr.decode_ok:
            continue
        evs = list(tr.events)
        hooks = [i for i, e in enumerate(evs) if e.kind == "CALLBACK" and e.a["name"] == "onMqttConnectionMade"]
        for i in hooks:
            n += 1
            late = [e for e in evs[i + 1:] if (e.kind in ("UNREG", "LOOP") and (e.a.get("reg") in SESSION_REGS or any(
                r in str(e.a.get("iter")) for r in SESSION_REGS))) or (e.kind == "WRITE" and any(r in str(e.a.get("data")) for r in SESSION_REGS))]
            ctx.ob(rule, "%s the onMqttConnectionMade hook runs after the session purge / resume (%s)" % (cq, tr.label()), not late,
                   where=where(evs[i]), function=evs[i].func, construct="%s/hook-before-session-code" % evs[i].func, nontrivial=False,
                   msg="the application hook is called and the session code of the CONNACK runs after it (%s): %s" % (
                       late[0].brief()[:90] if late else "", consequence), trigger=tr.label())
    return n
