"""C12: persistent session - in-flight publishes survive loss, resume on next connection."""
from ..model import AnalysisError
from ..terms import SELF, FAC, NONE, show, is_const, mentions, subterms
from ..fieldroles import is_alarm_field
from ..catalogue import catalogue, is_effect
from ..lifecycle import lifecycle, drains, rearms, loops_over
from .common import where, cls_short, contexts, capabilities, types, short, written_object, exc_class
from .c14 import expected_api

EXPLANATION = (
    "Structural clauses of session persistence on every path of the publisher-capable classes: on a non-clean loss no "
    "Deferred is fired (every errback site of the loss closure is control-dependent on the clean test); the resume code "
    "is reached only from the accepted-CONNACK path under the negated clean test and re-sends every entry of the release "
    "window and of the publish window, each registry in its own loop, iterating the dict in insertion order (no sort / "
    "reverse); the clean branch of the accepted CONNACK purges with MQTTSessionCleared every publish registry that a "
    "non-clean loss keeps (queue, publish window, release window); no re-send happens on the clean branch and no failure "
    "on the resume branch; publish() is honoured while CONNECTING in publisher-capable profiles; Y-EXEMPT - for every registry "
    "that can be entered before the CONNACK, the resume and purge loops touch an entry only under the test that marks it "
    "as carried over (alarm cleared by the loss path), so what was requested on the new connection before its CONNACK is "
    "neither failed nor re-sent; Y-CARRY - that test is 'alarm is None', so the loss path must cancel and reset the alarm "
    "of every entry of each such registry on every path (no early exit from the loop, no skipped entry). NOT decided: the "
    "release of held-back messages as the window allows. Y-SAME - the resume branch encodes no carried-over request again: what is re-sent is the packet encoded when publish() accepted the message, not the payload object as the caller has left it since. Y-HOOK - the application's onMqttConnectionMade hook runs after the purge / resume, so what it requests is not taken for a leftover. "
    " Y-MARK - nothing but the loss path resets the alarm of an entry that stays registered (alarm is None is the carried-over mark); the refill's first transmission of a held-back request at the CONNACK is neither a failure nor a repeat.")
ASSUMPTIONS = []

PUB_REGS = ["queuePublishTx", "windowPublish", "windowPubRelease"]


def _first_transmission(un, evs):
    """The refill: an entry taken from the head of the queue and written in the same iteration is being sent for the first time,
    which is what a request made before the CONNACK is owed - neither a failure nor a repeat."""
    el = un.a.get("elem")
    return un.a.get("how") == "popleft" and el is not None and any(y.kind == "WRITE" and written_object(y.a["data"])[1] == el for y in evs) \
        and not any(y.kind == "FIRE" and isinstance(y.a["dfr"], tuple) and y.a["dfr"][0] == "attr" and y.a["dfr"][1] == el for y in evs)


def check(ctx):
    a = ctx.a
    caps, pm, _ = capabilities(a)
    classes = [c for c in a.protos if "pub" in caps.get(c.qual, set())]
    ctx.floor("publisher-capable classes", len(classes), 2)
    # the session state lives in the factory's per-address containers: the protocol built for the reconnection must find them
    from .c19 import build_overwrites
    ow = build_overwrites(a)
    for reg in PUB_REGS:
        e = ow.get(reg)
        ctx.ob("Y-KEEP", "buildProtocol keeps the %s an address already has" % reg, e is None, where=where(e) if e is not None else "src/mqtt/client/factory.py",
               function=e.func if e is not None else "", construct="buildProtocol/%s/replaced" % reg,
               msg="buildProtocol replaces the container of %s for an address that already has one: the session state kept by a "
                   "non-clean loss is gone when the next connection is made" % reg)
    n = 0
    for cls in classes:
        cat = catalogue(a, cls)
        from .flows import rule_hook_after_session
        rule_hook_after_session(ctx, cat, "Y-HOOK", "what the hook requests on the new connection is resumed or purged as if an earlier connection had left it behind")
        cq = cls_short(cls.qual)
        lc = lifecycle(a, cls)
        from ..lifecycle import rule_session_field
        rule_session_field(ctx, cat, "Y-MODE", "cleanStart", "the session mode", 'a refused or rejected connect(), or a handler, changes the session mode under which the next loss and the next CONNACK treat the pending requests')
        ctx.ob("Y-MODE", "%s the session mode is recorded when connect() is accepted, before any loss can happen" % cq, lc.clean_at_connect,
               where=where(lc.clean_event) if lc.clean_event is not None else cls.module.path,
               function=lc.clean_event.func if lc.clean_event is not None else "", construct="session-mode/recorded-at-connect",
               msg="the field the loss path tests (self.%s) is not assigned from CONNECT's cleanStart on every accepting path of connect(): a connection "
                   "lost during the handshake is handled with the previous (or default) session mode" % lc.clean)
        ctx.ob("Y-SPLIT", "%s accepted CONNACK distinguishes clean and persistent sessions" % cq, bool(lc.ack_clean) and bool(lc.ack_persist),
               where=cls.module.path, construct="connack/clean-test", msg="clean: %d persistent: %d unsplit: %d" % (len(lc.ack_clean), len(lc.ack_persist), len(lc.ack_unsplit)))
        # Y1: a non-clean loss fires nothing
        for tr in lc.loss_persist + lc.loss_unsplit:
            fires = [e for e in tr.events if e.kind == "FIRE"]
            n += 1
            ctx.ob("Y-KEEP", "%s a non-clean loss fails no Deferred" % cq, not fires, where=where(fires[0]) if fires else cls.module.path,
                   function=fires[0].func if fires else "", construct="loss-persistent/fires",
                   msg="a Deferred is fired on the loss path although the session is persistent", trigger=tr.label())
            un = [e for e in tr.events if e.kind == "UNREG" and e.a["reg"] in PUB_REGS]
            ctx.ob("Y-KEEP", "%s a non-clean loss keeps the publish registries" % cq, not un, where=where(un[0]) if un else cls.module.path,
                   function=un[0].func if un else "", construct="loss-persistent/removals",
                   msg="entries leave %s on a non-clean loss" % (un[0].a["reg"] if un else ""), trigger=tr.label())
        # Y2: resume
        for tr in lc.ack_persist + lc.ack_unsplit:
            n += 1
            for reg in ("windowPubRelease", "windowPublish"):
                ok, lp = rearms(tr.path.events, reg)
                lps = loops_over(tr.path.events, reg)
                w = where(lps[0]) if lps else (where(tr.events[0]) if tr.events else cls.module.path)
                ctx.ob("Y-RESUME", "%s resume re-sends every entry of %s" % (cq, reg), ok, where=w, function=lps[0].func if lps else "",
                       construct="connack-persistent-resume/%s" % reg,
                       msg="on a persistent-session CONNACK the entries of %s are not all written again with a fresh timer" % reg,
                       trigger=tr.label())
                if ok:
                    it = lp.a.get("iter")
                    plain = isinstance(it, tuple) and (it[0] == "reg" or (it[0] == "call" and isinstance(it[1], tuple) and (
                        (it[1][0] == "attr" and it[1][2] in ("items", "values", "keys") and it[1][1][0] == "reg") or
                        (it[1][0] == "builtin" and it[1][1] in ("list", "tuple", "iter") and it[2] and _plain(it[2][0])))))
                    ctx.ob("Y-ORDER", "%s resume iterates %s in its original (insertion) order" % (cq, reg), plain, where=where(lp), function=lp.func,
                           construct="%s/resume-order/%s" % (lp.func, reg), msg="resume loop iterates over %s" % show(it))
            # "with its original payload": what is written again is the packet encoded when publish() accepted the message; encoding the
            # request again from its fields reads the payload object the caller handed in (a bytearray is kept by reference), as it is now
            renc = [e for e in tr.events if e.kind == "ENCODE" and isinstance(e.a["obj"], tuple) and e.a["obj"][0] in ("elem", "popped")]
            ctx.ob("Y-SAME", "%s resume writes the packets as they were encoded at publish()" % cq, not renc,
                   where=where(renc[0]) if renc else cls.module.path, function=renc[0].func if renc else "",
                   construct="%s/resume-re-encode" % (renc[0].func if renc else cls.qual), nontrivial=False,
                   msg="a carried-over request is encoded again from its fields on the resume branch: a payload handed in as a bytearray is read "
                       "as the caller has left it since, not as it was published", trigger=tr.label())
            fails = [e for e in tr.events if e.kind == "FIRE" and e.a["how"] == "errback" and isinstance(e.a["dfr"], tuple)
                     and e.a["dfr"][0] == "attr" and isinstance(e.a["dfr"][1], tuple) and e.a["dfr"][1][0] in ("elem", "popped")]
            ctx.ob("Y-RESUME", "%s nothing is failed when a session is resumed" % cq, not fails, where=where(fails[0]) if fails else cls.module.path,
                   function=fails[0].func if fails else "", construct="connack-persistent/fails", nontrivial=False,
                   msg="a pending request is failed on the resume branch")
        # Y3: purge on a clean CONNACK
        for tr in lc.ack_clean + lc.ack_unsplit:
            n += 1
            for reg in PUB_REGS:
                if not lc.loss_keeps(reg):
                    continue
                ok, fires = drains(tr.path.events, reg, True)
                lps = loops_over(tr.path.events, reg)
                w = where(lps[0]) if lps else (where(tr.events[0]) if tr.events else cls.module.path)
                ctx.ob("Y-PURGE", "%s clean CONNACK fails every carried-over entry of %s" % (cq, reg), ok, where=w,
                       function=lps[0].func if lps else "", construct="connack-clean-purge/%s" % reg,
                       msg="a non-clean loss keeps the entries of %s, but a following clean-session CONNACK does not remove and fail them "
                           "with MQTTSessionCleared: they are transmitted on the clean session / stay pending" % reg, trigger=tr.label())
                for f in fires:
                    ctx.ob("Y-PURGE", "%s carried-over entries of %s fail with MQTTSessionCleared" % (cq, reg),
                           (exc_class(f.a["arg"]) or "").endswith("MQTTSessionCleared"), where=where(f), function=f.func,
                           construct="%s/purge-reason/%s" % (f.func, reg), msg="purged with %s" % show(f.a["arg"]))
            resent = [e for e in tr.events if e.kind == "WRITE" and written_object(e.a["data"])[0] == "encoded"
                      and isinstance(written_object(e.a["data"])[1], tuple) and written_object(e.a["data"])[1][0] == "elem"]
            ctx.ob("Y-PURGE", "%s nothing carried over is re-sent on a clean session" % cq, not resent, where=where(resent[0]) if resent else cls.module.path,
                   function=resent[0].func if resent else "", construct="connack-clean/resend", nontrivial=False,
                   msg="a carried-over request is written on the clean branch")
        # Y-EXEMPT: what was requested on this very connection before its CONNACK is neither failed nor re-sent
        carried_regs = set()
        for tr in lc.connack_ok:
            for reg in PUB_REGS + ["windowSubscribe", "windowUnsubscribe"]:
                if not lc.reg_in(reg, "CONNECTING"):
                    continue       # nothing can enter this registry before the CONNACK
                for lp in loops_over(tr.path.events, reg):
                    for bp in lp.a["body"]:
                        evs = list(bp.walk())
                        touched = [e for e in evs if (e.kind == "WRITE" and any(isinstance(x, tuple) and x[:2] == ("elem", reg) for x in subterms(e.a["data"])))
                                   or (e.kind == "FIRE" and isinstance(e.a["dfr"], tuple) and e.a["dfr"][0] == "attr" and isinstance(e.a["dfr"][1], tuple)
                                       and e.a["dfr"][1][:2] == ("elem", reg))
                                   or (e.kind == "UNREG" and e.a["reg"] == reg and not _first_transmission(e, evs))]
                        if not touched:
                            continue
                        carried = False
                        for c in bp.conds[len(lp.conds):]:
                            t, pol = c.term, c.pol
                            while isinstance(t, tuple) and t and t[0] == "not":
                                t, pol = t[1], not pol
                            if isinstance(t, tuple) and t[0] == "nonnull" and isinstance(t[1], tuple) and t[1][0] == "attr" and is_alarm_field(t[1][2]) \
                                    and isinstance(t[1][1], tuple) and t[1][1][:2] == ("elem", reg) and pol is False:
                                carried = True
                            if isinstance(t, tuple) and t[0] == "attr" and is_alarm_field(t[2]) and isinstance(t[1], tuple) and t[1][:2] == ("elem", reg) and pol is False:
                                carried = True
                        if carried:
                            carried_regs.add(reg)
                        ctx.ob("Y-EXEMPT", "%s CONNACK %s only touches carried-over entries of %s" % (cq, "purge" if tr in lc.ack_clean else "resume", reg),
                               carried, where=where(touched[0]), function=touched[0].func,
                               construct="connack-%s/not-exempt/%s" % ("clean" if tr in lc.ack_clean else "persistent", reg),
                               msg="requests can enter %s on this connection before its CONNACK (publish() is honoured while CONNECTING), but the %s "
                                   "loop at CONNACK treats every entry alike: a request made before the CONNACK is %s although it does not belong to "
                                   "the earlier session (carried-over entries are recognisable: the loss path cleared their alarm)" % (
                                       reg, "purge" if tr in lc.ack_clean else "resume",
                                       "failed with MQTTSessionCleared" if tr in lc.ack_clean else "written a second time with DUP=1"),
                               trigger=tr.label())
        # Y-CARRY: the carried-over test is "alarm is None", so the loss path must leave the alarm of EVERY entry None
        # (cancelled and cleared); an entry it skips keeps a non-None alarm and is never re-sent / purged by the next CONNACK
        for reg in sorted(carried_regs):
            okc, okl = lc.loss_cancels(reg), lc.loss_clears(reg)
            fnc = lc.loss[0].entry.func if lc.loss else None
            ctx.ob("Y-CARRY", "%s the loss path clears the alarm of every entry of %s (what marks it as carried over)" % (cq, reg), okc and okl,
                   where="%s:%d" % (fnc.file, fnc.node.lineno) if fnc else cls.module.path, function=fnc.qual if fnc else "",
                   construct="loss/alarm-not-cleared/%s" % reg,
                   msg="the CONNACK code recognises carried-over entries of %s by alarm is None, but the loss path does not %s the alarm of every "
                       "entry on every path (early exit from the loop, or a skipped entry): such a request is taken for one made on the new "
                       "connection and is never re-sent (persistent session) or purged (clean session)" % (reg, "cancel" if not okc else "reset to None"))
        # Y-MARK: ... and nothing but the loss path may give an entry that stays in its registry that mark: a request of this very
        # connection whose alarm is reset to None elsewhere is taken for a carried-over one by the next CONNACK
        from ..handles import handles
        hd = handles(a, cls)
        ns = hd.none_stores()
        for reg in sorted(carried_regs):
            bad = []
            for tr, e in ns.get(("win", reg, "alarm"), []):
                if tr is None or tr.kind == "LOSS":
                    continue
                obj = e.a["obj"]
                evs = tr.events
                later = evs[evs.index(e) + 1:] if e in evs else []
                if isinstance(obj, tuple) and obj and obj[0] == "new":
                    continue       # the constructor's / the API's initial value, before the request is registered and sent
                if any(x.kind == "UNREG" and x.a["reg"] == reg for x in evs):
                    continue       # the entry leaves the registry
                if any(x.kind == "SETATTR" and x.a["obj"] == obj and x.a["field"] == e.a["field"] and x.a["val"] != NONE for x in later):
                    continue       # re-armed on the same path
                bad.append((tr, e))
            seen_m = set()
            for tr, e in bad:
                if (e.func, tr.kind) in seen_m:
                    continue
                seen_m.add((e.func, tr.kind))
                ctx.ob("Y-MARK", "%s only the loss path marks an entry of %s as carried over (%s)" % (cq, reg, tr.label()), False, where=where(e),
                       function=e.func, construct="%s/alarm-cleared-elsewhere/%s/%s" % (e.func, reg, tr.kind),
                       msg="the alarm of an entry of %s is reset to None in context %s while the entry stays registered: alarm is None is what "
                           "the CONNACK code takes for 'left behind by an earlier connection', so a request made on this connection is "
                           "re-sent with DUP=1 by the resume or failed with MQTTSessionCleared by the purge" % (reg, tr.label()))
            if not bad:
                ctx.ob("Y-MARK", "%s only the loss path marks an entry of %s as carried over" % (cq, reg), True, where=cls.module.path,
                       construct="%s/alarm-cleared-elsewhere/%s" % (cls.qual, reg), nontrivial=False)
        # resume / purge code only reachable from an accepted CONNACK (and the purge also from the loss path)
        for tr in contexts(cat):
            if tr in lc.connack_ok or tr.kind == "LOSS":
                continue
            for e in tr.events:
                if e.kind == "LOOP" and e.a["lkind"] == "for" and any(loops_over([e], r) for r in ("windowPublish", "windowPubRelease")):
                    body = [x for bp in e.a["body"] for x in bp.walk()]
                    if any(x.kind in ("WRITE", "FIRE") for x in body):
                        ctx.ob("Y-WHO", "%s whole-window re-send/purge only at CONNACK or loss (%s)" % (cq, tr.label()), False, where=where(e),
                               function=e.func, construct="%s/window-sweep/%s" % (e.func, tr.label()),
                               msg="a loop over a whole publish registry writes or fires in context %s" % tr.label())
        # Y4: publish honoured while CONNECTING
        pub_connecting = [tr for tr in contexts(cat) if tr.kind == "API" and tr.name == "publish" and tr.slot == "CONNECTING"
                          and any(e.kind == "REG" and e.a["reg"] == "queuePublishTx" for e in tr.events)]
        ctx.ob("Y-EARLY", "%s publish() is honoured before the CONNACK" % cq, bool(pub_connecting), where=cls.module.path,
               construct="%s/publish-connecting" % cls.qual, msg="publish() is refused while CONNECTING")
    ctx.count("session_paths", n)
    ctx.floor("session paths analysed", n, 6)
    ctx.note("exemption of requests made before the CONNACK from resume/purge is not decided (seen by reading: D8/D9 family)")


def _plain(t):
    return isinstance(t, tuple) and (t[0] == "reg" or (t[0] == "call" and isinstance(t[1], tuple) and t[1][0] == "attr"
                                                        and t[1][2] in ("items", "values", "keys") and t[1][1][0] == "reg"))
