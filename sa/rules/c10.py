"""C10: send window bounds in-flight publishes; queue is FIFO and strands no message."""
from ..model import AnalysisError
from ..terms import SELF, FAC, NONE, show, is_const, mentions, subterms
from ..catalogue import catalogue, is_effect
from .common import where, cls_short, contexts, capabilities, types, short, written_object
from .flows import post_dispatch, elem_reg
from .c20 import reject_info

EXPLANATION = (
    "Window and queue discipline decided from the shape of the code on every abstract path: the publish window is "
    "inserted into only inside a refill loop whose every insertion is bounded by a test of len(window) against the current "
    "window size re-evaluated after the previous insertion (while-form), or by a counted loop over min(window-len, "
    "len(queue)) in which EVERY iteration occupies a slot (otherwise an iteration consumes budget without filling the "
    "window and strands queued messages); the queue is touched only by append in publish() and popleft in the refill loop "
    "(no appendleft/pop/insert/remove/rotate/clear), every popped entry is written exactly once in its iteration; publish() "
    "never rejects for window reasons; the refill runs after the append in publish() and after the removal in the PUBACK "
    "and PUBCOMP handlers. Decides these structural clauses; the numeric bound over histories is not explored. "
    " W-TRIGGER also covers every other packet that frees window slots while the connection stays up (the purge at a clean CONNACK): the refill follows, unless the path was taken under 'queue empty' or the exchange only moved to the release window (PUBREC). W-MODE - the session mode under which a loss keeps or purges queue and window is recorded by the accepted connect() only. W-COUNT - an entry leaves the publish window only with its exchange (Deferred fired, handed to the PUBREL, or the entry registered again): what is dropped silently is on the wire and no longer counted. W-FIFO also: the queue is an unbounded deque - no deque built in a function that handles queuePublishTx has a maxlen (a full bounded deque drops from the other end on append).")
ASSUMPTIONS = []

W, Q = "windowPublish", "queuePublishTx"


def mentions_len(t, reg):
    for x in subterms(t):
        if isinstance(x, tuple) and len(x) > 2 and x[0] == "call" and x[1] == ("builtin", "len") and isinstance(x[2], tuple) and len(x[2]) == 1 \
                and isinstance(x[2][0], tuple) and x[2][0][:2] == ("reg", reg):
            return True
    return False


def while_bounds(test):
    """Does the loop test contain len(W) < self._window (any equivalent ordering form) as a conjunct?"""
    win = ("attr", SELF, "_window")
    def conj(t):
        if isinstance(t, tuple) and t[0] == "boolop" and t[1] == "And":
            for x in t[2]:
                yield from conj(x)
        else:
            yield t
    for c in conj(test):
        neg = False
        while isinstance(c, tuple) and c[0] == "not":
            c, neg = c[1], not neg
        if isinstance(c, tuple) and c[0] == "cmp":
            op, l, r = c[1], c[2], c[3]
            if mentions_len(l, W) and r == win and ((op == "<" and not neg) or (op == ">=" and neg)):
                return True
            if mentions_len(r, W) and l == win and ((op == ">" and not neg) or (op == "<=" and neg)):
                return True
            # the same bound as a credit: window - len(W) > 0  /  >= 1  (and the negations)
            if isinstance(l, tuple) and l[:2] == ("binop", "Sub") and l[2] == win and mentions_len(l[3], W) and is_const(r):
                if (op == ">" and r[1] == 0 and not neg) or (op == ">=" and r[1] == 1 and not neg) or (op == "<=" and r[1] == 0 and neg) \
                        or (op == "<" and r[1] == 1 and neg) or (op == "!=" and r[1] == 0 and not neg and False):
                    return True
    return False


def inserts_bounded(lp):
    """Every insertion into the window inside the loop body is control-dependent on len(W) < self._window tested in the same
    iteration (loop test or a guard with break/continue/return before the insertion)."""
    seen = False
    for bp in lp.a["body"]:
        for r in bp.walk():
            if r.kind == "REG" and r.a["reg"] == W:
                seen = True
                mine = r.conds[len(lp.conds):]
                if not any(while_bounds(c.term if c.pol else ("not", c.term)) for c in mine):
                    return False
    return seen


def find_refill_loops(events):
    out = []
    for e in events:
        if e.kind == "LOOP":
            if any(x.kind == "REG" and x.a["reg"] == W for bp in e.a["body"] for x in bp.events):
                out.append(e)
            for bp in e.a["body"]:
                out.extend(find_refill_loops(bp.events))
    return out


def check(ctx):
    a = ctx.a
    ty = types(a)
    caps, pm, _ = capabilities(a)
    classes = [c for c in a.protos if "pub" in caps.get(c.qual, set())]
    ctx.floor("publisher-capable classes", len(classes), 2)
    # what is queued or in flight belongs to the address, not to the protocol object: a protocol built for a known address (a
    # reconnection resuming the session) inherits it, so buildProtocol must not replace the containers an address already has
    from .c19 import build_overwrites
    from .common import where as _where
    ow = build_overwrites(a)
    for reg in (Q, W):
        e = ow.get(reg)
        ctx.ob("W-KEEP", "buildProtocol keeps the %s an address already has" % reg, e is None, where=_where(e) if e is not None else "src/mqtt/client/factory.py",
               function=e.func if e is not None else "", construct="buildProtocol/%s/replaced" % reg,
               msg="buildProtocol stores %s for the address whether or not it already has one: on a reconnection the messages %s are "
                   "dropped - accepted, never sent, their Deferreds never fire" % (
                       show(e.a["val"]) if e is not None else "", "held back in the queue" if reg == Q else "in flight"))
    # "accepted and held back, never rejected or dropped": the queue must take any number of messages.  A deque built with a maxlen
    # discards from the other end when it is full - silently: what publish() appended evicts the oldest message held back
    import ast as _ast
    bounded = []
    nq = 0
    for mod in a.prog.modules.values():
        if not mod.name.startswith("mqtt.client"):
            continue
        fns = list(mod.funcs.values()) + [m for c in mod.classes.values() for m in c.methods.values()]
        for fn in fns:
            if not any(isinstance(x, _ast.Attribute) and x.attr == Q for x in _ast.walk(fn.node)):
                continue
            for x in _ast.walk(fn.node):
                if isinstance(x, _ast.Call) and (getattr(x.func, "id", None) == "deque" or getattr(x.func, "attr", None) == "deque"):
                    nq += 1
                    ml = [k.value for k in x.keywords if k.arg == "maxlen"] + list(x.args[1:2])
                    if ml and not (isinstance(ml[0], _ast.Constant) and ml[0].value is None):
                        bounded.append((fn, x))
    for fn, x in bounded:
        ctx.ob("W-FIFO", "the queue of held-back messages is unbounded", False, where="%s:%d" % (fn.file, x.lineno), function=fn.qual,
               construct="%s/bounded-queue" % fn.qual,
               msg="the container of %s is created as %s: a full deque with maxlen drops an element from the opposite end on every append - "
                   "a message that publish() accepted is discarded unsent, its Deferred never fires" % (Q, _ast.unparse(x)))
    if not bounded:
        ctx.ob("W-FIFO", "the queue of held-back messages is unbounded (%d deque constructions)" % nq, True, where="src/mqtt/client/factory.py",
               construct="queue/unbounded", nontrivial=False)
    # (the floor counts mentions of deque in the factory module - a refactoring may hand the constructor over uncalled, as a slot maker)
    fmod = a.prog.modules.get("mqtt.client.factory")
    nref = sum(1 for x in _ast.walk(fmod.tree) if (isinstance(x, _ast.Name) and x.id == "deque") or (isinstance(x, _ast.Attribute) and x.attr == "deque")) if fmod else 0
    ctx.floor("mentions of deque in the factory module", nref, 1)
    nloops = 0
    for cls in classes:
        cat = catalogue(a, cls)
        # "no more PUBLISH awaiting their first acknowledgement than the window size": the window counts what is in it, so an entry may leave
        # it only when its exchange moves on - its Deferred fired, handed to the PUBREL that replaces it, or the entry registered again.  An
        # entry dropped silently is still on the wire and no longer counted
        from .flows import rule_drop, mark_qos0_exception
        mark_qos0_exception(cat)
        rule_drop(ctx, cat, prefix="W-COUNT")
        cq = cls_short(cls.qual)
        seen_loops = {}
        # held-back and in-flight messages of a persistent session survive a loss only if the loss is handled under that
        # connection's session mode: "accepted and held back, never rejected or dropped"
        from ..lifecycle import rule_session_field
        rule_session_field(ctx, cat, "W-MODE", "cleanStart", "the session mode",
                           "a loss during the handshake of a persistent session is handled as a clean one: the queue and the window it "
                           "inherited are purged, accepted messages never reach the wire")
        for tr in contexts(cat):
            loops = find_refill_loops(tr.path.events)
            # every insertion into the window happens inside such a loop
            top_regs = [e for e in tr.path.events if e.kind == "REG" and e.a["reg"] == W]
            for e in top_regs:
                ctx.ob("W-BOUND", "%s window insertion is bounded (%s)" % (cq, tr.label()), False, where=where(e), function=e.func,
                       construct="%s/unbounded-insert" % e.func, msg="insertion into the publish window outside a bounded refill loop")
            for lp in loops:
                key = (lp.file, lp.line)
                nloops += 1
                first_time = key not in seen_loops
                seen_loops[key] = lp
                normal = [bp for bp in lp.a["body"] if bp.exit_kind() in ("fall", "continue")]
                if lp.a["lkind"] == "while":
                    ok = while_bounds(lp.a.get("test")) or inserts_bounded(lp)
                    ctx.ob("W-BOUND", "%s refill loop re-tests len(window) < window size before every insertion (%s)" % (cq, tr.label()), ok,
                           where=where(lp), function=lp.func, construct="%s/refill/while-test" % lp.func,
                           msg="refill loop condition %s does not bound the window" % show(lp.a.get("test")))
                else:
                    it = lp.a.get("iter")
                    bound_ok = isinstance(it, tuple) and it[0] == "call" and it[1] == ("builtin", "range") and \
                        any(isinstance(x, tuple) and x[0] == "call" and x[1] == ("builtin", "min") and
                            any(_is_free_slots(y) for y in x[2]) for x in subterms(it))
                    ctx.ob("W-BOUND", "%s counted refill loop is bounded by the free slots of the window (%s)" % (cq, tr.label()), bound_ok,
                           where=where(lp), function=lp.func, construct="%s/refill/count-bound" % lp.func,
                           msg="refill loop iterates over %s, which is not min(window - len(window), ...)" % show(it))
                    every = all(any(x.kind == "REG" and x.a["reg"] == W for x in bp.events) for bp in normal)
                    ctx.ob("W-BUDGET", "%s every iteration of the counted refill loop occupies a window slot (%s)" % (cq, tr.label()), every,
                           where=where(lp), function=lp.func, construct="%s/refill/loop-budget" % lp.func,
                           msg="the loop bound is computed once from the free slots, but an iteration (QoS 0 entry) is popped and counted "
                               "without entering the window: with window 1 and a QoS 1 message in flight, two queued QoS 0 messages get "
                               "one slot of budget and the second is stranded until some later acknowledgement")
                for bp in normal:
                    pops = [x for x in bp.events if x.kind == "UNREG" and x.a["reg"] == Q]
                    ctx.ob("W-FIFO", "%s each iteration takes exactly one entry from the head of the queue" % cq,
                           len(pops) == 1 and pops[0].a["how"] == "popleft", where=where(pops[0]) if pops else where(lp), function=lp.func,
                           construct="%s/refill/pop" % lp.func, msg="iteration removes %s from the queue" % [p.a["how"] for p in pops])
                    if len(pops) == 1:
                        x = pops[0].a["elem"]
                        ws = [y for y in bp.walk() if y.kind == "WRITE" and written_object(y.a["data"])[1] == x]
                        ctx.ob("W-ONCE", "%s a popped entry is transmitted exactly once" % cq, len(ws) == 1, where=where(pops[0]),
                               function=lp.func, construct="%s/refill/write-once" % lp.func, msg="popped entry is written %d times in its iteration" % len(ws))
                        regs = [y for y in bp.events if y.kind == "REG" and y.a["reg"] == W]
                        for r in regs:
                            ctx.ob("W-FIFO", "%s the entry put into the window is the popped one" % cq, r.a["val"] == x, where=where(r),
                                   function=lp.func, construct="%s/refill/insert-popped" % lp.func, nontrivial=False,
                                   msg="window receives %s, popped %s" % (show(r.a["val"]), show(x)))
            # queue discipline
            for e in tr.events:
                if e.kind in ("REG", "UNREG", "REGMUT") and e.a["reg"] == Q:
                    if e.kind == "REG":
                        ok = e.a["how"] == "append" and tr.kind == "API" and tr.name == "publish"
                    elif e.kind == "UNREG":
                        # taken from the head, and only to be transmitted (refill) or failed by the loss of a clean session: anywhere
                        # else an accepted, held-back message is dropped without ever being sent
                        el = e.a.get("elem")
                        sent = any(y.kind == "WRITE" and written_object(y.a["data"])[1] == el for y in tr.events)
                        ok = e.a["how"] == "popleft" and (sent or tr.kind == "LOSS")
                    else:
                        ok = False
                    ctx.ob("W-FIFO", "%s queue touched only by append (publish) and popleft (%s)" % (cq, tr.label()), ok, where=where(e),
                           function=e.func, construct="%s/queue-op/%s" % (e.func, e.a.get("how") or e.a.get("name")),
                           msg="queue operation %s in context %s breaks FIFO order" % (e.a.get("how") or e.a.get("name"), tr.label()))
                if e.kind == "SETATTR" and e.a["obj"] == FAC and e.a["field"] == Q:
                    ctx.ob("W-FIFO", "%s queue never re-bound" % cq, False, where=where(e), function=e.func, construct="%s/queue-rebound" % e.func)
            # publish(): accepted, never rejected for window reasons; refill after the append
            if tr.kind == "API" and tr.name == "publish" and tr.slot in ("CONNECTING", "CONNECTED"):
                r, c, how = reject_info(tr.path)
                if r:
                    ctx.ob("W-ACCEPT", "%s publish() is never rejected for window reasons" % cq, not (c or "").endswith("MQTTWindowError"),
                           where=where(tr.events[-1]), function=tr.events[-1].func, construct="%s.publish/window-rejection" % cls.qual,
                           msg="publish() fails with MQTTWindowError: calls beyond the window must be held back, not rejected")
                else:
                    ap = [e for e in tr.path.events if e.kind == "REG" and e.a["reg"] == Q]
                    idx = tr.path.events.index(ap[0]) if ap else -1
                    after_loops = [lp for lp in find_refill_loops(tr.path.events[idx + 1:])] if ap else []
                    ctx.ob("W-TRIGGER", "%s publish(): refill after queueing" % cq, bool(ap) and bool(after_loops),
                           where=where(ap[0]) if ap else where(tr.events[-1]), function=ap[0].func if ap else "",
                           construct="%s.publish/refill" % cls.qual, msg="accepted publish() does not run the refill after the append")
            if tr.kind == "NET" and tr.name in ("PUBACK", "PUBCOMP") and tr.slot == "CONNECTED" and tr.decode_ok:
                reg = W if tr.name == "PUBACK" else "windowPubRelease"
                un = [e for e in tr.path.events if e.kind == "UNREG" and e.a["reg"] == reg]
                all_un = [e for e in tr.events if e.kind == "UNREG" and e.a["reg"] == reg]
                if all_un:
                    idx = tr.events.index(all_un[0])
                    later = tr.events[idx + 1:]
                    has = any(x.kind == "LOOP" and any(y.kind == "REG" and y.a["reg"] == W for bp in x.a["body"] for y in bp.events) for x in later) \
                        or _queue_known_empty(tr.path.conds)      # a guard "anything waiting?" in front of the refill
                    ctx.ob("W-TRIGGER", "%s %s: refill after the entry is removed" % (cq, tr.name), has, where=where(all_un[0]),
                           function=all_un[0].func, construct="%s/%s/refill" % (all_un[0].func, tr.name),
                           msg="%s handler frees a slot without refilling the window from the queue" % tr.name)
            # any other packet that frees window slots while the connection stays up (the purge of an inherited session at a clean
            # CONNACK): what publish() queued behind those slots must be sent now, no acknowledgement is left to trigger it later
            if tr.kind == "NET" and tr.name not in ("PUBACK", "PUBCOMP") and tr.slot in ("CONNECTING", "CONNECTED") and tr.decode_ok \
                    and not any(e.kind == "CLOSE" for e in tr.events) and tr.path.exit_kind() != "raise":
                top = tr.events
                first = None
                for i, e in enumerate(top):
                    inner = [e] if e.kind == "UNREG" else ([y for bp in e.a["body"] for y in bp.walk()] if e.kind == "LOOP" else [])
                    hit = [y for y in inner if y.kind == "UNREG" and y.a["reg"] == W]
                    if hit:
                        first = (i, hit[0])
                        break
                # PUBREC moves the exchange to the release window: still outstanding, its PUBCOMP refills
                moved = first is not None and any(y.kind == "REG" and y.a["reg"] == "windowPubRelease" for y in top[first[0] + 1:])
                if first is not None and not moved:
                    later = top[first[0] + 1:]
                    has = bool(find_refill_loops(later)) or _queue_known_empty(tr.path.conds)
                    ctx.ob("W-TRIGGER", "%s %s: refill after window entries are removed" % (cq, tr.name), has, where=where(first[1]),
                           function=first[1].func, construct="%s/%s/refill" % (first[1].func, tr.name),
                           msg="%s handling frees window slots (connection stays up) without refilling the window from the queue: a "
                               "publish() held back behind those slots stays unsent with nothing outstanding to trigger it" % tr.name)
        ctx.count("refill_loop_sites", len(seen_loops))
    ctx.floor("refill loop instances over contexts", nloops, 2)


def _queue_known_empty(conds):
    """The path was taken under 'nothing is held back' (a guard around the refill call): if q / if len(q) > 0 / if len(q) != 0 false,
    if not q / len(q) == 0 true."""
    for c in conds:
        t, pol = c.term, c.pol
        while isinstance(t, tuple) and t and t[0] == "not":
            t, pol = t[1], not pol
        if isinstance(t, tuple) and t[:2] == ("reg", Q) and pol is False:
            return True
        if isinstance(t, tuple) and t[0] == "cmp" and mentions_len(t[2], Q) and t[2][0] == "call" and is_const(t[3]):
            op, k = t[1], t[3][1]
            if (op, k, pol) in ((">", 0, False), ("!=", 0, False), (">=", 1, False), ("==", 0, True), ("<", 1, True), ("<=", 0, True)):
                return True
    return False


def _is_free_slots(t):
    """self._window - len(W)"""
    return isinstance(t, tuple) and t[0] == "binop" and t[1] == "Sub" and t[2] == ("attr", SELF, "_window") and mentions_len(t[3], W)
