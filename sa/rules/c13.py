"""C13: settled requests and lost connections stay silent - no stray timers or writes."""
from ..model import AnalysisError
from ..terms import SELF, FAC, NONE, show, is_const, mentions, subterms
from ..fieldroles import is_alarm_handle
from ..catalogue import catalogue, is_effect
from ..lifecycle import lifecycle, cancels, loop_over
from ..handles import handles, TIMED
from .common import where, cls_short, contexts, capabilities, types, short, written_object
from .c08 import region_events, regions

EXPLANATION = (
    "Timer-handle typestate (NONE/PENDING/FIRED) per handle location, decided per trigger context with the lifecycle "
    "table: R-CANCEL - every removal of a request from one of the four timed windows is preceded on its path by the "
    "cancellation of that request's alarm, or happens in a context where the table gives every element a handle that is "
    "not pending (after the loss path's cancel loops; at a clean CONNACK only if no request can enter the window before "
    "CONNACK); R-ARM - a retry alarm is overwritten only when the old handle is not pending (object created on the path, "
    "own timer callback, entry popped from the queue, or an explicit cancel / carried-over-only registry); R-LOSS - the "
    "loss closure stops/cancels and clears every handle location before returning to IDLE on every path; fired handles - "
    "a timer callback that leaves its own handle stored while later code cancels it without .active(); keepalive 0 arms no "
    "keepalive timer. R-LOSS also: a cancel() on a handle that can be None whose AttributeError is swallowed by a handler around the loop (or in front of later cancels) abandons the clean-up - reported here; a try per entry is not. Decides these structural clauses; silence over virtual time is not observed.")
ASSUMPTIONS = ["DelayedCall.cancel() raises on a call that already fired or was cancelled; LoopingCall.stop() ends the loop"]


def timer_discipline(ctx, a, cls, regs=TIMED, r_cancel="R-CANCEL", r_arm="R-ARM"):
    """R-CANCEL and R-ARM for the given registries of one protocol class. Returns (removals, alarm stores) seen."""
    n_unreg = n_arm = 0
    cat = catalogue(a, cls)
    cq = cls_short(cls.qual)
    lc = lifecycle(a, cls)
    hd = handles(a, cls)
    if True:
        for tr in contexts(cat):
            if not tr.decode_ok:
                continue
            top = tr.path.events
            for rpath in regions(tr.path):
                region = rpath.events
                rfacts = rpath.st.facts if rpath.st is not None else {}
                for i, e in enumerate(region):
                    # ---------------- R-CANCEL ----------------
                    if e.kind == "UNREG" and e.a["reg"] in regs:
                        reg = e.a["reg"]
                        n_unreg += 1
                        el = e.a.get("elem") or (("elem", reg, e.a["key"]) if e.a["key"] is not None else None)
                        cancelled = el is not None and any(x.kind == "CANCEL" and is_alarm_handle(x.a["handle"], el) for x in region)
                        why = None
                        if cancelled:
                            why = "cancelled on the path"
                        elif el is not None and any(isinstance(k, tuple) and k[0] in ("nonnull", "truthy") and v is False
                                                    and is_alarm_handle(k[1], el) for k, v in rfacts.items()):
                            why = "handle tested None on this arm"
                        elif tr.kind == "LOSS":
                            # after the loss closure's own cancel loop for this registry
                            idx = _top_index(top, e, region)
                            ok, lp = cancels(top[:idx], reg)
                            if ok:
                                why = "after the cancel loop of the loss path"
                        elif tr.kind == "NET" and tr.name == "CONNACK":
                            if lc.loss_cancels(reg) and not lc.reg_in(reg, "CONNECTING") and not lc.reg_in(reg, "IDLE"):
                                why = "carried-over entries only, their alarms were cancelled at the loss"
                        ctx.ob(r_cancel, "%s removal from %s leaves no live timer (%s in %s)" % (cq, reg, short(e.func), tr.label()),
                               why is not None, where=where(e), function=e.func, construct="%s/uncancelled-removal/%s/%s" % (e.func, reg, tr.kind if tr.kind != "NET" else tr.label()),
                               msg="a request is removed from %s without its retry timer being cancelled, in a context where the timer can be "
                                   "pending (%s): the timer later re-sends a request that was already settled" % (reg, tr.label()),
                               trigger=tr.label())
                    # ---------------- R-ARM ----------------
                    if e.kind == "SETATTR" and isinstance(e.a["val"], tuple) and e.a["val"][0] == "timer":
                        loc = hd.obj_location(e.a["obj"], tr)
                        if loc is None or loc[0] != "win" or loc[1] not in regs:
                            continue
                        reg = loc[1]
                        obj = e.a["obj"]
                        n_arm += 1
                        h = ("attr", obj, e.a["field"])
                        why = None
                        if obj[0] == "new":
                            why = "request created on this path"
                        elif obj[0] == "popped":
                            why = "entry just taken from the queue (never armed)"
                        elif tr.kind == "TIMER" and obj[0] == "param":
                            why = "own timer callback (handle has fired)"
                        elif any(x.kind == "CANCEL" and x.a["handle"] == h for x in region[:i]):
                            why = "cancelled before re-arming"
                        elif e.a["prev"] == h and (_was_none(rpath, h, e)):
                            why = "handle tested None on this arm"
                        elif tr.kind == "NET" and tr.name == "CONNACK":
                            if lc.loss_cancels(reg) and not lc.reg_in(reg, "CONNECTING") and not lc.reg_in(reg, "IDLE"):
                                why = "carried-over entries only, their alarms were cancelled at the loss"
                        ctx.ob(r_arm, "%s retry alarm of %s is single (%s in %s)" % (cq, reg, short(e.func), tr.label()), why is not None,
                               where=where(e), function=e.func, construct="%s/double-arm/%s/%s" % (e.func, reg, tr.kind if tr.kind != "NET" else tr.label()),
                               msg="the alarm of an entry of %s is overwritten while the old timer can still be pending (%s): two live timers "
                                   "drive one packet and the stale one re-sends it early" % (reg, tr.label()), trigger=tr.label())
    return n_unreg, n_arm


def check(ctx):
    a = ctx.a
    # "a single retry timer, never a second, stale one": timers are cancelled through the registry entry they belong to, so an entry must not
    # be overwritten while its request is unfinished - which is what happens when the allocator hands out an identifier still in use
    from .common import run_premise
    run_premise(ctx, "C17", "R-IDS", "identifiers", "an identifier names at most one unfinished exchange",
                "a request registered under the identifier of an unfinished one overwrites its entry: the first request's retry timer can no "
                "longer be reached by an acknowledgement, a loss or a purge and keeps writing for ever")
    caps, pm, _ = capabilities(a)
    n_unreg = n_arm = 0
    for cls in a.protos[1:]:
        cat = catalogue(a, cls)
        cq = cls_short(cls.qual)
        lc = lifecycle(a, cls)
        hd = handles(a, cls)
        u, r = timer_discipline(ctx, a, cls)
        n_unreg += u
        n_arm += r
        # a request whose Deferred has fired is settled: if it stays in a window or in the queue, the resume loop, the refill or a
        # retry timer writes it again later - so on every path that fires the Deferred of a registry entry, the entry leaves its
        # registry on that path
        from .flows import rule_fire_once
        rule_fire_once(ctx, cat, prefix="R-SETTLED")
        # ---------------- R-LOSS ----------------
        for tr, what, ok, ev in hd.loss_obligations():
            fn = tr.entry.func
            ctx.ob("R-LOSS", "%s %s" % (cq, what), ok, where=where(ev) if ev is not None else "%s:%d" % (fn.file, fn.node.lineno),
                   function=fn.qual, construct="%s/loss/%s" % (cls.qual, what), nontrivial=False,
                   msg="connectionLost: %s does not hold on a path" % what)
        # the loss closure does not arm anything but the disconnection notification
        for tr in lc.loss:
            for e in tr.events:
                if e.kind == "ARM":
                    tgt = e.a["target"]
                    ok = tgt == ("attr", SELF, "onDisconnection")
                    ctx.ob("R-LOSS", "%s loss path schedules only the onDisconnection notification" % cq, ok, where=where(e),
                           function=e.func, construct="%s/loss/arms" % e.func, nontrivial=False,
                           msg="connectionLost arms %s" % show(tgt))
                if e.kind == "WRITE":
                    ctx.ob("R-LOSS", "%s nothing is written on the loss path" % cq, False, where=where(e), function=e.func,
                           construct="%s/loss/write" % e.func, msg="connectionLost writes to the dead transport")
        # a cancel() on a handle that can be None whose AttributeError is caught: nothing escapes, but what the exception skips is not done
        skipped = set()
        for tr, e, loc, why, skips in hd.none_deref_caught():
            if skips is None or tr.kind != "LOSS" or (e.func, loc) in skipped:
                continue
            skipped.add((e.func, loc))
            ctx.ob("R-LOSS", "%s loss path cancels every retry alarm" % cq, False, where=where(e), function=e.func,
                   construct="%s/loss/abandoned-at-none-handle/%s" % (e.func, ".".join(loc)),
                   msg="%s: cancel() raises AttributeError on it, the handler around it swallows the exception and %s - the retry timers of "
                       "the entries not reached stay armed and write to the lost transport" % (why, skips))
        # ---------------- fired handles ----------------
        seen = set()
        for ent, p, loc, tr, e in hd.fired_handles():
            k = (ent.func.qual, loc, e.func)
            if k in seen:
                continue
            seen.add(k)
            ctx.ob("H-FIRED", "%s %s leaves no fired handle behind" % (cq, short(ent.func.qual)), False, where=where(e), function=e.func,
                   construct="%s/fired-handle/%s/%s" % (ent.func.qual, ".".join(loc), short(e.func)),
                   msg="timer callback %s leaves its own (fired) handle stored in %s and %s later cancels it without .active(): "
                       "AlreadyCalled is raised and the remaining clean-up is skipped" % (short(ent.func.qual), ".".join(loc), short(e.func)),
                   trigger=tr.label())
        seen_ul = set()
        for tr, e, loc, tr2, e2 in hd.unstarted_loops():
            if (e.func, loc) in seen_ul or not (True):
                continue
            seen_ul.add((e.func, loc))
            ctx.ob("H-FIRED", "%s no periodic call is stored without being started (%s)" % (cq, tr.label()), False, where=where(e), function=e.func,
                   construct="%s/loop-created-not-started/%s" % (e.func, ".".join(loc)),
                   msg="%s creates the periodic call stored in %s without starting it; %s (%s) finds it not None and calls stop() on a loop that is not running: LoopingCall.stop() asserts - %s" % (tr.label(), ".".join(loc), tr2.label(), where(e2), 'the AssertionError skips the rest of the loss clean-up: the retry alarms of every window stay armed'))
        for tr, e, loc, tr2, e2 in hd.cancelled_kept():
            ctx.ob("H-FIRED", "%s %s leaves no cancelled handle behind" % (cq, tr.label()), False, where=where(e), function=e.func,
                   construct="%s/cancelled-handle-kept/%s" % (e.func, ".".join(loc)),
                   msg="%s cancels the handle in %s and leaves it stored; connectionLost (%s) cancels it again: AlreadyCancelled is raised "
                       "and the remaining clean-up (the retry alarms of every window) is skipped" % (tr.label(), ".".join(loc), where(e2)))
        if not seen:
          ctx.ob("H-FIRED", "%s no timer callback leaves a fired handle that is cancelled later" % cq, True, nontrivial=False,
               construct="%s/fired-handle/any" % cls.qual, where=cls.module.path)
        # ---------------- keepalive 0 arms nothing ----------------
        for tr in lc.connack_ok:
            loops = [e for e in tr.events if e.kind == "ARM" and e.a["how"] == "LoopingCall.start"]
            facts = tr.path.st.facts if tr.path.st is not None else {}
            for e in loops:
                guarded = any(isinstance(c.term, tuple) and c.term[0] == "cmp" and c.term[1] in ("!=", "==", ">") and
                              is_const(c.term[3]) and c.term[3][1] == 0 and "keepalive" in show(c.term[2]) and
                              (c.pol if c.term[1] in ("!=", ">") else not c.pol) for c in e.conds) or \
                    any("keepalive" in show(c.term) and c.pol and not (isinstance(c.term, tuple) and c.term[0] == "cmp") for c in e.conds)
                ctx.ob("K-ZERO", "%s keepalive loop started only for keepalive != 0" % cq, guarded, where=where(e), function=e.func,
                       construct="%s/keepalive-zero" % e.func, msg="keepalive LoopingCall is started without a keepalive != 0 test")
    ctx.count("timed_window_removals", n_unreg)
    ctx.count("alarm_overwrites", n_arm)
    ctx.floor("removals from timed windows over contexts", n_unreg, 4)
    ctx.floor("alarm stores over contexts", n_arm, 4)


def _top_index(top, e, region):
    """Index in the top-level event list of the event (or of the loop that contains it)."""
    if region is top:
        return top.index(e)
    for i, x in enumerate(top):
        if x.kind == "LOOP" and any(e in list(bp.walk()) for bp in x.a["body"]):
            return i
    return len(top)


def _was_none(rpath, h, e):
    """Did a branch condition active at event e establish that handle h is None?"""
    for c in e.conds:
        t, pol = c.term, c.pol
        while isinstance(t, tuple) and t and t[0] == "not":
            t, pol = t[1], not pol
        if isinstance(t, tuple) and t and t[0] == "nonnull" and t[1] == h and pol is False:
            return True
        if t == h and pol is False:
            return True
    return False
