"""Lower-bound (sign) analysis of the retry-interval classes: the delay handed to callLater is >= the initial timeout."""
import ast

from ..model import AnalysisError
from ..terms import SELF, is_const

# lattice, strongest first: I (>= initial, which is >= 1), ONE (>= 1), P (>= 0), U (unknown)
ORDER = {"I": 0, "ONE": 1, "P": 2, "U": 3}


def weaker(a, b):
    return a if ORDER[a] >= ORDER[b] else b


def stronger(a, b):
    return a if ORDER[a] <= ORDER[b] else b


def add(a, b):
    if "U" in (a, b):
        return "U"
    return stronger(a, b)


def mul(a, b):
    if "U" in (a, b):
        return "U"
    if "P" in (a, b):
        return "P"
    if a == "I" or b == "I":
        return "I"
    return "ONE"


def div(a, b):
    if "U" in (a, b):
        return "U"
    return "P"


def const_lb(v):
    if isinstance(v, bool) or not isinstance(v, (int, float)):
        return "U"
    if v >= 1:
        return "ONE"
    if v >= 0:
        return "P"
    return "U"


class IntervalBounds:
    def __init__(self, prog, cls, passed):
        """passed: param name -> lower-bound class of what callers pass (absent = default used)."""
        self.prog, self.cls, self.passed = prog, cls, passed
        self.attr = {}
        self.locals = {}
        self.init = cls.methods.get("__init__")
        self.call = cls.methods.get("__call__")
        if self.init is None or self.call is None:
            raise AnalysisError("anchor vanished: %s.__init__/__call__" % cls.qual)
        self.params = {}
        for fn in (self.init, self.call):
            for p in fn.params:
                if p == "self":
                    continue
                if fn is self.call:
                    self.params[(fn.name, p)] = "P"        # size of the packet: len(...)
                elif p == "initial":
                    self.params[(fn.name, p)] = "I"
                elif p in passed:
                    self.params[(fn.name, p)] = passed[p]
                elif p in fn.defaults:
                    ok, v = prog.try_fold(fn.defaults[p], cls.module)
                    self.params[(fn.name, p)] = const_lb(v) if ok else "U"
                else:
                    self.params[(fn.name, p)] = "U"
        # fixpoint over the attribute assignments of both methods
        for _ in range(6):
            changed = False
            for fn in (self.init, self.call):
                for x in ast.walk(fn.node):
                    tgt = val = None
                    if isinstance(x, ast.Assign) and len(x.targets) == 1:
                        tgt, val = x.targets[0], self.ev(x.value, fn)
                    elif isinstance(x, ast.AugAssign):
                        tgt = x.target
                        cur = self.ev(x.target, fn)
                        v = self.ev(x.value, fn)
                        val = {ast.Mult: mul, ast.Add: add, ast.Div: div, ast.FloorDiv: div}.get(type(x.op), lambda a, b: "U")(cur, v)
                    if tgt is not None and isinstance(tgt, ast.Name):
                        k = (fn.name, tgt.id)
                        old = self.locals.get(k)
                        new = val if old is None else weaker(old, val)
                        if new != old:
                            self.locals[k] = new
                            changed = True
                    if tgt is not None and isinstance(tgt, ast.Attribute) and isinstance(tgt.value, ast.Name) and tgt.value.id == "self":
                        old = self.attr.get(tgt.attr)
                        new = val if old is None else weaker(old, val)
                        if new != old:
                            self.attr[tgt.attr] = new
                            changed = True
            if not changed:
                break

    def ev(self, n, fn):
        if isinstance(n, ast.Constant):
            return const_lb(n.value)
        if isinstance(n, ast.Name):
            if (fn.name, n.id) in self.params:
                return self.params[(fn.name, n.id)]
            return self.locals.get((fn.name, n.id), "U")
        if isinstance(n, ast.Attribute) and isinstance(n.value, ast.Name) and n.value.id == "self":
            return self.attr.get(n.attr, "I" if n.attr == "initial" and False else self.attr.get(n.attr, "U"))
        if isinstance(n, ast.BinOp):
            a, b = self.ev(n.left, fn), self.ev(n.right, fn)
            if isinstance(n.op, ast.Add):
                return add(a, b)
            if isinstance(n.op, ast.Mult):
                return mul(a, b)
            if isinstance(n.op, (ast.Div, ast.FloorDiv)):
                return div(a, b)
            return "U"
        if isinstance(n, ast.Call):
            f = n.func
            if isinstance(f, ast.Name) and f.id in ("min", "max") and n.args:
                vals = [self.ev(a, fn) for a in n.args]
                out = vals[0]
                for v in vals[1:]:
                    out = weaker(out, v) if f.id == "min" else stronger(out, v)
                return out
            if isinstance(f, ast.Name) and f.id in ("len", "abs"):
                return "P"
            if isinstance(f, ast.Name) and f.id in ("float", "int") and n.args:
                return self.ev(n.args[0], fn)
            if isinstance(f, ast.Attribute) and f.attr in ("random", "uniform") and isinstance(f.value, ast.Name) and f.value.id == "random":
                return "P" if f.attr == "random" else "U"
            if isinstance(f, ast.Name) and f.id in self.cls.module.funcs and not n.keywords and getattr(self, "_depth", 0) < 3:
                # a helper function of the module: the weakest of its return expressions, its parameters bound to the arguments' bounds
                h = self.cls.module.funcs[f.id]
                if len(h.params) == len(n.args) and not any(isinstance(x, (ast.Assign, ast.AugAssign)) for x in ast.walk(h.node)):
                    saved = dict(self.params)
                    for p, a in zip(h.params, n.args):
                        self.params[(h.name, p)] = self.ev(a, fn)
                    self._depth = getattr(self, "_depth", 0) + 1
                    try:
                        out = None
                        for r in [x for x in ast.walk(h.node) if isinstance(x, ast.Return) and x.value is not None]:
                            v = self.ev(r.value, h)
                            out = v if out is None else weaker(out, v)
                    finally:
                        self._depth -= 1
                        self.params = saved
                    return out if out is not None else "U"
            return "U"
        if isinstance(n, ast.IfExp):
            return weaker(self.ev(n.body, fn), self.ev(n.orelse, fn))
        return "U"

    def result(self):
        rets = [x for x in ast.walk(self.call.node) if isinstance(x, ast.Return) and x.value is not None]
        if not rets:
            return "U", None
        out = None
        for r in rets:
            v = self.ev(r.value, self.call)
            out = v if out is None else weaker(out, v)
        return out, rets[0]


def passed_bounds(analysis, clsqual):
    """What the client code passes to the constructor of an interval class: param -> bound class."""
    from ..catalogue import catalogue
    out = {}
    n = 0
    for cls in analysis.protos[1:]:
        cat = catalogue(analysis, cls)
        for ent, p, e in cat.all_events("NEW"):
            if e.a["cls"] != clsqual:
                continue
            n += 1
            for k, v in e.a["kw"]:
                if k == "initial":
                    b = "I" if v == ("attr", SELF, "_initialT") else "U"
                elif is_const(v):
                    b = const_lb(v[1])
                elif isinstance(v, tuple) and v[:2] == ("attr", SELF) and v[2] in ("_factor", "_bandwith"):
                    b = "P"      # setBandwith accepts only values > 0 (C20)
                else:
                    b = "U"
                out[k] = b if k not in out else weaker(out[k], b)
            if e.a["args"]:
                out["<positional>"] = "U"
    return out, n


def shrinking_updates(cls):
    """Updates in __call__ that make the sequence of produced delays go down: the state an interval object carries from one call to
    the next (attributes assigned in __call__) may only be multiplied, added to or capped from above - a state attribute that is
    divided, subtracted from, shifted right or taken modulo, or that appears in a denominator or on the right of a minus, makes a
    later delay smaller than an earlier one (with the default factor 2 and every factor >= 1)."""
    call = cls.methods.get("__call__")
    if call is None:
        return []
    state = set()
    for x in ast.walk(call.node):
        tg = x.targets[0] if isinstance(x, ast.Assign) and len(x.targets) == 1 else (x.target if isinstance(x, ast.AugAssign) else None)
        if isinstance(tg, ast.Attribute) and isinstance(tg.value, ast.Name) and tg.value.id == "self":
            state.add(tg.attr)

    def mentions_state(n):
        return any(isinstance(y, ast.Attribute) and isinstance(y.value, ast.Name) and y.value.id == "self" and y.attr in state for y in ast.walk(n))
    out = []
    for x in ast.walk(call.node):
        if isinstance(x, ast.AugAssign) and isinstance(x.target, ast.Attribute) and isinstance(x.target.value, ast.Name) and x.target.value.id == "self" \
                and isinstance(x.op, (ast.Sub, ast.Div, ast.FloorDiv, ast.Mod, ast.RShift)):
            out.append((x, "self.%s %s= ..." % (x.target.attr, {ast.Sub: "-", ast.Div: "/", ast.FloorDiv: "//", ast.Mod: "%", ast.RShift: ">>"}[type(x.op)])))
        if isinstance(x, ast.BinOp) and isinstance(x.op, (ast.Sub, ast.Div, ast.FloorDiv, ast.Mod, ast.RShift)) and mentions_state(x.right):
            out.append((x, "state in %s" % ast.unparse(x)[:60]))
        if isinstance(x, ast.Assign) and len(x.targets) == 1 and isinstance(x.targets[0], ast.Attribute) and isinstance(x.value, ast.BinOp) \
                and isinstance(x.value.op, (ast.Sub, ast.Div, ast.FloorDiv, ast.Mod, ast.RShift)) and isinstance(x.value.left, ast.Attribute) \
                and isinstance(x.value.left.value, ast.Name) and x.value.left.value.id == "self" and x.value.left.attr == x.targets[0].attr:
            out.append((x, ast.unparse(x)[:60]))
    return out
