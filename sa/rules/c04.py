"""C04: connect() handshake outcome and connection-loss notification, exactly once each."""
from ..model import AnalysisError
from ..terms import SELF, FAC, NONE, show, is_const, mentions, subterms
from ..fieldroles import is_alarm_handle
from ..catalogue import catalogue, is_effect
from ..lifecycle import lifecycle
from ..handles import handles
from .common import equals_const, where, cls_short, contexts, capabilities, types, short, written_object, exc_class
from .flows import post_dispatch
from .c20 import reject_info

EXPLANATION = (
    "Path rules on the handshake and the loss closure of every protocol class: K1 - each accepting path of connect() "
    "writes exactly one CONNECT (the whole encode() result), then enters CONNECTING, arms one timeout whose delay is the "
    "request's keepalive with the constant fallback 10, and records the request; rejecting paths have no effect. K2 - the "
    "connect Deferred is fired at exactly three kinds of site: CONNACK rc=0 -> callback(session flag of the decoded "
    "packet) with CONNECTED; rc!=0 -> errback(MQTTStateError) with IDLE; timeout -> errback(MQTTTimeoutError) then close; "
    "every path through the CONNACK handler, exceptional ones included (unguarded index into the constant message table, "
    "None handles), fires exactly once, cancels the timeout first and disarms the holder. K3 - every path of the loss "
    "closure: keepalive stop, subclass clean-up, IDLE, then exactly one scheduled onDisconnection(reason) when a handler "
    "is set and none otherwise; no path leaves by exception, no fired handle is cancelled. Orderings of CONNACK, expiry "
    "and loss as behaviour are not explored. K0: the premises of the framing lemma (every rule of C03) hold, a necessary condition of anything said about inbound packets. "
    " K-MODE - the session mode the loss path consults is recorded by the accepted connect() only, before the CONNECT is written; K3 also refuses a handle cancelled on some path and left stored, which connectionLost would cancel again (AlreadyCancelled before the clean-up).")
ASSUMPTIONS = ["a transport delivers no dataReceived after abortConnection()"]

CONN = ("attr", SELF, "connReq")


def conn_owner(t, hd=None, tr=None):
    """Is t the connect request (as seen from handlers: self.connReq; from the timeout closure: the captured request; from a
    timeout method: the parameter whose class, by the arming sites, is CONNECT)?"""
    if t == CONN or (isinstance(t, tuple) and t and t[0] == "captured" and t[1] == "request"):
        return True
    return hd is not None and t is not None and hd.obj_location(t, tr) == ("conn",)


def index_hazards(evs):
    """CONSTSEQ events (non-constant index into a constant sequence) not dominated by a bound test."""
    out = []
    for e in evs:
        if e.kind != "CONSTSEQ":
            continue
        key, size = e.a["key"], e.a["size"]
        if any(x.kind == "CONSTMAP" and x.node is e.node for x in evs):
            continue    # a table of names: the walk itself forks the IndexError path there (handled or escaping, rule E3 sees it)
        guarded = False
        for c in e.conds:
            t, pol = c.term, c.pol
            while isinstance(t, tuple) and t and t[0] == "not":
                t, pol = t[1], not pol
            if isinstance(t, tuple) and t[0] == "cmp" and t[2] == key and is_const(t[3]) and isinstance(t[3][1], int):
                op, cst = t[1], t[3][1]
                if not pol:
                    op = {"<": ">=", "<=": ">", ">": "<=", ">=": "<", "==": "!=", "!=": "=="}.get(op, op)
                if (op == "<" and cst <= size) or (op == "<=" and cst < size) or (op == "==" and 0 <= cst < size):
                    guarded = True
        if not guarded:
            out.append(e)
    return out


def check(ctx):
    a = ctx.a
    from .c03 import framing_premise
    framing_premise(ctx, 'K0', 'a CONNACK that is mis-framed settles the connect request wrongly, late or never')
    ty = types(a)
    n_acc = n_ack = n_loss = 0
    for cls in a.protos:
        cat = catalogue(a, cls)
        eng = cat.eng
        cq = cls_short(cls.qual)
        hd = handles(a, cls)
        # "pending requests have been failed or preserved as the session mode demands": the mode the loss path consults must be
        # the one of this connection's CONNECT from the moment it is written, whatever becomes of the handshake
        from ..lifecycle import rule_session_field
        rule_session_field(ctx, cat, "K-MODE", "cleanStart", "the session mode",
                           "a connection lost (or refused, or timed out) during the handshake is cleaned up under the previous or the default "
                           "session mode: requests a persistent session must keep are failed, or requests a clean session must fail are kept")
        # ---------------- K1 ----------------
        for tr in contexts(cat):
            if not (tr.kind == "API" and tr.name == "connect" and tr.slot == "IDLE"):
                continue
            evs = post_dispatch(tr)
            r, c, how = reject_info(tr.path)
            ent = tr.entry
            w = "%s:%d" % (ent.func.file, ent.func.node.lineno)
            if r:
                eff = [e for e in evs if is_effect(e)]
                ctx.ob("K1", "%s connect(): a rejecting path has no effect" % cq, not eff, where=where(eff[0]) if eff else w,
                       function=ent.func.qual, construct="%s.connect/reject-effect" % cls.qual, nontrivial=False,
                       msg="rejected connect() has effect %s" % (eff[0].brief() if eff else ""))
                continue
            n_acc += 1
            ws = [e for e in evs if e.kind == "WRITE"]
            from .common import fresh_encoding
            okw = len(ws) == 1 and fresh_encoding(ws[0], evs) and \
                {x.split(".")[-1] for x in ty.class_of(written_object(ws[0].a["data"])[1], eng)} == {"CONNECT"}
            ctx.ob("K1", "%s connect() writes exactly one CONNECT" % cq, okw, where=where(ws[0]) if ws else w, function=ent.func.qual,
                   construct="%s.connect/write" % cls.qual, msg="%d writes on an accepting path of connect()" % len(ws))
            if not okw:
                continue
            req = written_object(ws[0].a["data"])[1]
            st = [e for e in evs if e.kind == "STATE"]
            ctx.ob("K1", "%s connect() enters CONNECTING after the write" % cq,
                   len(st) == 1 and st[0].a["slot"] == "CONNECTING" and evs.index(st[0]) > evs.index(ws[0]), where=where(st[0]) if st else w,
                   function=ent.func.qual, construct="%s.connect/state" % cls.qual, msg="state changes: %s" % [s.a["slot"] for s in st])
            arms = [e for e in evs if e.kind == "ARM"]
            okd = False
            if len(arms) == 1:
                d = arms[0].a["delay"]
                ka = ("param", "keepalive")
                ten = ("const", 10)

                def ka_truth(conds):
                    # what the path has decided about `keepalive` being non-zero when the timer is armed
                    for c in conds:
                        t, pol = c.term, c.pol
                        while isinstance(t, tuple) and t and t[0] == "not":
                            t, pol = t[1], not pol
                        if t == ka:
                            return pol
                        if isinstance(t, tuple) and t[:1] == ("cmp",) and t[2] == ka and t[3] == ("const", 0) and t[1] in ("==", "!=", ">"):
                            return pol if t[1] in ("!=", ">") else (not pol)
                    return None
                okd = d == ("boolop", "Or", (ka, ten))
                if isinstance(d, tuple) and d[0] == "ifexp":
                    test = d[3] if len(d) > 3 else None
                    okd = (d[1], d[2]) == (ka, ten) and test in (ka, ("cmp", "!=", ka, ("const", 0)), ("cmp", ">", ka, ("const", 0))) \
                        or (d[1], d[2]) == (ten, ka) and test in (("not", ka), ("cmp", "==", ka, ("const", 0)))
                # the same choice made by a branch before the timer is armed
                kt = ka_truth(arms[0].conds)
                if (d == ka and kt is True) or (d == ten and kt is False):
                    okd = True
            ctx.ob("K1", "%s connect() arms one timeout of `keepalive or 10` seconds" % cq, okd, where=where(arms[0]) if arms else w,
                   function=ent.func.qual, construct="%s.connect/timeout" % cls.qual,
                   msg="timeout armed: %s" % [show(x.a["delay"]) for x in arms])
            if arms:
                sa = [e for e in evs if e.kind == "SETATTR" and e.a["val"] == arms[0].a["handle"]]
                ctx.ob("K1", "%s connect() keeps the timeout handle on the request" % cq, bool(sa) and sa[0].a["obj"] == req,
                       where=where(arms[0]), function=ent.func.qual, construct="%s.connect/timeout-handle" % cls.qual, nontrivial=False,
                       msg="timeout handle is not stored on the request")
            hold = [e for e in evs if e.kind == "SETATTR" and e.a["obj"] == SELF and e.a["val"] == req]
            ctx.ob("K1", "%s connect() records the request until CONNACK or timeout" % cq, len(hold) == 1 and hold[0].a["field"] == "connReq",
                   where=where(hold[0]) if hold else w, function=ent.func.qual, construct="%s.connect/holder" % cls.qual,
                   msg="request recorded in %s" % [h.a["field"] for h in hold])
            ret = tr.path.exit[1] if tr.path.exit_kind() == "return" else None
            sd = [e for e in evs if e.kind == "SETATTR" and e.a["obj"] == req and e.a["field"] == "deferred"]
            ctx.ob("K1", "%s connect() returns the pending Deferred stored on the request" % cq,
                   isinstance(ret, tuple) and ret[0] == "dfr" and ret[2] == "plain" and bool(sd) and sd[-1].a["val"] == ret,
                   where=w, function=ent.func.qual, construct="%s.connect/deferred" % cls.qual, msg="returns %s" % show(ret))
        # ---------------- K2 ----------------
        for tr in contexts(cat):
            for e in tr.events:
                if e.kind == "FIRE":
                    d = e.a["dfr"]
                    own = d[1] if isinstance(d, tuple) and d[0] == "attr" else None
                    if not conn_owner(own, hd, tr):
                        continue
                    if tr.kind == "NET" and tr.name == "CONNACK" and tr.slot == "CONNECTING":
                        ok = True
                    elif tr.kind == "TIMER":
                        ok = e.a["how"] == "errback" and (exc_class(e.a["arg"]) or "").endswith("MQTTTimeoutError")
                        later = tr.events[tr.events.index(e) + 1:]
                        ok = ok and any(x.kind == "CLOSE" for x in later)
                    else:
                        ok = False
                    ctx.ob("K2", "%s connect Deferred fired only by CONNACK or the timeout (%s)" % (cq, tr.label()), ok, where=where(e),
                           function=e.func, construct="%s/connect-fire/%s" % (e.func, tr.label()),
                           msg="connect Deferred fired with %s(%s) in context %s" % (e.a["how"], show(e.a["arg"]), tr.label()))
        # the timeout closure armed by connect(): every path fails the Deferred with MQTTTimeoutError once and closes
        targets = set()
        for tr in contexts(cat):
            if tr.kind == "API" and tr.name == "connect":
                for e in tr.events:
                    if e.kind == "ARM":
                        key, func, _ = cat._target(e.a["target"])
                        if func is not None:
                            targets.add(func.qual)
        for tr in contexts(cat):
            if tr.kind == "TIMER" and tr.entry.func.qual in targets:
                fires = [e for e in tr.events if e.kind == "FIRE" and isinstance(e.a["dfr"], tuple) and e.a["dfr"][0] == "attr" and conn_owner(e.a["dfr"][1], hd, tr)]
                closes = [e for e in tr.events if e.kind == "CLOSE"]
                fnc = tr.entry.func
                okf = len(fires) == 1 and fires[0].a["how"] == "errback" and (exc_class(fires[0].a["arg"]) or "").endswith("MQTTTimeoutError") \
                    and bool(closes) and tr.path.exit_kind() != "raise"
                ctx.ob("K2", "%s CONNACK timeout fails the connect Deferred once and closes, on every path" % cq, okf,
                       where="%s:%d" % (fnc.file, fnc.node.lineno), function=fnc.qual, construct="%s/timeout-path" % fnc.qual,
                       msg="a path through the CONNACK-timeout callback fires the connect Deferred %d time(s) and closes %d time(s) (conditions %s): "
                           "e.g. after a connection loss during the handshake nothing else ever fires that Deferred" % (
                               len(fires), len(closes), [repr(c) for c in tr.path.conds]))
        for tr in contexts(cat):
            if not (tr.kind == "NET" and tr.name == "CONNACK" and tr.slot == "CONNECTING" and tr.decode_ok):
                continue
            n_ack += 1
            evs = post_dispatch(tr)
            dec = [e for e in tr.events if e.kind == "DECODE" and e.a["ok"]]
            resp = dec[0].a["obj"] if dec else None
            fn = evs[0].func if evs else ""
            w = where(evs[0]) if evs else cls.module.path
            if tr.path.exit_kind() == "raise":
                ctx.ob("K2", "%s CONNACK handler completes" % cq, False, where=w, function=fn, construct="%s/CONNACK/raises" % cls.qual,
                       msg="an exception (%s) escapes from the CONNACK handler: the connect Deferred never fires" % show(tr.path.exit[1]))
                continue
            hz = index_hazards(evs)
            for h in hz:
                ctx.ob("K2", "%s CONNACK handler: table index is bounded" % cq, False, where=where(h), function=h.func,
                       construct="%s/CONNACK/unguarded-index" % h.func,
                       msg="the message table of %d entries is indexed by the received return code without a bound test: reserved "
                           "return codes %d..255 raise IndexError after the state was changed and before the Deferred is fired" % (h.a["size"], h.a["size"]))
            fires = [e for e in evs if e.kind == "FIRE" and isinstance(e.a["dfr"], tuple) and e.a["dfr"][0] == "attr"
                     and conn_owner(e.a["dfr"][1], hd, tr)]
            st = [e for e in evs if e.kind == "STATE"]
            ok1 = len(fires) == 1
            ctx.ob("K2", "%s CONNACK fires the connect Deferred exactly once on every path" % cq, ok1, where=where(fires[0]) if fires else w,
                   function=fn, construct="%s/CONNACK/fire-count" % cls.qual, msg="%d fires on a path of the CONNACK handler" % len(fires))
            if not ok1:
                continue
            f = fires[0]
            facts = tr.path.st.facts if tr.path.st is not None else {}
            rc0 = equals_const(list(f.conds) + list(tr.path.conds), ("net", resp, "resultCode"), 0)
            if rc0 is True:
                ok = f.a["how"] == "callback" and f.a["arg"] == ("net", resp, "session") and len(st) == 1 and st[0].a["slot"] == "CONNECTED"
                ctx.ob("K2", "%s CONNACK rc=0: callback(session present) and CONNECTED" % cq, ok, where=where(f), function=f.func,
                       construct="%s/CONNACK/accepted" % f.func, msg="rc=0 path: %s(%s), state %s" % (f.a["how"], show(f.a["arg"]), [s.a["slot"] for s in st]))
            elif rc0 is False:
                ok = f.a["how"] == "errback" and (exc_class(f.a["arg"]) or "").endswith("MQTTStateError") and bool(st) and st[-1].a["slot"] == "IDLE"
                ctx.ob("K2", "%s CONNACK rc!=0: errback(MQTTStateError) and IDLE" % cq, ok, where=where(f), function=f.func,
                       construct="%s/CONNACK/refused" % f.func, msg="rc!=0 path: %s(%s), state %s" % (f.a["how"], show(f.a["arg"]), [s.a["slot"] for s in st]))
            else:
                ctx.ob("K2", "%s CONNACK handler distinguishes return code 0" % cq, False, where=where(f), function=f.func,
                       construct="%s/CONNACK/no-rc-test" % f.func, msg="the connect Deferred is fired on a path that does not test the return code")
            cn = [e for e in evs[:evs.index(f)] if e.kind == "CANCEL" and is_alarm_handle(e.a["handle"]) and conn_owner(e.a["handle"][1], hd, tr)]
            ctx.ob("K2", "%s CONNACK cancels the timeout before firing" % cq, len(cn) == 1, where=where(f), function=f.func,
                   construct="%s/CONNACK/cancel-timeout" % f.func, msg="the CONNACK timeout is not cancelled before the Deferred fires")
            dis = [e for e in evs if e.kind == "SETATTR" and e.a["obj"] == SELF and e.a["field"] == "connReq" and e.a["val"] == NONE]
            left = bool(st) and st[-1].a["slot"] != "CONNECTING"
            ctx.ob("K2", "%s CONNACK disarms the holder / leaves CONNECTING (at most once)" % cq, bool(dis) or left, where=where(f), function=f.func,
                   construct="%s/CONNACK/disarm" % f.func, nontrivial=False, msg="after the fire the protocol is still CONNECTING with the request armed")
        # ---------------- K3 ----------------
        lc = lifecycle(a, cls)
        hd = handles(a, cls)
        for tr in lc.loss:
            n_loss += 1
            fnc = tr.entry.func
            w = "%s:%d" % (fnc.file, fnc.node.lineno)
            if tr.path.exit_kind() == "raise":
                ctx.ob("K3", "%s connectionLost completes" % cq, False, where=w, function=fnc.qual, construct="%s/loss/raises" % cls.qual,
                       msg="an exception escapes from connectionLost")
                continue
            evs = tr.path.events
            flat = tr.events
            st = [e for e in evs if e.kind == "STATE"]
            ok = len(st) == 1 and st[0].a["slot"] == "IDLE"
            ctx.ob("K3", "%s connectionLost leaves the protocol IDLE" % cq, ok, where=where(st[0]) if st else w, function=fnc.qual,
                   construct="%s/loss/idle" % cls.qual, msg="state changes on the loss path: %s" % [s.a["slot"] for s in st])
            if not ok:
                continue
            i = evs.index(st[0])
            post = [e for e in evs[i + 1:] if is_effect(e)]
            notif = [e for e in post if e.kind == "ARM" and e.a["target"] == ("attr", SELF, "onDisconnection")]
            other = [e for e in post if e not in notif]
            facts = tr.path.st.facts if tr.path.st is not None else {}
            hs = facts.get(("truthy", ("attr", SELF, "onDisconnection")))
            if hs is None:
                hs = facts.get(("nonnull", ("attr", SELF, "onDisconnection")))
            # the only thing that may suppress the notification is the handler not being set: a path that schedules nothing must
            # have tested the handler and found it unset; every other path schedules it exactly once with the reason
            exp = 0 if hs is False else 1
            okn = len(notif) == exp and all(tuple(n.a["args"]) == (("param", "reason"),) for n in notif)
            ctx.ob("K3", "%s connectionLost schedules onDisconnection(reason) %s" % (cq, "once" if exp else "never (no handler)"), okn,
                   where=where(notif[0]) if notif else w, function=fnc.qual,
                   construct="%s/loss/notify/%s" % (cls.qual, "suppressed" if (hs is None and not notif) else str(exp)),
                   msg="%d notifications scheduled with %s%s" % (len(notif), [[show(x) for x in n.a["args"]] for n in notif],
                                                                 "" if hs is not None or notif else
                                                                 ": the handler is skipped under a condition other than its being unset (%s)" % (
                                                                     [repr(c) for c in tr.path.conds][-2:])))
            ctx.ob("K3", "%s connectionLost: clean-up precedes IDLE and the notification" % cq, not other, where=where(other[0]) if other else w,
                   function=fnc.qual, construct="%s/loss/order" % cls.qual, nontrivial=False,
                   msg="effect %s after the protocol was declared IDLE" % (other[0].brief() if other else ""))
            pre_notif = [e for e in evs[:i] if e.kind in ("ARM", "CALLBACK")]
            ctx.ob("K3", "%s connectionLost does not notify before the clean-up" % cq, not pre_notif, where=where(pre_notif[0]) if pre_notif else w,
                   function=fnc.qual, construct="%s/loss/early-notify" % cls.qual, nontrivial=False,
                   msg="notification scheduled before pending requests were settled")
        for ent, p, loc, tr, e in hd.fired_handles():
            if tr.kind == "LOSS":
                ctx.ob("K3", "%s connectionLost cancels no handle that already fired" % cq, False, where=where(e), function=e.func,
                       construct="%s/loss/fired-handle/%s" % (cls.qual, ".".join(loc)),
                       msg="%s leaves its fired handle in %s; connectionLost cancels it: AlreadyCalled skips the clean-up" % (short(ent.func.qual), ".".join(loc)))
                break
        seen_ul = set()
        for tr, e, loc, tr2, e2 in hd.unstarted_loops():
            if (e.func, loc) in seen_ul or not (True):
                continue
            seen_ul.add((e.func, loc))
            ctx.ob("K3", "%s no periodic call is stored without being started (%s)" % (cq, tr.label()), False, where=where(e), function=e.func,
                   construct="%s/loop-created-not-started/%s" % (e.func, ".".join(loc)),
                   msg="%s creates the periodic call stored in %s without starting it; %s (%s) finds it not None and calls stop() on a loop that is not running: LoopingCall.stop() asserts - %s" % (tr.label(), ".".join(loc), tr2.label(), where(e2), 'the AssertionError leaves connectionLost before the clean-up, the state reset and the onDisconnection notification'))
        for tr, e, loc, tr2, e2 in hd.cancelled_kept():
            ctx.ob("K3", "%s connectionLost cancels no handle that was cancelled before (%s)" % (cq, tr.label()), False, where=where(e), function=e.func,
                   construct="%s/cancelled-handle-kept/%s" % (e.func, ".".join(loc)),
                   msg="%s cancels the handle in %s and leaves it stored; connectionLost (%s) finds it not None and cancels it again: "
                       "AlreadyCancelled leaves connectionLost before the clean-up, the state reset and the notification" % (
                           tr.label(), ".".join(loc), where(e2)))
        for tr, e, loc, why in hd.none_deref():
            if tr.kind == "LOSS" or (tr.kind == "NET" and tr.name == "CONNACK"):
                ctx.ob("K3", "%s no call on a None handle in %s" % (cq, tr.label()), False, where=where(e), function=e.func,
                       construct="%s/none-handle/%s" % (e.func, ".".join(loc)), msg=why)
    ctx.count("connect_accept_paths", n_acc)
    ctx.count("connack_paths", n_ack)
    ctx.count("loss_paths", n_loss)
    ctx.floor("connect accepting paths", n_acc, 4)
    ctx.floor("CONNACK handler paths", n_ack, 4)
    ctx.floor("loss paths", n_loss, 4)
