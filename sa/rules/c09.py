"""C09: QoS 2 sender order - PUBREL only after PUBREC, no PUBLISH again after PUBREL."""
from ..model import AnalysisError
from ..terms import SELF, FAC, NONE, show, is_const, mentions, subterms
from ..fieldroles import is_alarm_handle
from ..catalogue import catalogue, is_effect
from .common import where, cls_short, contexts, capabilities, types, short, written_object, honoured
from .flows import post_dispatch, ack_cells, elem_reg
from .c08 import region_events

EXPLANATION = (
    "Who-may and ordering rules for the QoS 2 sender on every abstract path of the publisher-capable classes: PUBREL "
    "objects are created, encoded and inserted into the release window only on the hit path of the PUBREC handler; on that "
    "path the cancellation of the PUBLISH retry timer and the removal from the publish window precede the first PUBREL "
    "write; the release window holds PUBREL objects only and the publish window/queue PUBLISH objects only, and each retry "
    "timer target is armed with elements of its own registries only, so the resume path and the timers can never write the "
    "PUBLISH of an exchange that has reached the release window; the release window is emptied only by PUBCOMP and by the "
    "session purge, the publish window only by PUBACK, PUBREC and the purge; a PUBLISH and a PUBREL are each driven by a single "
    "retry timer (alarm overwritten only when the old handle is not pending, entries leave their window cancelled), so the "
    "cancellation in the PUBREC handler really silences the PUBLISH. Decides the structure; wire order over histories is "
    "not explored. Q-FRAME: the premises of the framing lemma (every rule of C03) hold, a necessary condition of anything said about inbound packets.")
ASSUMPTIONS = []

OWN = {"PUBLISH": {"queuePublishTx", "windowPublish"}, "PUBREL": {"windowPubRelease"}}


def check(ctx):
    a = ctx.a
    from .c03 import framing_premise
    framing_premise(ctx, 'Q-FRAME', 'a PUBREC/PUBCOMP that is mis-framed stalls or corrupts the QoS 2 exchange')
    ty = types(a)
    caps, pm, _ = capabilities(a)
    classes = [c for c in a.protos if "pub" in caps.get(c.qual, set())]
    ctx.floor("publisher-capable classes", len(classes), 2)
    nrel = 0
    # element classes of the registries
    for reg, exp in (("windowPubRelease", {"PUBREL"}), ("windowPublish", {"PUBLISH"}), ("queuePublishTx", {"PUBLISH"})):
        got = {c.split(".")[-1] for c in ty.reg_elem.get(reg, set())}
        ctx.ob("Q-TYPES", "%s holds %s objects only" % (reg, "/".join(sorted(exp))), got == exp, where="src/mqtt/client/pubsubs.py",
               construct="%s/element-classes" % reg, msg="objects inserted into %s have classes %s" % (reg, sorted(got)))
    for cls in classes:
        cat = catalogue(a, cls)
        eng = cat.eng
        cq = cls_short(cls.qual)
        ccaps = caps[cls.qual]
        for tr in contexts(cat):
            in_pubrec = tr.kind == "NET" and tr.name == "PUBREC" and tr.slot == "CONNECTED"
            hit = any(e.kind == "LOOKUP" and e.a["reg"] == "windowPublish" and e.a["hit"] for e in tr.events)
            purge = tr.kind == "LOSS" or (tr.kind == "NET" and tr.name == "CONNACK")
            for e in tr.events:
                if e.kind == "NEW" and e.a["cls"].endswith(".PUBREL") and not (tr.kind == "NET" and tr.name == "PUBREL"):
                    nrel += 1
                    ctx.ob("Q-WHO", "%s PUBREL created only when a PUBREC for a pending PUBLISH arrives (%s)" % (cq, tr.label()),
                           in_pubrec and hit, where=where(e), function=e.func, construct="%s/pubrel-created/%s" % (e.func, tr.label()),
                           msg="a PUBREL object is created in context %s" % tr.label())
                if e.kind == "REG" and e.a["reg"] == "windowPubRelease":
                    ctx.ob("Q-WHO", "%s release window filled only by the PUBREC handler (%s)" % (cq, tr.label()), in_pubrec and hit,
                           where=where(e), function=e.func, construct="%s/release-insert/%s" % (e.func, tr.label()),
                           msg="release window written in context %s" % tr.label())
                if e.kind == "UNREG" and e.a["reg"] == "windowPubRelease":
                    ok = purge or (tr.kind == "NET" and tr.name == "PUBCOMP" and tr.slot == "CONNECTED")
                    ctx.ob("Q-WHO", "%s release window emptied only by PUBCOMP or the session purge (%s)" % (cq, tr.label()), ok,
                           where=where(e), function=e.func, construct="%s/release-remove/%s" % (e.func, tr.label()),
                           msg="an exchange leaves the release window in context %s: its identifier becomes free early" % tr.label())
                if e.kind == "UNREG" and e.a["reg"] == "windowPublish":
                    ok = purge or (tr.kind == "NET" and tr.name in ("PUBACK", "PUBREC") and tr.slot == "CONNECTED")
                    ctx.ob("Q-WHO", "%s publish window emptied only by PUBACK, PUBREC or the session purge (%s)" % (cq, tr.label()), ok,
                           where=where(e), function=e.func, construct="%s/publish-remove/%s" % (e.func, tr.label()),
                           msg="a request leaves the publish window in context %s" % tr.label())
                if e.kind == "REG" and e.a["reg"] == "windowPublish":
                    src = e.a["val"]
                    ok = isinstance(src, tuple) and src[0] == "popped" and src[1] == "queuePublishTx"
                    ctx.ob("Q-WHO", "%s publish window filled only from the queue (%s)" % (cq, tr.label()), ok, where=where(e),
                           function=e.func, construct="%s/publish-insert" % e.func, nontrivial=False,
                           msg="publish window receives %s (an exchange could re-enter it after its PUBREL)" % show(src))
            # ordering on the PUBREC hit path
            if in_pubrec and hit and tr.decode_ok:
                evs = post_dispatch(tr)
                lk = [e for e in evs if e.kind == "LOOKUP" and e.a["reg"] == "windowPublish" and e.a["hit"]][0]
                el = ("elem", "windowPublish", lk.a["key"])
                ws = [e for e in evs if e.kind == "WRITE"]
                if not ws:
                    ctx.ob("Q-ORDER", "%s PUBREC is answered with a PUBREL" % cq, False, where=where(lk), function=lk.func,
                           construct="%s/PUBREC/no-pubrel" % lk.func, msg="no PUBREL written on the PUBREC hit path")
                    continue
                first = evs.index(ws[0])
                cn = [e for e in evs[:first] if e.kind == "CANCEL" and is_alarm_handle(e.a["handle"], el)]
                un = [e for e in evs[:first] if e.kind == "UNREG" and e.a["reg"] == "windowPublish" and e.a["key"] == lk.a["key"]]
                ctx.ob("Q-ORDER", "%s PUBLISH timer cancelled before the first PUBREL" % cq, len(cn) == 1, where=where(ws[0]), function=lk.func,
                       construct="%s/PUBREC/cancel-before-pubrel" % lk.func,
                       msg="the PUBLISH retry timer is not cancelled before the PUBREL is written: the PUBLISH would be sent again after its PUBREL")
                ctx.ob("Q-ORDER", "%s PUBLISH leaves the publish window before the first PUBREL" % cq, len(un) == 1, where=where(ws[0]),
                       function=lk.func, construct="%s/PUBREC/unreg-before-pubrel" % lk.func,
                       msg="the PUBLISH is still in the publish window when the PUBREL is written: a resume would send both")
                how, obj = written_object(ws[0].a["data"])
                cl = {c.split(".")[-1] for c in ty.class_of(obj, eng)}
                ctx.ob("Q-ORDER", "%s the packet written on PUBREC is the PUBREL" % cq, cl == {"PUBREL"} and len(ws) == 1, where=where(ws[0]),
                       function=lk.func, construct="%s/PUBREC/writes" % lk.func, msg="PUBREC hit path writes %d packets of class %s" % (len(ws), sorted(cl)))
        # each retry callback is armed with elements of its own registries only
        per_target = {}
        for tr in contexts(cat):
            for region in region_events(tr.path):
                for e in region:
                    if e.kind == "ARM" and e.a["args"] and isinstance(e.a["target"], tuple) and e.a["target"][0] == "bm":
                        x = e.a["args"][0]
                        rg = elem_reg(x)
                        if rg is None and isinstance(x, tuple) and x[0] == "new":
                            rg = "new:" + x[1].split(".")[-1]
                        if rg is None:
                            continue
                        per_target.setdefault(e.a["target"][2].qual, {}).setdefault(rg, e)
        for tq, srcs in sorted(per_target.items()):
            regs = {r for r in srcs if not r.startswith("new:")}
            fam = None
            for k, own in OWN.items():
                if regs & own:
                    fam = k if fam is None else "mixed"
            if fam is None:
                continue
            ok = fam != "mixed" and regs <= OWN[fam]
            e0 = list(srcs.values())[0]
            ctx.ob("Q-RETRY", "%s %s is armed with %s entries only" % (cq, short(tq), fam), ok, where=where(e0), function=e0.func,
                   construct="%s/armed-with/%s" % (tq, "+".join(sorted(regs))),
                   msg="retry callback %s is armed with entries of %s: a PUBLISH could be retried after its PUBREL (or vice versa)" % (short(tq), sorted(regs)))
    # "no PUBLISH timer survives the PUBREC" needs the PUBLISH to be driven by a single timer, which the PUBREC handler cancels:
    # the alarm of a publish-window entry is overwritten only when the old handle is not pending, and entries leave the window cancelled
    from .c13 import timer_discipline
    for cls in classes:
        timer_discipline(ctx, a, cls, regs=("windowPublish", "windowPubRelease"), r_cancel="Q-TIMER", r_arm="Q-TIMER")
    # the identifier of a QoS 2 exchange stays reserved until PUBCOMP: the allocator must look at both publisher windows
    from .c17 import allocator_reads
    for fq, regs in sorted(allocator_reads(a).items()):
        need = {"windowPublish", "windowPubRelease"}
        f = a.prog.funcs.get(fq)
        ctx.ob("Q-ID", "%s keeps identifiers of exchanges awaiting PUBREC/PUBCOMP reserved" % short(fq), need <= regs,
               where="%s:%d" % (f.file, f.node.lineno) if f else "", function=fq, construct="%s/reserved-until-pubcomp" % fq,
               msg="the identifier allocator does not look at %s: after the counter wraps, a new PUBLISH can be written with the identifier of an "
                   "exchange whose PUBREL is still unanswered" % sorted(need - regs))
    ctx.count("pubrel_creation_sites", nrel)
    # Q-MODE: "the exchange ends, and the identifier becomes free, only on PUBCOMP or when the session is discarded": the loss path
    # discards under the recorded session mode, so that mode must be the one connect() asked for from the moment connect() is accepted
    from ..lifecycle import lifecycle
    for cls in classes:
        lc = lifecycle(a, cls)
        from ..lifecycle import rule_session_field
        rule_session_field(ctx, catalogue(a, cls), "Q-MODE", "cleanStart", "the session mode", 'a refused or rejected connect(), or a handler, changes the session mode under which the next loss and the next CONNACK treat the pending requests')
        ctx.ob("Q-MODE", "%s the session mode is recorded when connect() is accepted" % cls_short(cls.qual), lc.clean_at_connect,
               where=where(lc.clean_event) if lc.clean_event is not None else cls.module.path,
               function=lc.clean_event.func if lc.clean_event is not None else "", construct="session-mode/recorded-at-connect",
               msg="self.%s is not assigned from CONNECT's cleanStart on every accepting path of connect(): a persistent session's connection "
                   "lost during the handshake is cleaned up as a clean session, which ends a QoS 2 exchange without PUBCOMP" % lc.clean)
    ctx.floor("PUBREL creation events", nrel, 2)
