"""C08: unacknowledged packets are resent on every timer expiry, DUP set, same content."""
import ast

from ..model import AnalysisError
from ..terms import SELF, FAC, NONE, show, is_const, mentions, subterms
from ..fieldroles import no_interval, no_interval_conds, is_interval_field, interval_conflict
from ..catalogue import catalogue, is_effect
from .common import where, cls_short, contexts, capabilities, types, short, written_object

EXPLANATION = (
    "Retry discipline decided on every abstract path: each retry-timer target resolves, and on every path writes the stored "
    "bytes of its own request exactly once and re-arms exactly one timer whose target is that same function with the same "
    "request (the only timer-less path is the one guarded by a request without interval object); DUP by constant propagation "
    "over calling contexts: first transmissions patch byte 0 with dup=0, timer and resume contexts with dup=1<<3, for PUBLISH "
    "unconditionally and for SUBSCRIBE/UNSUBSCRIBE/PUBREL only under the version==3.1 test; stored bytes are produced by "
    "encode() before registration and afterwards only byte 0 bit 3 is touched, no re-encoding and no reassignment of "
    "identifier/topic/payload; stored bytes are written only in first-send, own-timer and resume contexts; the timer delay "
    "depends on the request's interval object, created with the configured initial timeout; R-GAP - a lower-bound (sign) "
    "analysis of the interval classes shows the produced delay >= the initial timeout (initial >= 1 by setTimeout's guard, "
    "factor default >= 1, maxDelay = max(initial, .), jitter >= 0, bandwidth/factor > 0 by setBandwith's guard). The state an interval "
    "object carries between calls is only multiplied, added to or capped from above (a necessary condition of non-shrinking gaps). NOT "
    "decided: that PUBLISH gaps do not shrink from one retry to the next (random jitter and a caller-supplied factor below 1 are "
    "numeric, not structural). "
    " R-VERSION - the protocol version that gates DUP on SUBSCRIBE/UNSUBSCRIBE/PUBREL repeats is recorded by the accepted connect() only, before anything can be repeated on the connection. R-HOOK - the application's onMqttConnectionMade hook runs after the resume loops of the CONNACK: what it requests is not written a second time without a timer expiry. "
    " R-DUP also requires the dup field of a PUBLISH to be clear when publish() encodes it; R-DELAY that nothing is subtracted from the interval's value on the way to callLater (through locals and the callers of an arming helper).")
ASSUMPTIONS = ["timing clauses of the property are not decided by this family"]

RETRY_KINDS = {"PUBLISH": True, "PUBREL": False, "SUBSCRIBE": False, "UNSUBSCRIBE": False}   # class -> DUP unconditional?
V31 = ("constobj", "mqtt.v31")
TIMED = ("windowPublish", "windowPubRelease", "windowSubscribe", "windowUnsubscribe")


def _delay_roots(prog, fq, dn):
    """The expressions a callLater() delay is computed from: the argument itself, the assignments of the local it names, and - when
    it is a parameter of a small arming helper - what the callers pass (with their locals)."""
    roots = []
    if dn is None or fq not in prog.funcs:
        return roots
    f = prog.funcs[fq]
    roots.append(dn)

    def local_defs(fn, name):
        return [m.value for m in ast.walk(fn.node) if isinstance(m, (ast.Assign, ast.AugAssign)) and any(
            isinstance(t, ast.Name) and t.id == name for t in (m.targets if isinstance(m, ast.Assign) else [m.target]))]
    if isinstance(dn, ast.Name):
        roots.extend(local_defs(f, dn.id))
        if dn.id in f.params:
            idx = f.params.index(dn.id) - (1 if f.params and f.params[0] == "self" else 0)
            for g in prog.funcs.values():
                for c in ast.walk(g.node):
                    if isinstance(c, ast.Call) and (isinstance(c.func, ast.Attribute) and c.func.attr == f.name or isinstance(c.func, ast.Name) and c.func.id == f.name):
                        arg = c.args[idx] if 0 <= idx < len(c.args) else next((k.value for k in c.keywords if k.arg == dn.id), None)
                        if arg is not None:
                            roots.append(arg)
                            if isinstance(arg, ast.Name):
                                roots.extend(local_defs(g, arg.id))
    return roots


def version_cond(conds):
    """True/False if the path conditions at an event include version == v31 (or its negation), else None."""
    for c in conds:
        t = c.term
        if isinstance(t, tuple) and t[0] == "cmp" and t[1] in ("==", "!=", "is", "is not") and \
                (t[2] == ("attr", SELF, "_version") and t[3] == V31 or t[3] == ("attr", SELF, "_version") and t[2] == V31):
            pol = c.pol if t[1] in ("==", "is") else (not c.pol)
            return pol
    return None


def patches_on(evs, obj):
    return [e for e in evs if e.kind == "SETITEM" and e.a["base"] in (("attr", obj, "encoded"), ("encbuf", obj))]


def region_events(path):
    """Yield (events-of-one-region) for the path and, recursively, every loop iteration body."""
    yield path.events
    for e in path.events:
        if e.kind == "LOOP":
            for bp in e.a["body"]:
                yield from region_events(bp)


def regions(path):
    """The path itself and, recursively, every loop iteration body (as Path objects)."""
    yield path
    for e in path.events:
        if e.kind == "LOOP":
            for bp in e.a["body"]:
                yield from regions(bp)


def check(ctx):
    a = ctx.a
    ty = types(a)
    # "nothing is repeated except on timer expiry ...; never closer together than the initial timeout": a request that is given the identifier
    # of another unfinished one takes over its registry entry when it is registered - the first one's retry timer, which only the entry's
    # removal cancels, runs on beside the new one: two chains repeat one packet
    from .common import run_premise
    run_premise(ctx, "C17", "R-IDS", "identifiers", "an identifier names at most one unfinished exchange",
                "two unfinished requests share an identifier: registering the second overwrites the entry of the first, whose retry timer is "
                "never cancelled and keeps repeating its packet beside the second one's - repeats without a timer expiry of their own, "
                "closer together than the timeout, and after the acknowledgement")
    caps, pm, _ = capabilities(a)
    n_timer = n_writes = 0
    for cls in a.protos[1:]:
        cat = catalogue(a, cls)
        from .flows import rule_hook_after_session
        rule_hook_after_session(ctx, cat, "R-HOOK", "a SUBSCRIBE / UNSUBSCRIBE requested by the hook is written again at once by the resume loop - no timer has expired - and its first timer is overwritten")
        eng = cat.eng
        cq = cls_short(cls.qual)
        # under 3.1 the repeats of SUBSCRIBE / UNSUBSCRIBE / PUBREL carry DUP, under 3.1.1 never: the version consulted must be
        # the one of this connection's CONNECT before anything can be repeated on it (the resume at CONNACK included)
        from ..lifecycle import rule_session_field
        rule_session_field(ctx, cat, "R-VERSION", "version", "the protocol version",
                           "a packet repeated before the assignment (the session resume at CONNACK) gets its DUP flag according to the previous "
                           "connection's or the default version")
        # ---- X-RESOLVE ---------------------------------------------------------
        for ent, p, e in cat.all_events("UNRESOLVED"):
            ctx.ob("X-RESOLVE", "%s %s resolves" % (cq, e.a["name"]), False, where=where(e), function=e.func,
                   construct="%s/unresolved/%s" % (e.func, e.a["name"]),
                   msg="self.%s does not resolve to any method or attribute of %s: AttributeError at run time" % (e.a["name"], e.a["cls"]))
        # ---- R-RETRY: timer targets ----------------------------------------------------
        for ent in cat.by_kind("TIMER"):
            params = [q for q in ent.func.params if q != "self"]
            if not params and ent.func.parent is not None:
                # a closure: what it captured from the frame that made it plays the part of the parameter
                params = sorted(k for (fq, k), cl in ty.param_cls.items() if fq == ent.func.qual
                                and {c.split(".")[-1] for c in cl} & set(RETRY_KINDS))
            if not params:
                continue      # deadline closures (connect timeout, ping) are not retry timers
            req = ("param", params[0])
            kinds = {c.split(".")[-1] for c in ty.class_of(req, eng, timer_func=ent.func.qual)}
            kinds &= set(RETRY_KINDS)
            if not kinds:
                continue
            n_timer += 1
            kind = sorted(kinds)[0]
            w = "%s:%d" % (ent.func.file, ent.func.node.lineno)
            ctx.ob("R-RETRY", "%s %s serves one kind of request" % (cq, short(ent.func.qual)), len(kinds) == 1, where=w,
                   function=ent.func.qual, construct="%s/kinds" % ent.func.qual,
                   msg="retry callback is armed for requests of several kinds %s: one of them is retried by the wrong routine" % sorted(kinds))
            for p in ent.paths:
                evs = list(p.walk())
                if p.exit_kind() == "raise":
                    ctx.ob("R-RETRY", "%s %s timer callback completes" % (cq, kind), False, where=w, function=ent.func.qual,
                           construct="%s/raises" % ent.func.qual,
                           msg="retry callback of %s leaves by exception %s: the packet is never sent again and the timer dies" % (
                               kind, show(p.exit[1])))
                    continue
                ws = [e for e in evs if e.kind == "WRITE"]
                arms = [e for e in evs if e.kind == "ARM"]
                w_ok = len(ws) == 1 and written_object(ws[0].a["data"]) == ("encoded", req)
                ctx.ob("R-RETRY", "%s %s expiry writes the stored bytes of its request once" % (cq, kind), w_ok,
                       where=where(ws[0]) if ws else w, function=ent.func.qual, construct="%s/write" % ent.func.qual,
                       msg="%d writes on an expiry path / not the stored packet of the request" % len(ws))
                facts = p.st.facts if p.st is not None else {}
                if interval_conflict(facts, req):
                    continue      # markers of one request tested opposite ways: not a path that can happen
                if no_interval(facts, req):
                    a_ok = len(arms) == 0
                else:
                    t0 = arms[0].a["target"] if arms else None
                    a_ok = len(arms) == 1 and isinstance(t0, tuple) and (
                        (t0[0] == "bm" and t0[2].qual == ent.func.qual and tuple(arms[0].a["args"]) == (req,)) or
                        (t0[0] == "closure" and (cat._target(t0)[0] or t0[1].qual) == ent.func.qual and req in arms[0].a["args"]))
                ctx.ob("R-RETRY", "%s %s expiry re-arms its own timer for the same request" % (cq, kind), a_ok,
                       where=where(arms[0]) if arms else w, function=ent.func.qual, construct="%s/rearm" % ent.func.qual,
                       msg="expiry path arms %s" % [(show(x.a["target"]), [show(y) for y in x.a["args"]]) for x in arms])
                if arms and not no_interval(facts, req):
                    st = [e for e in evs if e.kind == "SETATTR" and e.a["obj"] == req and e.a["val"] == arms[0].a["handle"]]
                    ctx.ob("R-RETRY", "%s %s expiry stores the new handle on the request" % (cq, kind), len(st) == 1,
                           where=where(arms[0]), function=ent.func.qual, construct="%s/handle-store" % ent.func.qual, nontrivial=False,
                           msg="new timer handle is not stored on the request (it could never be cancelled)")
                # same content
                enc = [e for e in evs if e.kind == "ENCODE" and e.a["obj"] == req]
                ctx.ob("R-SAME", "%s %s expiry does not re-encode" % (cq, kind), not enc, where=where(enc[0]) if enc else w,
                       function=ent.func.qual, construct="%s/re-encode" % ent.func.qual,
                       msg="request is encoded again on retry: content/flags may differ from the first transmission")
        # ---- DUP / contexts for every write of stored bytes --------------------------------
        resent_kinds, v31_patched = {}, set()
        for tr in contexts(cat):
            for region in region_events(tr.path):
                flat_region = region
                for e in flat_region:
                    if e.kind != "WRITE":
                        continue
                    how, obj = written_object(e.a["data"])
                    if how != "encoded" or obj is None:
                        continue
                    kinds = {c.split(".")[-1] for c in ty.class_of(obj, eng, timer_func=tr.entry.func.qual if tr.kind == "TIMER" else None)}
                    kinds &= set(RETRY_KINDS)
                    if not kinds:
                        continue
                    kind = sorted(kinds)[0]
                    n_writes += 1
                    first = tr.kind == "API" or (tr.kind == "NET" and tr.name in ("PUBACK", "PUBCOMP", "PUBREC"))
                    resume = tr.kind == "NET" and tr.name == "CONNACK"
                    timer = tr.kind == "TIMER"
                    ctx.ob("R-WHO-SEND", "%s stored %s written only on first send, own timer or resume (%s)" % (cq, kind, tr.label()),
                           first or resume or timer, where=where(e), function=e.func, construct="%s/send-context/%s" % (e.func, tr.label()),
                           msg="stored %s bytes are written in context %s" % (kind, tr.label()), trigger=tr.label())
                    # an entry taken from the hold-back queue in this very region has never been on the wire, whatever the context
                    never_sent = isinstance(obj, tuple) and obj[0] == "popped" and obj[1] == "queuePublishTx"
                    exp_dup = 0 if (first or never_sent) else 8
                    pats = [x for x in patches_on(flat_region, obj) if flat_region.index(x) < flat_region.index(e)]
                    vcond = version_cond(e.conds)
                    if vcond is False:
                        # on the 3.1.1 arm `|= 0` (a helper that yields the DUP bits of this version: none) is not a patch
                        pats = [x for x in pats if not (x.a["op"] == "BitOr" and x.a["val"] == ("const", 0))]
                    unconditional = RETRY_KINDS[kind]
                    # (on a first transmission DUP is 0: or-ing 0 into the byte and not touching it are the same thing)
                    if unconditional:
                        ok = len(pats) == 1 or (exp_dup == 0 and not pats)
                    else:
                        # patch present exactly on the v3.1 arm
                        if vcond is True:
                            ok = (len(pats) == 1 and version_cond(pats[0].conds) is True) or (exp_dup == 0 and not pats)
                        elif vcond is False:
                            ok = len(pats) == 0
                        else:
                            # the protocol version is not looked at on this path: fine for a first transmission (nothing to set); a
                            # repeat that never asks cannot carry DUP under 3.1 and leave it clear under 3.1.1
                            ok = len(pats) == 0 and exp_dup == 0
                    if not unconditional and exp_dup == 8:
                        resent_kinds.setdefault(kind, e)
                        if vcond is True and len(pats) == 1 and pats[0].a["val"] == ("const", 8):
                            v31_patched.add(kind)
                    ctx.ob("R-DUP", "%s %s: DUP patch %s (%s)" % (cq, kind, "always" if unconditional else
                           ("only under protocol 3.1" + ("" if vcond is None else " [v31=%s]" % vcond)), tr.label()), ok,
                           where=where(pats[0]) if pats else where(e), function=e.func,
                           construct="%s/dup-gating/%s" % (e.func, kind),
                           msg="%d DUP patches before the write of a %s (protocol 3.1 test on path: %s)" % (len(pats), kind, vcond),
                           trigger=tr.label())
                    for x in pats:
                        shape = x.a["key"] == ("const", 0) and x.a["op"] == "BitOr"
                        ctx.ob("R-DUP", "%s %s: patch touches byte 0 with |=" % (cq, kind), shape, where=where(x), function=x.func,
                               construct="%s/dup-shape" % x.func, nontrivial=False,
                               msg="stored packet patched at %s with %s" % (show(x.a["key"]), x.a["op"]))
                        val = x.a["val"]
                        ctx.ob("R-DUP", "%s %s: DUP value %d in context %s" % (cq, kind, exp_dup, tr.label()), val == ("const", exp_dup),
                               where=where(x), function=x.func, construct="%s/dup-value/%s" % (x.func, tr.label()),
                               msg="byte 0 is or-ed with %s in context %s (expected %d: DUP=%d << 3)" % (show(val), tr.label(), exp_dup, exp_dup >> 3),
                               trigger=tr.label())
            # the stored bytes start out with DUP clear: encode() writes the request's own dup field into byte 0, so that field is False
            # when the request is encoded (the patches above only ever set the bit)
            if tr.kind == "API" and tr.name == "publish":
                for e in tr.events:
                    if e.kind == "ENCODE" and e.a.get("ok") and (e.a.get("cls") or "").endswith(".PUBLISH") and isinstance(e.a.get("fields"), dict) \
                            and "dup" in e.a["fields"]:
                        dv = e.a["fields"]["dup"]
                        ctx.ob("R-DUP", "%s a PUBLISH is encoded with its dup field clear (%s)" % (cq, tr.label()), dv in (("const", False), ("const", 0)),
                               where=where(e), function=e.func, construct="%s/encoded-dup" % e.func,
                               msg="publish() encodes the request with dup = %s: the first transmission already carries DUP=1" % show(dv))
            # every request entering a timed window is sent and gets its retry timer on the same path
            for region in region_events(tr.path):
                for e in region:
                    if e.kind == "REG" and e.a["reg"] in TIMED and e.a["how"] == "setitem":
                        x = e.a["val"]
                        later = region[region.index(e) + 1:]
                        arms = [y for y in later if y.kind == "ARM" and x in y.a["args"]]
                        ws = [y for y in later if y.kind == "WRITE" and written_object(y.a["data"])[1] == x]
                        noint = any(no_interval_conds(y.conds, x) for y in ws)
                        ctx.ob("R-ARMED", "%s entry into %s is transmitted with a retry timer (%s)" % (cq, e.a["reg"], tr.label()),
                               len(ws) == 1 and (len(arms) == 1 or (noint and not arms)), where=where(e), function=e.func,
                               construct="%s/armed-at-reg/%s" % (e.func, e.a["reg"]),
                               msg="request registered in %s: %d writes, %d retry timers follow on the path" % (e.a["reg"], len(ws), len(arms)),
                               trigger=tr.label())
            # content of registered requests never reassigned
            for e in tr.events:
                if e.kind == "SETATTR" and e.a["field"] in ("msgId", "topic", "topics", "payload", "qos", "retain", "encoded"):
                    o = e.a["obj"]
                    if isinstance(o, tuple) and o[0] in ("elem", "popped") or (o[:1] == ("param",) and tr.kind == "TIMER"):
                        ctx.ob("R-SAME", "%s content of a registered request is never reassigned" % cq, False, where=where(e),
                               function=e.func, construct="%s/content-reassigned/%s" % (e.func, e.a["field"]),
                               msg="field %s of a pending request is reassigned in context %s" % (e.a["field"], tr.label()))
                if e.kind == "ENCODE" and isinstance(e.a["obj"], tuple) and e.a["obj"][0] in ("elem", "popped"):
                    ctx.ob("R-SAME", "%s pending requests are not re-encoded" % cq, False, where=where(e), function=e.func,
                           construct="%s/re-encode" % e.func, msg="a pending request is encoded again in context %s" % tr.label())
            # timer delay depends on the request's interval; interval created with the configured initial timeout
            for e in tr.events:
                if e.kind == "ARM" and e.a["how"] == "callLater" and e.a["args"]:
                    req = e.a["args"][0]
                    kinds = {c.split(".")[-1] for c in ty.class_of(req, eng, timer_func=tr.entry.func.qual if tr.kind == "TIMER" else None)}
                    if not (kinds & set(RETRY_KINDS)):
                        continue
                    dn = e.a.get("delaynode")
                    dep = False
                    if dn is not None:
                        for x in ast.walk(dn):
                            if isinstance(x, ast.Call) and isinstance(x.func, ast.Attribute) and is_interval_field(x.func.attr):
                                dep = True
                    if not dep:
                        dep = any(isinstance(x, tuple) and x[:1] == ("attr",) and len(x) == 3 and is_interval_field(x[2]) for x in subterms(e.a["delay"]))
                    if not dep:
                        i = tr.events.index(e)
                        dep = any(x.kind == "CALL" and x.a["func"].endswith(".__call__") and "nterval" in x.a["func"]
                                  and x.stack[:len(e.stack)] == e.stack for x in tr.events[:i])
                        if not dep and len(e.stack) > 1:
                            # the delay was computed by the caller and handed to a small arming helper: the interval object of the very
                            # request that is armed was called in the caller's frame
                            # (through one or more helpers: _rearm(request, delay, cb) -> _later(delay, fn, *args) -> callLater)
                            dep = any(x.kind == "CALL" and x.a["func"].endswith(".__call__") and "nterval" in x.a["func"]
                                      and any(x.stack[:len(e.stack) - up] == e.stack[:-up] for up in range(1, len(e.stack)))
                                      and isinstance(x.a.get("recv"), tuple)
                                      and (x.a["recv"][:2] == ("attr", req) or (tr.path.st is not None and any(
                                          o == req and is_interval_field(fl) and v == x.a["recv"] for (o, fl), v in tr.path.st.heap.items())))
                                      for x in tr.events[:i])
                    # ... and nothing is taken away from it: interval() + (non-negative terms) keeps the lower bound R-GAP proves for
                    # the interval classes, interval() - anything does not
                    roots = _delay_roots(a.prog, e.func, dn)
                    minus = [x for r_ in roots for x in ast.walk(r_) if (isinstance(x, ast.BinOp) and isinstance(x.op, ast.Sub)) or
                             (isinstance(x, ast.UnaryOp) and isinstance(x.op, ast.USub)) or
                             (isinstance(x, ast.Constant) and isinstance(x.value, (int, float)) and not isinstance(x.value, bool) and x.value < 0)]
                    ctx.ob("R-DELAY", "%s nothing is subtracted from the interval's value (%s)" % (cq, short(e.func)), not minus,
                           where="%s:%d" % (e.file, minus[0].lineno) if minus and hasattr(minus[0], "lineno") else where(e), function=e.func,
                           construct="%s/delay-reduced" % e.func, nontrivial=False,
                           msg="the retry delay is computed as %s: less than the interval object yields, so a retransmission can follow the "
                               "previous transmission sooner than the initial timeout" % (ast.unparse(roots[-1])[:80] if roots else ""))
                    ctx.ob("R-DELAY", "%s retry delay comes from the request's interval object (%s)" % (cq, short(e.func)), dep,
                           where=where(e), function=e.func, construct="%s/delay" % e.func, nontrivial=False,
                           msg="retry timer armed with delay %s" % show(e.a["delay"]))
                if e.kind == "NEW" and e.a["cls"].split(".")[-1] in ("Interval", "IntervalLinear") and tr.kind in ("API", "NET"):
                    kw = dict(e.a["kw"])
                    init = kw.get("initial", e.a["args"][0] if e.a["args"] else None)
                    ctx.ob("R-DELAY", "%s interval created with the configured initial timeout (%s)" % (cq, short(e.func)),
                           init == ("attr", SELF, "_initialT"), where=where(e), function=e.func, construct="%s/interval-initial" % e.func,
                           nontrivial=False, msg="interval object created with initial=%s" % show(init))
        # "under protocol 3.1 repeats of SUBSCRIBE, UNSUBSCRIBE and PUBREL also carry DUP": each of these kinds the class re-sends has a
        # re-send path taken under version == 3.1 on which the stored packet is patched (a test that can never be true patches nowhere)
        for kind, e0 in sorted(resent_kinds.items()):
            ctx.ob("R-DUP", "%s %s: a repeat under protocol 3.1 carries DUP" % (cq, kind), kind in v31_patched, where=where(e0), function=e0.func,
                   construct="%s/dup-v31-missing/%s" % (e0.func, kind),
                   msg="no re-send path of a %s sets DUP under protocol 3.1: the repeats go out byte-identical to the first transmission" % kind)
    # ---- R-SINGLE: one live retry timer per pending request, none after it is settled or its connection is lost -----------
    # ("written again every time its retry timer expires, for as long as it stays unacknowledged ... nothing is repeated except on timer
    # expiry or resume": a leaked or doubled timer repeats a packet early or after its acknowledgement)
    from .c13 import timer_discipline
    from ..handles import handles
    for cls in a.protos[1:]:
        timer_discipline(ctx, a, cls, r_cancel="R-SINGLE", r_arm="R-SINGLE")
        hd = handles(a, cls)
        for tr, what, ok, ev in hd.loss_obligations():
            if "retry alarms" in what:
                fnc = tr.entry.func
                ctx.ob("R-SINGLE", "%s loss: %s" % (cls_short(cls.qual), what), ok, where=where(ev) if ev is not None else "%s:%d" % (fnc.file, fnc.node.lineno),
                       function=fnc.qual, construct="%s/loss/%s" % (cls.qual, what), nontrivial=False,
                       msg="connectionLost: %s fails on a path: the timer survives its connection and keeps re-sending (also after the acknowledgement "
                           "that the resumed session receives)" % what)
    # ---- R-GAP: the delay produced by the interval objects is never below the initial timeout -----------
    from .gaps import IntervalBounds, passed_bounds
    imod = a.prog.modules.get("mqtt.client.interval")
    if imod is None:
        raise AnalysisError("anchor vanished: mqtt.client.interval")
    n_iv = 0
    for cname, c in sorted(imod.classes.items()):
        if "__call__" not in c.methods:
            continue
        passed, nsites = passed_bounds(a, c.qual)
        if not nsites:
            continue
        n_iv += 1
        ib = IntervalBounds(a.prog, c, passed)
        lb, node = ib.result()
        ctx.ob("R-GAP", "%s() never yields a delay below the initial timeout" % cname, lb == "I",
               where="%s:%d" % (c.module.path, node.lineno if node is not None else c.node.lineno), function=c.qual + ".__call__",
               construct="%s/lower-bound" % c.qual,
               msg="the delay returned by %s.__call__ cannot be shown to be >= the configured initial timeout (sign analysis gives '%s'; "
                   "attributes %s): a retransmission can follow the previous transmission sooner than the initial timeout" % (cname, lb, ib.attr))
        from .gaps import shrinking_updates
        # "for a PUBLISH the gaps do not shrink": only the interval class that publish() gives its requests
        for_publish = any(e.a["cls"] == c.qual for cls_ in a.protos[1:] for ent, p_, e in catalogue(a, cls_).all_events("NEW")
                          if ent.kind == "API" and ent.name == "publish")
        sh = shrinking_updates(c) if for_publish else []
        ctx.ob("R-GAP", "%s: the state carried from one call to the next only grows (multiplied, added to, capped from above)" % cname, not sh,
               where="%s:%d" % (c.module.path, sh[0][0].lineno if sh else c.node.lineno), function=c.qual + ".__call__",
               construct="%s/shrinking-update" % c.qual,
               msg="%s.__call__ updates its state by %s: a later delay is smaller than an earlier one - the gaps between retransmissions shrink "
                   "from one retry to the next (already with the default factor 2)" % (cname, sh[0][1] if sh else ""))
        ctx.ob("R-GAP", "%s is constructed with the configured initial timeout only through keyword `initial`" % cname,
               "<positional>" not in passed and passed.get("initial") == "I", where=c.module.path, construct="%s/constructed" % c.qual, nontrivial=False,
               msg="constructor arguments passed by the client: %s" % passed)
    ctx.floor("interval classes used by the client", n_iv, 2)
    ctx.count("retry_timer_targets", n_timer)
    ctx.count("stored_packet_writes", n_writes)
    ctx.floor("retry timer targets (3 classes)", n_timer, 4)
    ctx.floor("stored-packet write events", n_writes, 4)
    ctx.note("timing clauses (minimum gap, non-shrinking gaps) are not decided")
