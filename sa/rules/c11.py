"""C11: clean session - connection loss fails everything pending and nothing carries over."""
from ..model import AnalysisError
from ..terms import SELF, FAC, NONE, show, is_const, mentions, subterms
from ..catalogue import catalogue, is_effect
from ..lifecycle import lifecycle, drains, loops_over
from ..handles import handles
from .common import where, cls_short, contexts, capabilities, types, short
from .flows import DEFERRED_REGS, rule_fire_once, rule_drop, mark_qos0_exception, prefired_fires

EXPLANATION = (
    "Exhaustiveness and identity rules on the loss closure of every profile class: under the clean-session test EVERY "
    "per-address registry whose entries carry a caller's Deferred (hold-back queue, publish window, release window, "
    "subscribe and unsubscribe windows) is drained by a loop over the whole registry that removes each entry and fires "
    "errback with the `reason` parameter itself (def-use identity), entries already fired being skipped only under a "
    "`.called` test; fired entries leave their registry and removed entries are fired (pairing rules); the clean-up is "
    "reached on every path (no exception, no fired or None handle, no errback() without a .called test on an entry of a "
    "registry that API paths fill with already fired Deferreds), so after a clean loss each of those registries is "
    "empty when the protocol returns to IDLE. Which kind of loss occurred and the behaviour of the next connection are "
    "not explored.")
ASSUMPTIONS = []


def check(ctx):
    a = ctx.a
    # "every pending request fails": the loss drains the registries, so whatever is pending has to be in one.  A held-back publish pushed
    # out of a bounded queue by a later one is in none - its Deferred is never failed (C10's unbounded-queue rule)
    from .common import run_premise
    run_premise(ctx, "C10", "X-DRAIN", "held-back", "every accepted publish stays in the queue until it is sent",
                "a held-back publish that the queue dropped is in no registry when the connection is lost: its Deferred never fails",
                only=lambda f: f.construct.endswith("/bounded-queue"))
    caps, pm, _ = capabilities(a)
    n = 0
    for cls in a.protos[1:]:
        cat = catalogue(a, cls)
        cq = cls_short(cls.qual)
        lc = lifecycle(a, cls)
        hd = handles(a, cls)
        mark_qos0_exception(cat)
        from ..lifecycle import rule_session_field
        rule_session_field(ctx, cat, "X-MODE", "cleanStart", "the session mode", 'a refused or rejected connect(), or a handler, changes the session mode under which the next loss and the next CONNACK treat the pending requests')
        ctx.ob("X-MODE", "%s the session mode is recorded when connect() is accepted, before any loss can happen" % cq, lc.clean_at_connect,
               where=where(lc.clean_event) if lc.clean_event is not None else cls.module.path,
               function=lc.clean_event.func if lc.clean_event is not None else "", construct="session-mode/recorded-at-connect",
               msg="the field the loss path tests (self.%s) is not assigned from CONNECT's cleanStart on every accepting path of connect(): a connection "
                   "lost during the handshake is handled with the previous (or default) session mode" % lc.clean)
        ctx.ob("X-SPLIT", "%s loss closure distinguishes clean and persistent sessions" % cq, bool(lc.loss_clean) and bool(lc.loss_persist),
               where=cls.module.path, construct="loss/clean-test", msg="clean paths: %d, persistent paths: %d" % (len(lc.loss_clean), len(lc.loss_persist)))
        for reg in DEFERRED_REGS:
            for tr in lc.loss_clean + lc.loss_unsplit:
                n += 1
                fnc = tr.entry.func
                if tr.path.exit_kind() == "raise":
                    continue
                ok, fires = drains(tr.path.events, reg, "after-cancel")
                lps = loops_over(tr.path.events, reg)
                ctx.ob("X-DRAIN", "%s clean loss fails every entry of %s" % (cq, reg), ok,
                       where=where(lps[0]) if lps else "%s:%d" % (fnc.file, fnc.node.lineno), function=lps[0].func if lps else fnc.qual,
                       construct="loss-clean-drain/%s" % reg,
                       msg="on a clean-session connection loss the entries of %s are not all removed and failed: their Deferreds never fire "
                           "and they are carried over to the next connection" % reg, trigger=tr.label())
                for f in fires:
                    ctx.ob("X-REASON", "%s entries of %s fail with the reason of the loss" % (cq, reg), f.a["arg"] == ("param", "reason"),
                           where=where(f), function=f.func, construct="%s/loss-reason/%s" % (f.func, reg),
                           msg="errback called with %s instead of the reason passed to connectionLost" % show(f.a["arg"]))
        # every fire on a loss path is an errback
        for tr in lc.loss:
            for e in tr.events:
                if e.kind == "FIRE":
                    ctx.ob("X-REASON", "%s loss path only fails, never succeeds, a Deferred" % cq, e.a["how"] == "errback", where=where(e),
                           function=e.func, construct="%s/loss-callback" % e.func, nontrivial=False, msg="callback() on the loss path")
        rule_fire_once(ctx, cat, prefix="X-FIRE")
        rule_drop(ctx, cat, prefix="X-DROP")
        # clean-up reached on every path
        for tr in lc.loss:
            fnc = tr.entry.func
            ctx.ob("X-REACH", "%s loss path completes" % cq, tr.path.exit_kind() != "raise", where="%s:%d" % (fnc.file, fnc.node.lineno),
                   function=fnc.qual, construct="%s/loss/raises" % cls.qual, nontrivial=False, msg="exception escapes connectionLost")
        for ent, p, loc, tr, e in hd.fired_handles():
            if tr.kind == "LOSS":
                ctx.ob("X-REACH", "%s clean-up is not skipped by a fired handle" % cq, False, where=where(e), function=e.func,
                       construct="%s/loss/fired-handle/%s" % (cls.qual, ".".join(loc)),
                       msg="%s leaves its fired handle in %s; connectionLost cancels it, AlreadyCalled skips the whole clean-up" % (short(ent.func.qual), ".".join(loc)))
                break
        seen_ul = set()
        for tr, e, loc, tr2, e2 in hd.unstarted_loops():
            if (e.func, loc) in seen_ul or not (tr2.kind == "LOSS"):
                continue
            seen_ul.add((e.func, loc))
            ctx.ob("X-REACH", "%s no periodic call is stored without being started (%s)" % (cq, tr.label()), False, where=where(e), function=e.func,
                   construct="%s/loop-created-not-started/%s" % (e.func, ".".join(loc)),
                   msg="%s creates the periodic call stored in %s without starting it; %s (%s) finds it not None and calls stop() on a loop that is not running: LoopingCall.stop() asserts - %s" % (tr.label(), ".".join(loc), tr2.label(), where(e2), 'the AssertionError leaves connectionLost before anything pending is failed'))
        for tr, e, loc, tr2, e2 in hd.cancelled_kept():
            ctx.ob("X-REACH", "%s clean-up is not skipped by a handle cancelled twice (%s)" % (cq, tr.label()), False, where=where(e), function=e.func,
                   construct="%s/cancelled-handle-kept/%s" % (e.func, ".".join(loc)),
                   msg="%s cancels the handle in %s and leaves it stored; connectionLost (%s) finds it not None and cancels it again: "
                       "AlreadyCancelled skips the whole clean-up, nothing pending is failed and the queue and windows survive the clean "
                       "session" % (tr.label(), ".".join(loc), where(e2)))
        for tr, e, loc, why in hd.none_deref():
            if tr.kind == "LOSS":
                ctx.ob("X-REACH", "%s no None handle used on the loss path" % cq, False, where=where(e), function=e.func,
                       construct="%s/none-handle/%s" % (e.func, ".".join(loc)), msg=why)
        for tr, f, rg, (tr0, st0, rg0) in prefired_fires(cat):
            if tr.kind == "LOSS":
                ctx.ob("X-REACH", "%s clean-up is not cut short by an already fired Deferred" % cq, False, where=where(f), function=f.func,
                       construct="%s/loss/prefired/%s" % (cls.qual, rg),
                       msg="errback() of a request taken from %s without testing .called, but %s registers requests whose Deferred was created "
                           "already fired (%s): AlreadyCalledError skips the rest of the clean-up" % (rg, tr0.label(), where(st0)))
    ctx.count("registry_x_clean_loss_path", n)
    ctx.floor("registry x clean-loss-path instances", n, 10)
