"""C07: subscribe()/unsubscribe() - one request per call, matched by identifier, window enforced."""
from ..model import AnalysisError
from ..terms import SELF, FAC, NONE, show, is_const, mentions, subterms
from ..catalogue import catalogue, is_effect
from ..lifecycle import lifecycle
from .common import where, cls_short, contexts, honoured, capabilities, types, short, written_object, exc_class
from .flows import (rule_lookup, rule_fire_once, rule_drop, mark_qos0_exception, owner_of_fire, elem_reg, post_dispatch,
                    ack_cells, net_msgid)
from .c20 import reject_info

EXPLANATION = (
    "Path rules on the subscribe/unsubscribe flows of the subscriber-capable classes: argument normalisation yields exactly "
    "the stated shapes and reaches encode() unmodified; every accepting path allocates the identifier with the factory "
    "allocator, registers the request once under it, arms one retry timer and writes the stored bytes once; SUBACK/UNSUBACK "
    "handlers look the request up by the received identifier (effect-free miss), fire once with the granted list / the "
    "identifier, and remove it; the window rejection is an ORDERING comparison of the number of pending requests with the "
    "current window that dominates every effect and raises MQTTWindowError; lifecycle: a window that a non-clean loss does "
    "not drain must be re-sent by the resume path and drained by the clean-start purge. Decides the structural clauses; "
    "interleavings are not explored. S-FRAME: the premises of the framing lemma (every rule of C03) hold, a necessary condition of anything said about inbound packets. S-REACH: no SUBACK/UNSUBACK handler cancels, without an .active() test, a handle that a retry routine can leave stored after it fired - the exception would precede the callback. S-HOOK: the onMqttConnectionMade hook runs after the session purge / resume of the CONNACK (a subscribe() made by the hook is otherwise re-sent or failed at once).")
ASSUMPTIONS = ["the window size can be lowered at any time (setWindowSize), so an equality test does not bound the window"]

KIND = {"subscribe": ("windowSubscribe", "SUBSCRIBE", "SUBACK"), "unsubscribe": ("windowUnsubscribe", "UNSUBSCRIBE", "UNSUBACK")}


def check(ctx):
    a = ctx.a
    from .c03 import framing_premise
    framing_premise(ctx, 'S-FRAME', 'a SUBACK/UNSUBACK that is mis-framed leaves its request pending or answers another one')
    # "under a fresh packet identifier": fresh is what the allocator guarantees (C17's rules)
    from .common import run_premise
    # "calls beyond the window are rejected ...": the window counts what is registered, so a call that is rejected (for whatever reason:
    # an unencodable topic) must leave nothing registered - C20's atomicity rule for subscribe()/unsubscribe()
    run_premise(ctx, "C20", "S-WINDOW", "rejected-calls", "a rejected subscribe()/unsubscribe() registers nothing",
                "a rejected call leaves its half-built request in the window: it holds a slot for ever (later well-formed calls fail with "
                "MQTTWindowError) and the loss path trips over its missing alarm",
                only=lambda f: f.rule == "G-ATOMIC" and ("subscribe" in f.construct))
    run_premise(ctx, "C17", "S-IDS", "identifiers", "the identifier given to a SUBSCRIBE / UNSUBSCRIBE is not carried by another unfinished request",
                "a new request takes the identifier (and the window slot) of one that is still waiting: the older Deferred is orphaned "
                "with its timer running, the acknowledgement settles the wrong request")
    ty = types(a)
    caps, pm, _ = capabilities(a)
    classes = [c for c in a.protos if "sub" in caps.get(c.qual, set())]
    ctx.floor("subscriber-capable classes", len(classes), 2)
    n_accept = 0
    for cls in classes:
        cat = catalogue(a, cls)
        from .flows import rule_hook_after_session
        rule_hook_after_session(ctx, cat, "S-HOOK", "a subscribe() / unsubscribe() made by the hook is written twice (persistent session) or failed at once with its timer left armed (clean session)")
        eng = cat.eng
        cq = cls_short(cls.qual)
        ccaps = caps[cls.qual]
        mark_qos0_exception(cat)
        for op, (reg, pdu, ack) in KIND.items():
            accept, reject = [], []
            for tr in contexts(cat):
                if tr.kind == "API" and tr.name == op and tr.slot == "CONNECTED":
                    r, c, how = reject_info(tr.path)
                    (reject if r else accept).append((tr, c, how))
            ent = cat.get(op)
            w = "%s:%d" % (ent.func.file, ent.func.node.lineno)
            ctx.ob("S-FLOW", "%s.%s has accepting paths" % (cq, op), bool(accept), where=w, construct="%s.%s/no-accept" % (cls.qual, op))
            P = {q: ("param", q) for q in ent.func.params if q != "self"}
            topics = P.get("topics")
            qos = P.get("qos")
            for tr, c, how in accept:
                n_accept += 1
                evs = post_dispatch(tr)
                regs = [e for e in evs if e.kind == "REG"]
                arms = [e for e in evs if e.kind == "ARM"]
                writes = [e for e in evs if e.kind == "WRITE"]
                encs = [e for e in evs if e.kind == "ENCODE" and e.a["ok"]]
                req = regs[0].a["val"] if regs else None
                fn = regs[0].func if regs else ent.func.qual
                ok = len(regs) == 1 and regs[0].a["reg"] == reg and pdu in {x.split(".")[-1] for x in ty.class_of(req, eng)}
                ctx.ob("S-FLOW", "%s.%s registers exactly one %s in %s" % (cq, op, pdu, reg), ok, where=where(regs[0]) if regs else w,
                       function=fn, construct="%s.%s/register" % (cls.qual, op),
                       msg="accepting path registers %s" % [(e.a["reg"], show(e.a["val"])) for e in regs], trigger=tr.label())
                if not ok:
                    continue
                enc = [e for e in encs if e.a["obj"] == req]
                wire = enc[-1].a["fields"].get("msgId") if enc else None
                ctx.ob("S-ID", "%s.%s: identifier on the wire comes from the allocator" % (cq, op),
                       isinstance(wire, tuple) and wire[0] == "facret", where=where(enc[-1]) if enc else w, function=fn,
                       construct="%s.%s/id-source" % (cls.qual, op), msg="msgId reaching encode() is %s" % show(wire))
                ctx.ob("S-ID", "%s.%s: registered under the identifier on the wire" % (cq, op), regs[0].a["key"] == wire,
                       where=where(regs[0]), function=fn, construct="%s.%s/key" % (cls.qual, op),
                       msg="registered under %s, wire identifier %s" % (show(regs[0].a["key"]), show(wire)))
                dm = [e for e in evs if e.kind == "SETATTR" and e.a["field"] == "msgId" and isinstance(e.a["obj"], tuple) and e.a["obj"][0] == "dfr"]
                ret = tr.path.exit[1] if tr.path.exit_kind() == "return" else None
                ctx.ob("S-ID", "%s.%s: returned Deferred exposes the wire identifier" % (cq, op),
                       bool(dm) and dm[-1].a["val"] == wire and dm[-1].a["obj"] == ret and ret[2] == "plain", where=where(dm[-1]) if dm else w,
                       function=fn, construct="%s.%s/deferred-msgId" % (cls.qual, op),
                       msg="deferred.msgId=%s returned=%s" % (show(dm[-1].a["val"]) if dm else None, show(ret)))
                late = [e for e in evs if e.kind == "SETATTR" and e.a["obj"] == req and e.a["field"] in ("msgId", "topics") and enc
                        and evs.index(e) > evs.index(enc[-1])]
                ctx.ob("S-ID", "%s.%s: identifier and topics untouched after encode()" % (cq, op), not late, where=where(late[0]) if late else w,
                       function=fn, construct="%s.%s/late-assign" % (cls.qual, op), nontrivial=False,
                       msg="%s assigned after the packet was encoded" % (late[0].a["field"] if late else ""))
                arm_ok = len(arms) == 1 and req in arms[0].a["args"] and isinstance(arms[0].a["target"], tuple) and arms[0].a["target"][0] in ("bm", "closure")
                ctx.ob("S-FLOW", "%s.%s arms exactly one retry timer for the request" % (cq, op), arm_ok, where=where(arms[0]) if arms else w,
                       function=fn, construct="%s.%s/arm" % (cls.qual, op), msg="%d timers armed" % len(arms))
                wr_ok = len(writes) == 1 and written_object(writes[0].a["data"])[1] == req
                ctx.ob("S-FLOW", "%s.%s writes the stored bytes of the request exactly once" % (cq, op), wr_ok,
                       where=where(writes[0]) if writes else w, function=fn, construct="%s.%s/write" % (cls.qual, op),
                       msg="%d writes on the accepting path" % len(writes))
                # normalisation: the topic list that is encoded
                tl = enc[-1].a["fields"].get("topics") if enc else None
                if op == "subscribe":
                    shapes = [topics,
                              ("list", (("tuple", (topics, qos)),)),
                              ("list", (("tuple", (("sub", topics, ("const", 0)), ("sub", topics, ("const", 1)))),))]
                else:
                    shapes = [topics, ("list", (topics,))]
                def _shape_ok(t):
                    # (a conditional expression choosing between two of the stated shapes: `[t] if isinstance(t, str) else t`)
                    return t in shapes or (isinstance(t, tuple) and t[:1] == ("ifexp",) and len(t) >= 3 and _shape_ok(t[1]) and _shape_ok(t[2]))
                ctx.ob("S-NORM", "%s.%s encodes the topics as given (one of the stated shapes)" % (cq, op), _shape_ok(tl),
                       where=where(enc[-1]) if enc else w, function=fn, construct="%s.%s/topics" % (cls.qual, op),
                       msg="topic list reaching encode() is %s" % show(tl))
                # window guard entailed on the accepting path
                entailed = False
                for cnd in tr.path.conds:
                    k, v = cnd.term, cnd.pol
                    if isinstance(k, tuple) and k[0] == "not":
                        k, v = k[1], not v
                    if isinstance(k, tuple) and k[0] == "cmp" and _is_len_of(k[2], reg) and k[3] == ("attr", SELF, "_window"):
                        if (k[1] == ">=" and v is False) or (k[1] == "<" and v is True):
                            entailed = True
                    if isinstance(k, tuple) and k[0] == "cmp" and _is_len_of(k[3], reg) and k[2] == ("attr", SELF, "_window"):
                        if (k[1] == "<=" and v is False) or (k[1] == ">" and v is True):
                            entailed = True
                ctx.ob("S-WINDOW", "%s.%s accepted only while fewer than `window` requests are pending (ordering test)" % (cq, op),
                       entailed, where=w, function=ent.func.qual, construct="%s.%s/window-guard" % (cls.qual, op),
                       msg="the accepting path does not establish len(%s) < window (an equality test does not: the window can be "
                           "lowered below the number of pending requests)" % reg, trigger=tr.label())
            wrej = [(tr, c, how) for tr, c, how in reject if c and c.endswith("MQTTWindowError")]
            ctx.ob("S-WINDOW", "%s.%s has a window rejection" % (cq, op), bool(wrej), where=w, construct="%s.%s/no-window-rejection" % (cls.qual, op),
                   msg="no path fails with MQTTWindowError")
            for tr, c, how in wrej:
                eff = [e for e in post_dispatch(tr) if is_effect(e) and not (e.kind == "FACRET" or (e.kind == "SETATTR" and e.a["obj"] == FAC))]
                ctx.ob("S-WINDOW", "%s.%s window rejection writes nothing" % (cq, op), not eff and how == "fail",
                       where=where(eff[0]) if eff else w, function=ent.func.qual, construct="%s.%s/window-rejection-effect" % (cls.qual, op),
                       msg="window rejection has effect %s / is not a failed Deferred" % (eff[0].brief() if eff else how))
            # acknowledgement side
            rule_lookup(ctx, cat, ccaps, ack, reg)
            for tr in ack_cells(ctx, cat, ccaps, ack):
                evs = post_dispatch(tr)
                dec = [e for e in tr.events if e.kind == "DECODE" and e.a["ok"]]
                resp = dec[0].a["obj"] if dec else None
                for f in [e for e in evs if e.kind == "FIRE"]:
                    own = owner_of_fire(f)
                    exp_arg = ("net", resp, "granted") if ack == "SUBACK" else ("net", resp, "msgId")
                    lk = [x for x in evs if x.kind == "LOOKUP" and x.a["reg"] == reg and x.a["hit"]]
                    ok = f.a["how"] == "callback" and f.a["arg"] == exp_arg and bool(lk) and own == ("elem", reg, lk[0].a["key"])
                    ctx.ob("S-ACK", "%s %s calls back the looked-up request with %s" % (cq, ack, "the granted list" if ack == "SUBACK" else "the identifier"),
                           ok, where=where(f), function=f.func, construct="%s/%s/callback" % (f.func, ack),
                           msg="%s on %s with %s" % (f.a["how"], show(own), show(f.a["arg"])))
                    # the application's callbacks run inside callback(): a subscribe()/unsubscribe() made from there counts the
                    # window, so the acknowledged request has to have left it by then - otherwise a request made while fewer than
                    # `window` are pending is refused with MQTTWindowError
                    un = [x for x in evs if x.kind == "UNREG" and x.a["reg"] == reg]
                    before = [x for x in un if x.seq < f.seq]
                    ctx.ob("S-ACK", "%s %s takes the request out of its window before its Deferred fires" % (cq, ack), bool(before) or not un,
                           where=where(f), function=f.func, construct="%s/%s/fires-before-removal" % (f.func, ack),
                           msg="the Deferred of the acknowledged request fires (user callbacks run) while the request still occupies its slot in "
                               "%s: a %s() made from the callback with the window otherwise one short of full is refused with MQTTWindowError "
                               "although fewer than `window` requests are pending" % (reg, "subscribe" if ack == "SUBACK" else "unsubscribe"))
        rule_fire_once(ctx, cat)
        rule_drop(ctx, cat)
        # who may success-fire a subscribe/unsubscribe Deferred
        for tr in contexts(cat):
            for e in tr.events:
                if e.kind == "FIRE" and e.a["how"] == "callback":
                    rg = elem_reg(owner_of_fire(e))
                    if rg in ("windowSubscribe", "windowUnsubscribe"):
                        exp = "SUBACK" if rg == "windowSubscribe" else "UNSUBACK"
                        ok = tr.kind == "NET" and tr.name == exp and tr.slot == "CONNECTED"
                        ctx.ob("S-WHO", "%s success of a %s request only on %s (%s)" % (cq, rg, exp, tr.label()), ok, where=where(e),
                               function=e.func, construct="%s/success-fire/%s/%s" % (e.func, rg, tr.label()),
                               msg="Deferred of %s succeeds in context %s" % (rg, tr.label()))
        # ---- lifecycle: no request outlives its connection unattended ------------------
        lc = lifecycle(a, cls)
        for reg in ("windowSubscribe", "windowUnsubscribe"):
            drained_always = lc.all_(lc.loss, lambda tr: tr.path.exit_kind() == "raise" or __import__("sa.lifecycle").lifecycle.drains(tr.path.events, reg, "after-cancel")[0])
            keeps = lc.loss_keeps(reg)
            resumed = lc.resume_rearms(reg)
            purged = lc.purge_drains(reg)
            ok = drained_always or (not keeps) or (resumed and purged)
            loss_fn = lc.loss[0].entry.func if lc.loss else None
            ctx.ob("S-LIFE", "%s %s: a request whose connection has gone is failed or sent again" % (cq, reg), ok,
                   where="%s:%d" % (loss_fn.file, loss_fn.node.lineno) if loss_fn else "", function=loss_fn.qual if loss_fn else "",
                   construct="%s/%s/outlives-connection" % (cls.qual, reg),
                   msg="%s survives a non-clean connection loss (alarms cleared, entries kept) but the next connection neither re-sends it "
                       "(resume: %s) nor fails it on a clean start (purge: %s): the Deferred stays pending for ever and the entry keeps "
                       "later calls out of the window" % (reg, resumed, purged),
                   facts={"loss_keeps": keeps, "resume_rearms": resumed, "purge_drains": purged})
    # requests "of the same kind": the two windows of an address are containers of their own (built in buildProtocol from the
    # registry they are stored in, or fresh)
    from ..catalogue import profile_map
    for p in profile_map(a):
        if p.exit_kind() != "return":
            continue
        for e in p.events:
            if e.kind != "REGTOP" or e.a["reg"] not in ("windowSubscribe", "windowUnsubscribe"):
                continue
            v = e.a["val"]
            own = False
            if isinstance(v, tuple) and v[0] == "call" and isinstance(v[1], tuple) and v[1][0] == "attr" and v[1][2] in ("get", "setdefault"):
                own = v[1][1] == ("regtop", e.a["reg"])
            elif isinstance(v, tuple) and v[0] in ("fresh", "dictlit") or (isinstance(v, tuple) and v[0] == "call" and v[1] == ("builtin", "dict")):
                own = True
            ctx.ob("S-DISTINCT", "%s of an address is its own container" % e.a["reg"], own, where=where(e), function=e.func,
                   construct="buildProtocol/%s/own-container" % e.a["reg"],
                   msg="the container stored as %s[addr] is %s: subscribe and unsubscribe requests would share one window (counted together, "
                       "acknowledged by each other's packets, re-sent twice on resume)" % (e.a["reg"], show(v)), nontrivial=False)
    ctx.count("accept_paths", n_accept)
    # S-TIMER: one retry timer per pending request, none that nothing can cancel any more (a request failed by the loss of its
    # connection whose timer lives on is both failed and sent again)
    from .c13 import timer_discipline
    from ..handles import handles
    for cls in classes:
        timer_discipline(ctx, a, cls, regs=("windowSubscribe", "windowUnsubscribe"), r_cancel="S-TIMER", r_arm="S-TIMER")
        from .flows import rule_ack_reaches_fire
        rule_ack_reaches_fire(ctx, a, cls, "S-REACH", ("windowSubscribe", "windowUnsubscribe"), ("SUBACK", "UNSUBACK"))
        hd = handles(a, cls)
        for tr, what, ok, ev in hd.loss_obligations():
            if "windowSubscribe" in what or "windowUnsubscribe" in what:
                fnc = tr.entry.func
                ctx.ob("S-TIMER", "%s loss: %s" % (cls_short(cls.qual), what), ok, where=where(ev) if ev is not None else "%s:%d" % (fnc.file, fnc.node.lineno),
                       function=fnc.qual, construct="%s/loss/%s" % (cls.qual, what), nontrivial=False,
                       msg="connectionLost: %s fails on a path: the retry timer of a request of the lost connection keeps re-sending it" % what)
    ctx.floor("subscribe/unsubscribe accepting paths", n_accept, 4)


def _is_len_of(t, reg):
    return isinstance(t, tuple) and t[0] == "call" and t[1] == ("builtin", "len") and len(t[2]) == 1 \
        and isinstance(t[2][0], tuple) and t[2][0][:2] == ("reg", reg)
