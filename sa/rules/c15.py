"""C15: keepalive - PINGREQ every k seconds, abort when unanswered, silent when k=0."""
from ..model import AnalysisError
from ..terms import SELF, FAC, NONE, show, is_const, mentions, subterms
from ..catalogue import catalogue, is_effect
from ..lifecycle import lifecycle
from ..handles import handles
from .common import where, cls_short, contexts, capabilities, types, short, written_object, kind_names
from .flows import post_dispatch

EXPLANATION = (
    "Structural clauses of the keepalive mechanism on every abstract path: Q1 - the periodic call is created and started "
    "only on the accepted-CONNACK path, control-dependent on keepalive != 0, with a period that is an unmodified alias of "
    "CONNECT's keepalive, and its target reaches the PINGREQ routine through the state object; Q2 - the PINGREQ routine "
    "writes exactly the stored PINGREQ bytes once and arms a deadline whose delay is an unmodified alias of the same "
    "keepalive and whose callback ends in closing the connection on every path; Q3 - the PINGRESP handler cancels and "
    "clears the deadline and is safe on a None handle; Q4 - the loss closure stops the periodic call and cancels the "
    "deadline, no fired handle is cancelled; Q5 - PINGREQ bytes are written only by that routine, reachable only from the "
    "periodic call and ping() while CONNECTED. All timing statements (every k seconds, within k seconds, never when "
    "answered in time) are NOT decided. Not a finding on purpose: the routine overwrites the deadline handle without "
    "cancelling the previous one - period and deadline are the same k, so the orphaned deadline is the one that must fire. Q0: the premises of the framing lemma (every rule of C03) hold, a necessary condition of anything said about inbound packets. "
    " Q7 - no reset()/delay() on the periodic call or the deadline in any context, and the periodic call is stopped by the loss only. Q1 also: the keepalive the CONNECT request holds when connect() hands it on is connect()'s argument alone. "
    " Q2 also: the periodic call (found from the LoopingCall's target) writes a PINGREQ on every completing path while CONNECTED, and the expired deadline closes with abortConnection, not an orderly close.")
ASSUMPTIONS = ["LoopingCall calls its target every `period` seconds starting immediately (Twisted contract)"]

CONN = ("attr", SELF, "connReq")


def check(ctx):
    a = ctx.a
    from .c03 import framing_premise
    framing_premise(ctx, 'Q0', 'a PINGRESP that is mis-framed is not seen in time and the deadline closes a healthy connection')
    ty = types(a)
    n_ping = 0
    for cls in a.protos:
        cat = catalogue(a, cls)
        eng = cat.eng
        cq = cls_short(cls.qual)
        lc = lifecycle(a, cls)
        hd = handles(a, cls)
        ping, packet = hd.ping, hd.ping_packet
        stored = eng.init_heap.get((ping, "pdu"))
        if stored is None:
            stored = next((v for (o, _f), v in eng.init_heap.items() if o == ping and isinstance(v, tuple) and v and v[0] == "encres"), None)
        # ... or kept where every other request keeps its wire image: in the object's own .encoded, filled by the encode() of the constructor
        init_enc = [e for e in eng.init_events if e.kind == "ENCODE" and e.a.get("ok") and e.a["obj"] == packet]
        in_encoded = stored is None and len(init_enc) == 1
        ctx.ob("Q2", "%s the PINGREQ packet is encoded once in the constructor" % cq,
               (isinstance(stored, tuple) and stored[0] == "encres" and stored[1] == packet) or in_encoded, where=cls.module.path,
               construct="%s/pingreq/stored" % cls.qual, nontrivial=False, msg="stored PINGREQ bytes are %s" % show(stored))
        # "with keepalive k": the k the CONNACK code reads from the CONNECT request is the one connect() was called with - nothing else
        # (a protocol-level default, the keepalive of an earlier connection) is mixed in on the way
        for tr in contexts(cat):
            if tr.kind != "API" or tr.name != "connect":
                continue
            news = {e.a["obj"] for e in tr.events if e.kind == "NEW" and (e.a.get("cls") or "").endswith(".CONNECT")}
            sets = [e for e in tr.events if e.kind == "SETATTR" and e.a["obj"] in news and e.a["field"] == "keepalive"]
            for e in sets[-1:]:       # (the constructor's default comes first; what counts is what the request holds when it is handed on)
                if True:
                    ctx.ob("Q1", "%s the keepalive of the CONNECT is connect()'s argument (%s)" % (cq, tr.label()), e.a["val"] == ("param", "keepalive"),
                           where=where(e), function=e.func, construct="%s/keepalive-source" % e.func, nontrivial=False,
                           msg="the CONNECT request's keepalive is %s, not the keepalive argument alone: connect(keepalive=0) can start the "
                               "periodic PINGREQ (or a given k be replaced by another period)" % show(e.a["val"]))
        # ---------------- Q1 ----------------
        starts = []
        for tr in contexts(cat):
            for e in tr.events:
                if e.kind in ("LOOPNEW",) or (e.kind == "ARM" and e.a["how"] == "LoopingCall.start"):
                    ok_ctx = tr in lc.connack_ok
                    ctx.ob("Q1", "%s periodic keepalive call created/started only on an accepted CONNACK (%s)" % (cq, tr.label()), ok_ctx,
                           where=where(e), function=e.func, construct="%s/keepalive-start/%s" % (e.func, tr.label()),
                           msg="keepalive loop created or started in context %s" % tr.label())
                    if e.kind == "ARM":
                        starts.append((tr, e))
        for tr, e in starts:
            ka = ("attr", CONN, "keepalive")
            ctx.ob("Q1", "%s keepalive period is CONNECT's keepalive" % cq, e.a["delay"] == ka, where=where(e), function=e.func,
                   construct="%s/keepalive-period" % e.func, msg="LoopingCall started with period %s" % show(e.a["delay"]))
            guarded = False
            for c in e.conds:
                t, pol = c.term, c.pol
                while isinstance(t, tuple) and t and t[0] == "not":
                    t, pol = t[1], not pol
                if isinstance(t, tuple) and t[0] == "cmp" and t[2] == ka and t[3] == ("const", 0):
                    if (t[1] in ("!=", ">") and pol) or (t[1] in ("==", "<=") and not pol):
                        guarded = True
                if t == ka and pol:
                    guarded = True
            ctx.ob("Q1", "%s keepalive loop only for keepalive != 0" % cq, guarded, where=where(e), function=e.func,
                   construct="%s/keepalive-zero" % e.func, msg="periodic call started without testing keepalive != 0")
            tgt = e.a["target"]
            okt = isinstance(tgt, tuple) and tgt[0] == "bm" and tgt[1] == SELF
            ctx.ob("Q1", "%s periodic call targets a method of the protocol" % cq, okt, where=where(e), function=e.func,
                   construct="%s/keepalive-target" % e.func, nontrivial=False, msg="LoopingCall target is %s" % show(tgt))
            # the deadline delay alias: _pingReq.keepalive := request.keepalive on this path
            al = [x for x in tr.events if x.kind == "SETATTR" and x.a["obj"] == ping and x.a["val"] == ka]
            ctx.ob("Q2", "%s deadline length recorded from CONNECT's keepalive" % cq, len(al) >= 1, where=where(e), function=e.func,
                   construct="%s/deadline-alias" % e.func, nontrivial=False, msg="no field of the ping request is assigned CONNECT's keepalive")
        has_ka = bool(starts)
        ctx.ob("Q1", "%s an accepted CONNACK can start the keepalive loop" % cq, has_ka, where=cls.module.path,
               construct="%s/keepalive/never-started" % cls.qual, msg="no accepted-CONNACK path starts the periodic PINGREQ")
        alias_fields = set()
        for tr, e in starts:
            for x in tr.events:
                if x.kind == "SETATTR" and x.a["obj"] == ping and x.a["val"] == ("attr", CONN, "keepalive"):
                    alias_fields.add(x.a["field"])
        # the periodic call, while CONNECTED, writes a PINGREQ on every path that completes (found from the LoopingCall's target, not
        # from the write, so that a routine that no longer writes is a finding and not a vanished anchor)
        for _tr0, e0 in starts[:1]:
            _key, pfunc, _x = cat._target(e0.a["target"])
            if pfunc is None:
                continue
            for tr in contexts(cat):
                if tr.kind != "TIMER" or tr.entry.func.qual != pfunc.qual or tr.path.exit_kind() == "raise":
                    continue
                d = [x for x in tr.events if x.kind == "DISPATCH"]
                if not d or d[0].a["slot"] != "CONNECTED":
                    continue
                wrote = False
                for x in tr.events:
                    if x.kind == "WRITE":
                        how_, obj_ = written_object(x.a["data"])
                        if obj_ is not None and "PINGREQ" in kind_names(a, ty.class_of(obj_, eng)):
                            wrote = True
                ctx.ob("Q2", "%s the periodic call writes a PINGREQ while CONNECTED" % cq, wrote, where="%s:%d" % (pfunc.file, pfunc.node.lineno),
                       function=pfunc.qual, construct="%s/pingreq-missing" % pfunc.qual,
                       msg="a path of the periodic keepalive call completes in state CONNECTED without writing a PINGREQ")
        # ---------------- Q2 / Q5 ----------------
        for tr in contexts(cat):
            for e in tr.events:
                if e.kind != "WRITE":
                    continue
                how, obj = written_object(e.a["data"])
                cl = kind_names(a, ty.class_of(obj, eng)) if obj is not None else set()
                if "PINGREQ" not in cl:
                    continue
                n_ping += 1
                okc = (tr.kind in ("TIMER", "AUX") and short(tr.name) == "ping")
                d = [x for x in tr.events if x.kind == "DISPATCH"]
                okc = okc and bool(d) and d[0].a["slot"] == "CONNECTED"
                ctx.ob("Q5", "%s PINGREQ written only from the periodic call / ping() while CONNECTED (%s)" % (cq, tr.label()), okc,
                       where=where(e), function=e.func, construct="%s/pingreq-context/%s" % (e.func, tr.label()),
                       msg="PINGREQ written in context %s" % tr.label())
                ctx.ob("Q2", "%s PINGREQ write sends exactly the stored bytes" % cq, e.a["data"] == stored or (in_encoded and (how, obj) == ("encoded", packet)), where=where(e), function=e.func,
                       construct="%s/pingreq-bytes" % e.func, msg="PINGREQ routine writes %s" % show(e.a["data"]))
                ws = [x for x in tr.events if x.kind == "WRITE"]
                arms = [x for x in tr.events if x.kind == "ARM"]
                ctx.ob("Q2", "%s one PINGREQ and one deadline per call" % cq, len(ws) == 1 and len(arms) == 1, where=where(e), function=e.func,
                       construct="%s/pingreq-count" % e.func, msg="%d writes, %d timers on a path of the PINGREQ routine" % (len(ws), len(arms)))
                for x in arms:
                    okd = isinstance(x.a["delay"], tuple) and x.a["delay"][:2] == ("attr", ping) and x.a["delay"][2] in alias_fields
                    ctx.ob("Q2", "%s deadline delay is CONNECT's keepalive" % cq, okd, where=where(x), function=x.func,
                           construct="%s/deadline-delay" % x.func, msg="deadline armed with delay %s" % show(x.a["delay"]))
                    st = [y for y in tr.events if y.kind == "SETATTR" and y.a["val"] == x.a["handle"]]
                    ctx.ob("Q2", "%s deadline handle kept on the ping request" % cq, bool(st) and st[0].a["obj"] == ping, where=where(x),
                           function=x.func, construct="%s/deadline-handle" % x.func, nontrivial=False, msg="deadline handle is not stored")
                    key, func, _ = cat._target(x.a["target"])
                    dl = cat.get(func.qual) if func is not None else None
                    okt = dl is not None and all(any(y.kind == "CLOSE" for y in p.walk()) and p.exit_kind() != "raise" for p in dl.paths)
                    ctx.ob("Q2", "%s an expired deadline closes the connection on every path" % cq, okt, where=where(x), function=x.func,
                           construct="%s/deadline-target" % x.func, msg="deadline callback %s does not always close the connection" % show(x.a["target"]))
                    if okt:
                        # "it aborts the connection": an orderly close waits for the write buffer to drain, which a broker that has
                        # gone silent may never let happen - the loss would not be reported and the keepalive would have detected nothing
                        soft = [y for p in dl.paths for y in p.walk() if y.kind == "CLOSE" and y.a.get("how") != "abortConnection"]
                        ctx.ob("Q2", "%s an expired deadline aborts the connection (no orderly close)" % cq, not soft, where=where(soft[0]) if soft else where(x),
                               function=soft[0].func if soft else x.func, construct="%s/deadline-close-kind" % x.func,
                               msg="the deadline callback closes with %s(): towards a broker that no longer answers the orderly close can wait "
                                   "for ever, the loss is never reported" % (soft[0].a.get("how") if soft else ""))
        # ---------------- Q3 ----------------
        for tr in contexts(cat):
            if not (tr.kind == "NET" and tr.name == "PINGRESP" and tr.slot == "CONNECTED"):
                continue
            evs = post_dispatch(tr)
            facts = tr.path.st.facts if tr.path.st is not None else {}
            isnone = any(isinstance(k, tuple) and k[0] in ("truthy", "nonnull") and v is False
                         and hd.handle_location(k[1], tr) == ("ping", "alarm") for k, v in facts.items())
            cn = [e for e in evs if e.kind == "CANCEL" and hd.handle_location(e.a["handle"], tr) == ("ping", "alarm")]
            cl = [e for e in evs if e.kind == "SETATTR" and hd.obj_location(e.a["obj"], tr) == ("ping",) and hd.logical(e.a["field"]) == "alarm"
                  and e.a["val"] == NONE]
            fn = evs[0].func if evs else ""
            if isnone:
                eff = [e for e in evs if is_effect(e)]
                ctx.ob("Q3", "%s unsolicited PINGRESP has no effect" % cq, not eff, where=where(eff[0]) if eff else cls.module.path, function=fn,
                       construct="%s/PINGRESP/unsolicited" % cls.qual, msg="PINGRESP with no PINGREQ outstanding causes %s" % (eff[0].brief() if eff else ""))
            else:
                ctx.ob("Q3", "%s PINGRESP cancels and clears the deadline" % cq, len(cn) == 1 and len(cl) == 1,
                       where=where(cn[0]) if cn else (where(evs[0]) if evs else cls.module.path), function=fn,
                       construct="%s/PINGRESP/cancel" % cls.qual, msg="PINGRESP path: %d cancels, %d clears of the deadline" % (len(cn), len(cl)))
            if tr.path.exit_kind() == "raise":
                ctx.ob("Q3", "%s PINGRESP handler completes" % cq, False, where=cls.module.path, function=fn,
                       construct="%s/PINGRESP/raises" % cls.qual, msg="exception escapes the PINGRESP handler")
        for tr, e, loc, why in hd.none_deref():
            if loc[0] == "ping":
                ctx.ob("Q3", "%s keepalive handle never used while None (%s)" % (cq, tr.label()), False, where=where(e), function=e.func,
                       construct="%s/none-handle/%s" % (e.func, ".".join(loc)),
                       msg="%s.%s() on a handle that can be None (%s): an unsolicited or second PINGRESP raises AttributeError out of dataReceived" % (
                           ".".join(loc), e.a["how"], why))
        # ---------------- Q6: the deadline of an unanswered PINGREQ is cancelled only by a PINGRESP or by the loss of the connection ----
        for tr in contexts(cat):
            for e in tr.events:
                if e.kind == "CANCEL" and hd.handle_location(e.a["handle"], tr) == ("ping", "alarm"):
                    ok = tr.kind == "LOSS" or (tr.kind == "NET" and tr.name == "PINGRESP")
                    ctx.ob("Q6", "%s PINGRESP deadline cancelled only by PINGRESP or connection loss (%s)" % (cq, tr.label()), ok, where=where(e),
                           function=e.func, construct="%s/deadline-cancel/%s" % (e.func, tr.label()),
                           msg="the deadline of an outstanding PINGREQ is cancelled in context %s: a later PINGREQ (the periodic call has the same "
                               "period as the deadline) discards the deadline of an unanswered one and a dead broker is never detected" % tr.label())
        # ---------------- Q7: the schedule of the periodic call and of the deadline is left alone -----------------------------------
        # started at CONNACK, stopped at the loss; reset()/delay() (other traffic counted as keepalive traffic, say) push the next
        # PINGREQ or the deadline into the future: "at least every k seconds ... any amount of other traffic"
        n_q7 = 0
        for tr in contexts(cat):
            for e in tr.events:
                loc = hd.handle_location(e.a.get("handle"), tr) if e.kind in ("TIMERQ", "CANCEL") else None
                if loc is None or loc[0] != "ping":
                    continue
                if e.kind == "TIMERQ" and e.a["name"] in ("reset", "delay"):
                    n_q7 += 1
                    ctx.ob("Q7", "%s keepalive %s is never rescheduled (%s)" % (cq, loc[1], tr.label()), False, where=where(e), function=e.func,
                           construct="%s/keepalive-%s/%s" % (e.func, loc[1], e.a["name"]),
                           msg="%s() on the keepalive %s in context %s moves the next %s into the future: with enough other traffic no PINGREQ "
                               "is written for longer than the keepalive / an unanswered one is never detected" % (
                                   e.a["name"], "periodic call" if loc[1] == "timer" else "deadline", tr.label(),
                                   "PINGREQ" if loc[1] == "timer" else "abort"))
                if e.kind == "CANCEL" and loc == ("ping", "timer"):
                    n_q7 += 1
                    ctx.ob("Q7", "%s the periodic PINGREQ call is stopped only by the loss of the connection (%s)" % (cq, tr.label()), tr.kind == "LOSS",
                           where=where(e), function=e.func, construct="%s/keepalive-timer/stop/%s" % (e.func, tr.label()),
                           msg="the periodic call is stopped in context %s while the connection is up: no PINGREQ is written afterwards" % tr.label())
        # ---------------- Q4 ----------------
        for tr, what, ok, ev in hd.loss_obligations():
            if "keepalive" in what:
                fnc = tr.entry.func
                ctx.ob("Q4", "%s loss: %s" % (cq, what), ok, where=where(ev) if ev is not None else "%s:%d" % (fnc.file, fnc.node.lineno),
                       function=fnc.qual, construct="%s/loss/%s" % (cls.qual, what), nontrivial=False, msg="connectionLost: %s fails on a path" % what)
        seen = set()
        for ent, p, loc, tr, e in hd.fired_handles():
            if loc[0] == "ping" and (loc, e.func) not in seen:
                seen.add((loc, e.func))
                ctx.ob("Q4", "%s expired deadline leaves no fired handle to cancel" % cq, False, where=where(e), function=e.func,
                       construct="%s/fired-handle/%s/%s" % (ent.func.qual, ".".join(loc), short(e.func)),
                       msg="the deadline callback leaves its fired handle in %s and %s cancels it: AlreadyCalled" % (".".join(loc), short(e.func)))
    ctx.count("pingreq_write_events", n_ping)
    ctx.floor("PINGREQ write events", n_ping, 4)
    ctx.note("timing clauses are not decided; overwriting the deadline handle without cancel is deliberate (period == deadline)")
