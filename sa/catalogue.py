"""A3 trigger contexts: every way control enters a protocol object, with its abstract paths."""
import ast

from .model import AnalysisError, ClassInfo
from .terms import SELF, FAC, NONE, Path, show

API_OPS = ["connect", "disconnect", "publish", "subscribe", "unsubscribe"]
API_AUX = ["ping", "setTimeout", "setWindowSize", "setBandwith"]

EFFECT_KINDS = {"WRITE", "CLOSE", "REG", "UNREG", "FIRE", "ARM", "CANCEL", "STATE", "CALLBACK", "SETITEM",
                "TRANSPORT", "REGMUT", "REGTOP", "UNREGTOP"}


class Entry:
    def __init__(self, kind, name, func, paths, cls):
        self.kind = kind      # API | AUX | NET | LOSS | TIMER
        self.name = name
        self.func = func
        self.paths = paths
        self.cls = cls

    def __repr__(self):
        return "<%s %s %d paths>" % (self.kind, self.name, len(self.paths))


def is_fresh(t):
    return isinstance(t, tuple) and t and t[0] in ("new", "exc", "dfr", "timer", "loopcall")


def is_effect(e, created=()):
    """Does this event change anything observable outside objects created on the same path?"""
    if e.kind in EFFECT_KINDS:
        if e.kind == "SETITEM":
            base = e.a.get("base")
            root = base
            while isinstance(root, tuple) and root and root[0] in ("attr", "sub", "slice"):
                root = root[1]
            return not is_fresh(root)
        return True
    if e.kind == "SETATTR":
        obj = e.a["obj"]
        return not is_fresh(obj)
    if e.kind == "DEFNEW":
        return False
    if e.kind == "FACRET":
        return True
    return False


class Catalogue:
    """All entry points of one protocol class."""

    def __init__(self, analysis, cls):
        self.a = analysis
        self.cls = cls
        self.eng = analysis.engine(cls)
        self.prog = analysis.prog
        self.entries = []
        self._build()

    def _build(self):
        eng, prog = self.eng, self.prog
        for op in API_OPS + API_AUX:
            f = prog.lookup_method(self.cls, op)
            if f is None:
                continue
            kind = "API" if op in API_OPS else "AUX"
            self.entries.append(Entry(kind, op, f, self.a.entry(self.cls, op), self.cls))
        for name, kind in (("dataReceived", "NET"), ("connectionLost", "LOSS")):
            f = prog.lookup_method(self.cls, name)
            if f is None:
                raise AnalysisError("anchor vanished: %s.%s" % (self.cls.qual, name))
            self.entries.append(Entry(kind, name, f, self.a.entry(self.cls, name), self.cls))
        # timer targets, transitively
        done = set()
        work = list(self.entries)
        while work:
            ent = work.pop()
            for p in ent.paths:
                for e in p.walk():
                    if e.kind != "ARM":
                        continue
                    tgt = e.a["target"]
                    key, func, outer = self._target(tgt)
                    if func is None or key in done:
                        continue
                    done.add(key)
                    binds = {}
                    # positional arguments of the armed call become the target's parameters
                    params = [q for q in func.params if q != "self"]
                    for q in params:
                        binds[q] = ("param", q)
                    if isinstance(tgt, tuple) and tgt[0] == "func":
                        # a module-level function armed with the protocol among its arguments (functools.partial(f, self, request)):
                        # the parameter that receives the protocol is the protocol
                        for q, av in zip(params, e.a.get("args") or ()):
                            if av == SELF:
                                binds[q] = SELF
                    recv = getattr(self, "_receivers", {}).get(key, SELF)
                    paths = eng.entry_paths(func, binds, selfterm=recv) if outer is None else self._closure_paths(func, outer)
                    ne = Entry("TIMER", func.qual, func, paths, self.cls)
                    ne.armed_by = e
                    self.entries.append(ne)
                    work.append(ne)

    def _target(self, tgt):
        if isinstance(tgt, tuple):
            if tgt[0] == "bm" and tgt[1] == SELF:
                return tgt[2].qual, tgt[2], None
            if tgt[0] == "bm" and isinstance(tgt[1], tuple) and tgt[1][:1] == ("new",) and tgt[1] in self.eng.init_heap.values():
                # a method of one of the objects the constructor made (a state object): it runs with that object as self
                self._receivers = getattr(self, "_receivers", {})
                self._receivers[tgt[2].qual] = tgt[1]
                return tgt[2].qual, tgt[2], None
            if tgt[0] == "closure":
                env, selfterm, fi = self.eng._closure_env[tgt[2]]
                # one callback defined once and armed for several registries (a helper that takes the registry as an argument and the
                # closure captures it): one timer context per registry captured, so that each knows whose requests it handles
                own = set(fi.locals)
                used = {x.id for x in ast.walk(fi.node) if isinstance(x, ast.Name)}
                regs = sorted({v[1] for k, v in env.items() if k in used and k not in own and isinstance(v, tuple) and v[:1] == ("regtop",)})
                if regs:
                    fi = self._specialised(fi, "@" + "+".join(regs))
                return fi.qual, fi, env
            if tgt[0] == "func" and getattr(tgt[1], "cls", None) is None and getattr(tgt[1], "parent", None) is None:
                return tgt[1].qual, tgt[1], None
        return None, None, None

    def _specialised(self, fi, suffix):
        import copy
        cache = self.__dict__.setdefault("_spec", {})
        k = (fi.qual, suffix)
        if k not in cache:
            c = copy.copy(fi)
            c.orig_qual = fi.qual
            c.qual = fi.qual + suffix
            cache[k] = c
        return cache[k]

    def _closure_paths(self, func, env):
        from .interp import St
        eng = self.eng
        st = St()
        st.heap = dict(eng.init_heap)
        eng.npaths = 0
        # captured variables are unknown at firing time except identity of captured objects
        outer = {}
        for k, v in env.items():
            if k == "self":
                outer[k] = v
            elif isinstance(v, tuple) and v and v[0] == "new" and v in eng.init_heap.values():
                outer[k] = v          # an object of the constructor chain (e.g. the keepalive bookkeeping object): the same one later
            elif isinstance(v, tuple) and v[:1] == ("regtop",) and hasattr(func, "orig_qual"):
                outer[k] = v          # the registry this instance of the callback was made for
            elif k == "request" and func.parent is not None and func.parent.name == "doConnect":
                outer[k] = ("captured", k)
            else:
                outer[k] = ("param", k)     # typed like a timer parameter, from what was captured at the arming sites
        outer["self"] = SELF
        for k, (o, field) in getattr(eng, "_closure_alias", {}).get(getattr(func, "orig_qual", func.qual), {}).items():
            if o in outer:
                outer[k] = ("attr", outer[o], field)
        return list(eng.run(func, {}, st, SELF, outer_env=outer))

    # ---- queries ---------------------------------------------------------
    def by_kind(self, *kinds):
        return [e for e in self.entries if e.kind in kinds]

    def get(self, name):
        for e in self.entries:
            if e.name == name or e.name.endswith("." + name):
                return e
        return None

    def all_events(self, *kinds):
        """(entry, path, event) for every event of the given kinds, in all entries (loop bodies included)."""
        for ent in self.entries:
            for p in ent.paths:
                for e in p.walk():
                    if not kinds or e.kind in kinds:
                        yield ent, p, e


def catalogue(analysis, cls):
    cats = analysis.__dict__.setdefault("_cats", {})
    if cls.qual not in cats:
        cats[cls.qual] = Catalogue(analysis, cls)
    return cats[cls.qual]


def profile_map(analysis):
    """factory.buildProtocol: profile constant -> protocol class, and whether anything else raises."""
    a = analysis
    eng = a.engine(a.protos[0])
    fac = eng.factory
    bp = fac.methods["buildProtocol"]
    from .interp import St
    st = St()
    eng.npaths = 0
    paths = list(eng.run(bp, {"self": FAC, "addr": ("param", "addr")}, st, FAC))
    return paths
