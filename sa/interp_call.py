"""Call rules: inlining of repository code, library contracts reduced to events."""
import ast

from .model import AnalysisError, ClassInfo, FuncInfo, BUILTIN_EXC, NotConst
from .terms import SELF, FAC, TRANSPORT, NONE, Cond, const, is_const, mentions, show
from .interp import PDU_MODULE, DEQUE_DICT_METHODS


MUTATORS = {"append", "extend", "insert", "pop", "popleft", "appendleft", "remove", "clear", "update", "setdefault",
            "popitem", "add", "discard", "sort", "reverse", "rotate", "extendleft", "__setitem__", "__delitem__"}


class CallMixin:

    def e_Call(self, n, st, fx):
        # map(f, it)  ==  (f(v) for v in it)  (lazily, as the generator expression it abbreviates)
        if isinstance(n.func, ast.Name) and n.func.id == "map" and "map" not in st.env and len(n.args) == 2 and not n.keywords \
                and not any(isinstance(a_, ast.Starred) for a_ in n.args) and self.prog.resolve(fx.module, "map") is None:
            v_ = ast.Name(id="__map_item_%d" % n.lineno, ctx=ast.Load())
            gen = ast.GeneratorExp(elt=ast.Call(func=n.args[0], args=[v_], keywords=[]),
                                   generators=[ast.comprehension(target=ast.Name(id=v_.id, ctx=ast.Store()), iter=n.args[1], ifs=[], is_async=0)])
            ast.copy_location(gen, n)
            ast.fix_missing_locations(gen)
            # the node that consumes the map() call consumes the generator: any(map(..)), x in map(..)
            for parent in ast.walk(fx.func.node):
                for fld, val in ast.iter_fields(parent):
                    if val is n:
                        setattr(parent, fld, gen)
                    elif isinstance(val, list):
                        for i_, x_ in enumerate(val):
                            if x_ is n:
                                val[i_] = gen
            yield from self.ev(gen, st, fx)
            return
        # getattr(obj, "const", default): resolved as an attribute access
        if isinstance(n.func, ast.Name) and n.func.id == "getattr" and n.func.id not in st.env and len(n.args) in (2, 3):
            yield from self._getattr_call(n, st, fx)
            return
        if isinstance(n.func, ast.Name) and n.func.id == "setattr" and n.func.id not in st.env and len(n.args) == 3 and not n.keywords:
            for r, ts, s in self.ev_list(n.args, st, fx):
                if r == "raise":
                    yield r, ts, s
                    continue
                if not (is_const(ts[1]) and isinstance(ts[1][1], str)):
                    raise AnalysisError("closed-world audit: setattr() with a name that is not constant at %s:%d" % (fx.func.file, n.lineno))
                self.store_attr(ts[0], ts[1][1], ts[2], s, fx, n)
                yield "ok", NONE, s
            return
        star = any(isinstance(x, ast.Starred) for x in n.args) or any(k.arg is None for k in n.keywords)
        for r, f, s in self.ev(n.func, st, fx):
            if r == "raise":
                yield r, f, s
                continue
            argnodes = list(n.args)
            for r2, args, s2 in self.ev_list(argnodes, s, fx):
                if r2 == "raise":
                    yield r2, args, s2
                    continue
                if star:
                    # f(*t) with t a tuple of known length is f(t[0], .., t[n-1])
                    flat, expanded = [], not any(k.arg is None for k in n.keywords)
                    for an, at in zip(argnodes, args):
                        if not isinstance(an, ast.Starred):
                            flat.append(at)
                        elif isinstance(at, tuple) and at[:1] in (("tuple",), ("list",)):
                            flat.extend(at[1])
                        elif is_const(at) and isinstance(at[1], tuple):
                            flat.extend(const(x) for x in at[1])
                        else:
                            expanded = False
                    if expanded:
                        args = flat
                    elif isinstance(f, tuple) and f and f[0] in ("bm", "func", "closure", "cls"):
                        # argument lists built at run time cannot be bound to parameters: the call is kept opaque (events of the
                        # callee are not seen; rules that need them will miss the instance and fail their floors rather than guess)
                        self.emit(s2, fx, "NOINLINE", n, func=show(f), why="star-args")
                        yield "ok", ("call", f, ()), s2
                        continue
                kwnodes = [k.value for k in n.keywords]
                for r3, kvals, s3 in self.ev_list(kwnodes, s2, fx):
                    if r3 == "raise":
                        yield r3, kvals, s3
                        continue
                    kw = {k.arg: v for k, v in zip(n.keywords, kvals) if k.arg is not None}
                    yield from self.call(f, args, kw, s3, fx, n)

    def _getattr_call(self, n, st, fx):
        for r, ts, s in self.ev_list(n.args, st, fx):
            if r == "raise":
                yield r, ts, s
                continue
            obj, name = ts[0], ts[1]
            dflt = ts[2] if len(ts) > 2 else None
            if is_const(name) and isinstance(name[1], str):
                self.emit(s, fx, "GETATTR", n, obj=obj, name=name[1])
                # the same as the attribute read obj.<name>; a default replaces the AttributeError of a name that does not resolve
                caught = dflt is None and self._in_try_catching(n, fx, "AttributeError")
                for r2, t2, s2 in self.get_attr(obj, name[1], s, fx, n):
                    if r2 == "raise" and dflt is not None and isinstance(t2, tuple) and t2[:2] == ("exc", "AttributeError"):
                        s2.events = [e for e in s2.events if not (e.kind == "UNRESOLVED" and e.node is n)]
                        yield "ok", dflt, s2
                    elif r2 == "raise" and caught and isinstance(t2, tuple) and t2[:2] == ("exc", "AttributeError"):
                        # getattr without a default inside try/except AttributeError: the miss is an expected outcome, handled there
                        s2.events = [e for e in s2.events if not (e.kind == "UNRESOLVED" and e.node is n)]
                        yield r2, t2, s2
                    else:
                        yield r2, t2, s2
            else:
                raise AnalysisError("closed-world audit: getattr() with a name that is not constant at %s:%d (%s)" % (
                    fx.func.file, n.lineno, show(name)))

    def _in_try_catching(self, node, fx, name):
        """Is `node` lexically inside the body of a try of the current function with a handler for `name` (or a base of it, or bare)?"""
        bases = {name, "Exception", "BaseException"} | ({"LookupError"} if name in ("KeyError", "IndexError") else set())
        for t in ast.walk(fx.func.node):
            if isinstance(t, ast.Try) and any(x is node for b in t.body for x in ast.walk(b)):
                for h in t.handlers:
                    ts = [] if h.type is None else (list(h.type.elts) if isinstance(h.type, ast.Tuple) else [h.type])
                    if h.type is None or any((isinstance(x, ast.Name) and x.id in bases) or (isinstance(x, ast.Attribute) and x.attr in bases) for x in ts):
                        return True
        return False

    # ------------------------------------------------------------------
    def inline(self, func, selfterm, args, kw, st, fx, node, outer_env=None, bound=True):
        """Inline a repository function; yields (status, term, state)."""
        if func.is_generator:
            # calling a generator function runs none of its body: the result is an iterator object, its body runs where it is consumed
            # (a for loop over the call is walked by _for_generator; any other consumer of this term has no reading and ends the analysis)
            recv = selfterm if (func.cls is not None and not func.is_static and bound) else None
            if func.cls is not None and not func.is_static and not bound and args:
                recv, args = args[0], list(args)[1:]
            yield "ok", ("genobj", func.qual, tuple(args), recv, tuple(sorted((kw or {}).items()))), st
            return
        if func.qual not in st.frames and len(st.frames) >= self.inline_depth:
            # never judge code that was not looked at: a call chain deeper than the inlining bound is an analysis failure
            raise AnalysisError("inlining bound %d exhausted at %s:%d calling %s (chain %s)" % (
                self.inline_depth, fx.func.file, getattr(node, "lineno", 0), func.qual, " > ".join(q.split(".")[-1] for q in st.frames)))
        if func.qual in st.frames:
            self.emit(st, fx, "NOINLINE", node, func=func.qual)
            yield "ok", ("call", ("func", func), tuple(args)), st
            return
        params = list(func.params)
        binds = {}
        if func.is_static:
            bound = False
        if getattr(func, "is_classmethod", False) and params and func.cls is not None:
            # the class itself is the first argument, however the method was reached (self.m(), cls.m(), Class.m())
            binds[params[0]] = ("cls", func.cls)
            params = params[1:]
            bound = False
        if bound and params and params[0] == "self":
            binds["self"] = selfterm
            params = params[1:]
        for p, a in zip(params, args):
            binds[p] = a
        kwname = func.node.args.kwarg.arg if func.node.args.kwarg is not None else None
        all_params = set(func.params) | {a_.arg for a_ in func.node.args.kwonlyargs}
        extra_kw = []
        for k, v in kw.items():
            if kwname is not None and k not in all_params:
                extra_kw.append((("const", k), v))        # **fields takes the keywords no parameter claims, in call order
            else:
                binds[k] = v
        if kwname is not None:
            binds[kwname] = ("dict", tuple(extra_kw))
        va = func.node.args.vararg
        if va is not None:
            # *rest takes the surplus positional arguments, as a tuple of known length
            binds[va.arg] = ("tuple", tuple(args[len(params):]))
            args = list(args[:len(params)])
        missing = [p for p in params if p not in binds and p not in func.defaults]
        if missing or len(args) > len(params):
            self.emit(st, fx, "BADCALL", node, func=func.qual, missing=missing, nargs=len(args))
            yield "raise", self.exc(st, "TypeError", "arguments"), st
            return
        s = st
        self.emit(s, fx, "CALL", node, func=func.qual, recv=selfterm, args=tuple(args), kw=tuple(sorted(kw.items())))
        saved_env, saved_stack, saved_frames = s.env, s.stack, s.frames
        s.stack = s.stack + ((fx.func.file, getattr(node, "lineno", 0), func.qual),)
        s.frames = s.frames + (func.qual,)
        nfx_self = selfterm if selfterm is not None else fx.selfterm
        from .interp import Fx
        nfx = Fx(func, nfx_self, outer_env)
        s.env = dict(binds)
        for name, dflt in func.defaults.items():
            if name not in s.env:
                ok, v = self.prog.try_fold(dflt, func.module)
                s.env[name] = const(v) if ok else ("unk", "default:" + name)
        for exit_, s2 in self.block(func.node.body, s, nfx):
            s2.env = dict(saved_env)
            s2.stack = saved_stack
            s2.frames = saved_frames
            if exit_ is None:
                yield "ok", NONE, s2
            elif exit_[0] == "return":
                if func.cls is None and func.parent is None:
                    self.emit(s2, fx, "RET", node, func=func.qual, val=exit_[1])
                elif selfterm == FAC:
                    self.emit(s2, fx, "MRET", node, func=func.qual, val=exit_[1])      # what a factory method handed back
                yield "ok", exit_[1], s2
            elif exit_[0] == "raise":
                yield "raise", exit_[1], s2
            else:
                raise AnalysisError("break/continue leaves function %s" % func.qual)

    # ------------------------------------------------------------------
    def call(self, f, args, kw, st, fx, node):
        from .terms import has_genobj
        if any(has_genobj(a) for a in list(args) + list(kw.values())):
            # a generator object handed to something: fine when a repository function receives it (what that does with it is walked) or
            # when it is only packed by chain()/from_iterable() (the loop over the packed value is rewritten into loops over the parts);
            # anything else consumes it in a way that has no reading here
            k0 = f[0] if isinstance(f, tuple) and f else None
            nm = f[2] if k0 in ("attr", "extattr") and len(f) > 2 else (f[1] if k0 in ("ext", "builtin", "extfunc") and len(f) > 1 else None)
            if k0 not in ("bm", "func", "closure") and not (isinstance(nm, str) and nm.split(".")[-1] in ("chain", "from_iterable")) \
                    and "chain" not in show(f):
                raise AnalysisError("a generator object is consumed by %s at %s:%d: not read" % (show(f), fx.func.file, getattr(node, "lineno", 0)))
        if not isinstance(f, tuple):
            yield "ok", ("call", f, tuple(args)), st
            return
        k = f[0]
        if k == "bm":
            recv, func = f[1], f[2]
            if func.module.name == PDU_MODULE and func.cls is not None and func.name in ("encode", "decode"):
                yield from self.pdu_codec(recv, func, args, st, fx, node)
                return
            if recv == FAC and fx.selfterm != FAC:
                for r, t, s2 in self.inline(func, recv, args, kw, st, fx, node):
                    if r == "ok" and isinstance(t, tuple) and t[:1] in (("tuple",), ("list",), ("reg",), ("regtop",), ("const",), ("new",), ("cls",),
                                                                       ("func",), ("bm",), ("accum",)):
                        yield r, t, s2        # a view of the factory's own structure (containers, tables), not a value it computes
                    elif r == "ok":
                        w = ("facret", func.qual, s2.uid())
                        self.emit(s2, fx, "FACRET", node, func=func.qual, val=w, inner=t)
                        yield r, w, s2
                    else:
                        yield r, t, s2
                return
            yield from self.inline(func, recv, args, kw, st, fx, node)
            return
        if k == "func":
            func = f[1]
            if func.cls is not None and not func.is_static and not getattr(func, "is_classmethod", False):
                # Class.method(self, ...) explicit receiver
                if not args:
                    yield "raise", self.exc(st, "TypeError", "self"), st
                    return
                yield from self.inline(func, args[0], args[1:], kw, st, fx, node)
            else:
                yield from self.inline(func, None, args, kw, st, fx, node, bound=False)
            return
        if k == "methodcaller":
            # operator.methodcaller('name', *a)(obj)  ==  obj.name(*a)
            if len(args) != 1:
                raise AnalysisError("methodcaller call at %s:%d not handled" % (fx.func.file, getattr(node, "lineno", 0)))
            for r, m, s2 in self.get_attr(args[0], f[1], st, fx, node):
                if r == "raise":
                    yield r, m, s2
                else:
                    yield from self.call(m, list(f[2]), {}, s2, fx, node)
            return
        if k == "attrgetter":
            if len(args) != 1:
                raise AnalysisError("attrgetter call at %s:%d not handled" % (fx.func.file, getattr(node, "lineno", 0)))
            outs = []

            def go(i, acc, s):
                if i == len(f[1]):
                    yield "ok", (acc[0] if len(acc) == 1 else ("tuple", tuple(acc))), s
                    return
                for r, t, s2 in self.get_attr(args[0], f[1][i], s, fx, node):
                    if r == "raise":
                        yield r, t, s2
                    else:
                        yield from go(i + 1, acc + [t], s2)
            yield from go(0, [], st)
            return
        if k == "closure":
            env, selfterm, fi = self._closure_env[f[2]]
            yield from self.inline(f[1], selfterm, args, kw, st, fx, node, outer_env=env, bound=False)
            return
        if k == "cls":
            yield from self.construct(f[1], args, kw, st, fx, node)
            return
        if k == "builtin":
            name = f[1]
            if name in BUILTIN_EXC:
                yield "ok", ("exc", name, tuple(args), st.uid()), st
                return
            if name == "len" and args and is_const(args[0]) and isinstance(args[0][1], (tuple, str, bytes)):
                yield "ok", const(len(args[0][1])), st
                return
            if name == "len" and args and isinstance(args[0], tuple) and args[0][0] in ("list", "tuple"):
                yield "ok", const(len(args[0][1])), st
                return
            if name == "len" and args and isinstance(args[0], tuple) and args[0][0] == "constobj":
                try:
                    yield "ok", const(len(self.constobj_value(args[0]))), st
                    return
                except NotConst:
                    pass
            if name in ("set", "frozenset") and len(args) <= 1 and not kw:
                # a local collection filled step by step: its identity links what goes in with the membership tests on it
                acc = ("accum", name, st.uid())
                if args:
                    self.emit(st, fx, "ACCUM", node, acc=acc, how="init", src=args[0])
                yield "ok", acc, st
                return
            yield "ok", ("call", f, tuple(args)), st
            return
        if k == "calllater":
            if len(args) < 2:
                yield "raise", self.exc(st, "TypeError", "callLater"), st
                return
            h = ("timer", st.uid())
            tgt, eff = self._timer_target(args[1], tuple(args[2:]), st)
            self.emit(st, fx, "ARM", node, handle=h, delay=args[0], target=tgt, args=eff, how="callLater",
                      delaynode=node.args[0] if node.args else None)
            yield "ok", h, st
            return
        if k == "partial":
            yield from self.call(f[1], list(f[2]) + list(args), kw, st, fx, node)
            return
        if k == "ntcls":
            fields = f[2]
            row = list(args)
            for fname in fields[len(row):]:
                if fname not in kw:
                    yield "raise", self.exc(st, "TypeError", "missing field " + fname), st
                    return
                row.append(kw[fname])
            if len(row) != len(fields):
                yield "raise", self.exc(st, "TypeError", "namedtuple arguments"), st
                return
            yield "ok", ("tuple", tuple(row), fields), st
            return
        if k == "lambda":
            yield from self.call_lambda(f, args, st, fx, node)
            return
        if k == "ext":
            yield from self.call_ext(f[1], args, kw, st, fx, node)
            return
        if k == "attr":
            yield from self.call_attr(f, args, kw, st, fx, node)
            return
        if k == "extattr":
            # inherited Twisted method on the protocol/factory: opaque
            self.emit(st, fx, "EXTCALL", node, name=f[1], args=tuple(args))
            yield "ok", ("call", f, tuple(args)), st
            return
        if k == "new":
            cls = self.prog.classes.get(f[1])
            if cls is not None:
                m = self.prog.lookup_method(cls, "__call__")
                if m is not None:
                    yield from self.inline(m, f, args, kw, st, fx, node)
                    return
            self.emit(st, fx, "NOTCALLABLE", node, obj=f)
            yield "raise", self.exc(st, "TypeError", "not callable"), st
            return
        if k == "const":
            self.emit(st, fx, "NOTCALLABLE", node, obj=f)
            yield "raise", self.exc(st, "TypeError", "not callable"), st
            return
        yield "ok", ("call", f, tuple(args)), st

    # ---- construction ------------------------------------------------------
    def construct(self, cls, args, kw, st, fx, node):
        chain = self.prog.exc_chain(cls.qual)
        if "Exception" in chain or "BaseException" in chain:
            yield "ok", ("exc", cls.qual, tuple(args), st.uid()), st
            return
        obj = ("new", cls.qual, st.uid())
        self.emit(st, fx, "NEW", node, obj=obj, cls=cls.qual, args=tuple(args), kw=tuple(sorted(kw.items())))
        init = self.prog.lookup_method(cls, "__init__")
        if init is None:
            yield "ok", obj, st
            return
        for r, t, s in self.inline(init, obj, args, kw, st, fx, node):
            if r == "raise":
                yield r, t, s
            else:
                yield "ok", obj, s

    # ---- PDU encode/decode as atomic events ----------------------------------
    def encode_raises(self, cls):
        """Exception classes (by base family) an encode() of this PDU class can raise explicitly."""
        if cls.qual in self._encode_raises:
            return self._encode_raises[cls.qual]
        fams = set()
        seen = set()
        mod = cls.module

        def domain_guard_raises(fnode):
            """Raise statements that are the explicit form of the 16-bit range check (if not 0 <= v <= 65535: raise ValueError): the
            primitive written with item assignment refuses the same values implicitly, and what reaches it (identifiers from the
            allocator or from a decoded packet, measured lengths behind their own guard) is in range by the rules of C17 / C20."""
            from .codec_prims import truth_set, _iv_not
            out = set()
            if not isinstance(fnode, ast.FunctionDef) or not fnode.args.args:
                return out
            var = fnode.args.args[0].arg
            for y in ast.walk(fnode):
                if isinstance(y, ast.If):
                    t = truth_set(y.test, var, lambda e: self.prog.try_fold(e, mod))
                    if t is not None and _iv_not(t) == [(0, 65535)]:
                        out |= {id(z) for z in y.body if isinstance(z, ast.Raise)}
            return out

        def scan(fnode):
            skip = domain_guard_raises(fnode)
            for x in ast.walk(fnode):
                if isinstance(x, ast.Raise) and id(x) in skip:
                    continue
                if isinstance(x, ast.Raise) and x.exc is not None:
                    e = x.exc.func if isinstance(x.exc, ast.Call) else x.exc
                    if isinstance(e, ast.Name):
                        r = self.prog.resolve(mod, e.id)
                        nm = r[1].qual if r and r[0] == "class" else e.id
                        fams.add(nm)
                elif isinstance(x, ast.Call) and isinstance(x.func, ast.Name) and x.func.id in mod.funcs \
                        and x.func.id not in seen:
                    seen.add(x.func.id)
                    scan(mod.funcs[x.func.id].node)
        enc = self.prog.lookup_method(cls, "encode")
        if enc is not None:
            scan(enc.node)
        self._encode_raises[cls.qual] = sorted(fams)
        return self._encode_raises[cls.qual]

    def pdu_codec(self, recv, func, args, st, fx, node):
        cls = func.cls
        if isinstance(recv, tuple) and recv[:1] == ("new",) and recv[1] in self.prog.classes:
            cls = self.prog.classes[recv[1]]      # the object's own class (the method may be an inherited one)
        if func.name == "encode":
            for exc_cls in self.encode_raises(cls):
                s2 = st.fork()
                self.emit(s2, fx, "ENCODE", node, obj=recv, cls=cls.qual, ok=False, exc=exc_cls)
                yield "raise", ("exc", exc_cls, (), s2.uid()), s2
            self.emit(st, fx, "ENCODE", node, obj=recv, cls=cls.qual, ok=True,
                      fields={k[1]: v for k, v in st.heap.items() if k[0] == recv})
            st.heap[(recv, "encoded")] = ("encbuf", recv)
            yield "ok", ("encres", recv), st
        else:
            s2 = st.fork()
            self.emit(s2, fx, "DECODE", node, obj=recv, cls=cls.qual, ok=False)
            yield "raise", ("exc", "Exception", ("decode-fault",), s2.uid()), s2
            self.emit(st, fx, "DECODE", node, obj=recv, cls=cls.qual, ok=True)
            # decoded fields come from the network
            for (o, fld) in [k for k in st.heap if k[0] == recv]:
                st.heap[(o, fld)] = ("net", recv, fld)
            yield "ok", NONE, st

    def _timer_target(self, tgt, args, st=None):
        """(callable, effective arguments) of a timer callback: functools.partial is unwrapped, and what a closure captured from
        the frame that made it (the free variables its body uses) counts as its arguments."""
        if isinstance(tgt, tuple) and tgt and tgt[0] == "partial":
            return self._timer_target(tgt[1], tuple(tgt[2]) + tuple(args), st)
        if isinstance(tgt, tuple) and tgt and tgt[0] == "closure" and tgt[2] in getattr(self, "_closure_env", {}):
            env, _, fi = self._closure_env[tgt[2]]
            own = set(fi.locals)
            free = []
            for x in ast.walk(fi.node):
                if isinstance(x, ast.Name) and isinstance(x.ctx, ast.Load) and x.id in env and x.id not in own and x.id not in ("self", fi.name) \
                        and x.id not in free:
                    free.append(x.id)
            if st is not None:
                # a captured local that is, when the timer is armed, the value of a field of another captured object (d = Deferred();
                # request.deferred = d): in the callback it stands for that field
                al = {}
                for k in free:
                    v = env[k]
                    if not (isinstance(v, tuple) and v and v[0] in ("dfr", "timer", "new")):
                        continue
                    for (obj, field), val in st.heap.items():
                        if val == v:
                            for o in free:
                                if o != k and env[o] == obj:
                                    al[k] = (o, field)
                if al:
                    self._closure_alias = getattr(self, "_closure_alias", {})
                    self._closure_alias.setdefault(fi.qual, {}).update(al)
            return tgt, tuple(args) + tuple(env[k] for k in free)
        return tgt, tuple(args)

    def call_lambda(self, f, args, st, fx, node):
        """A lambda made on this path: its body is evaluated with its parameters bound (and what it captured)."""
        lam, env = f[1], dict(f[2])
        params = [a.arg for a in lam.args.args]
        if len(args) != len(params) or lam.args.vararg or lam.args.kwarg or lam.args.defaults:
            raise AnalysisError("lambda call at %s:%d not handled" % (fx.func.file, getattr(node, "lineno", 0)))
        saved = st.env
        st.env = dict(env)
        st.env.update(saved)
        for p, a in zip(params, args):
            st.env[p] = a
        for r, t, s in self.ev(lam.body, st, fx):
            s.env = dict(saved)
            yield r, t, s

    # ---- external library ------------------------------------------------------
    def call_ext(self, dotted, args, kw, st, fx, node):
        tail = dotted.split(".")
        if tail[-1] == "partial" and args:
            yield "ok", ("partial", args[0], tuple(args[1:])), st
            return
        if tail[-1] == "attrgetter" and args and all(is_const(a) and isinstance(a[1], str) for a in args):
            yield "ok", ("attrgetter", tuple(a[1] for a in args)), st
            return
        if len(tail) >= 2 and tail[-2] == "operator" and tail[-1] in ("lt", "le", "gt", "ge", "eq", "ne") and len(args) == 2 and not kw:
            # operator.le(a, b)  ==  a <= b
            op_ = {"lt": "<", "le": "<=", "gt": ">", "ge": ">=", "eq": "==", "ne": "!="}[tail[-1]]
            yield "ok", self.cmp_term(op_, args[0], args[1]), st
            return
        if tail[-1] == "methodcaller" and args and is_const(args[0]) and isinstance(args[0][1], str):
            yield "ok", ("methodcaller", args[0][1], tuple(args[1:])), st
            return
        if dotted.endswith("defer.fail") or tail[-1] == "fail" and "defer" in dotted:
            d = ("dfr", st.uid(), "fail")
            self.emit(st, fx, "DEFNEW", node, dfr=d, how="fail", arg=args[0] if args else NONE)
            yield "ok", d, st
            return
        if tail[-1] == "succeed" and "defer" in dotted:
            d = ("dfr", st.uid(), "succeed")
            self.emit(st, fx, "DEFNEW", node, dfr=d, how="succeed", arg=args[0] if args else NONE)
            yield "ok", d, st
            return
        if tail[-1] == "Deferred" and "defer" in dotted:
            d = ("dfr", st.uid(), "plain")
            self.emit(st, fx, "DEFNEW", node, dfr=d, how="plain", arg=None)
            yield "ok", d, st
            return
        if tail[-1] == "LoopingCall":
            h = ("loopcall", st.uid())
            self.emit(st, fx, "LOOPNEW", node, handle=h, target=args[0] if args else NONE)
            st.heap[(h, "target")] = args[0] if args else NONE
            yield "ok", h, st
            return
        if tail[-1] == "callLater" and "reactor" in dotted:
            h = ("timer", st.uid())
            tgt, eff = self._timer_target(args[1] if len(args) > 1 else NONE, tuple(args[2:]), st)
            self.emit(st, fx, "ARM", node, handle=h, delay=args[0], target=tgt,
                      args=eff, how="reactor.callLater", delaynode=node.args[0] if node.args else None)
            yield "ok", h, st
            return
        if tail[-1] == "import_module" and "importlib" in dotted:
            # importlib.import_module("<constant name of a repository module>"): that module (an on-demand import)
            if args and is_const(args[0]) and isinstance(args[0][1], str) and args[0][1] in self.prog.modules and len(args) == 1:
                yield "ok", ("module", self.prog.modules[args[0][1]]), st
                return
            raise AnalysisError("closed-world audit: import_module() of %s at %s:%d is not a constant repository module" % (
                show(args[0]) if args else "?", fx.func.file, getattr(node, "lineno", 0)))
        if tail[-1] in ("deque",) or dotted in ("collections.deque",):
            yield "ok", ("fresh", "deque", st.uid()), st
            return
        # logging and everything else external: no event
        yield "ok", ("call", ("ext", dotted), tuple(args)), st

    # ---- attribute calls on non-repository receivers ---------------------------
    def _constobj_or_none(self, t):
        try:
            return self.constobj_value(t)
        except Exception:
            return None

    def call_attr(self, f, args, kw, st, fx, node):
        recv, name = f[1], f[2]
        # a dict of known structure: its views are displays of known length
        if isinstance(recv, tuple) and recv[:1] == ("dict",) and len(recv) == 2 and not kw:
            if name == "items" and not args:
                yield "ok", ("tuple", tuple(("tuple", (k, v)) for k, v in recv[1])), st
                return
            if name == "keys" and not args:
                yield "ok", ("tuple", tuple(k for k, v in recv[1])), st
                return
            if name == "values" and not args:
                yield "ok", ("tuple", tuple(v for k, v in recv[1])), st
                return
            if name == "get" and args and is_const(args[0]):
                for k, v in recv[1]:
                    if k == args[0]:
                        yield "ok", v, st
                        return
                yield "ok", (args[1] if len(args) > 1 else NONE), st
                return
        # transport
        if recv == TRANSPORT:
            if name == "write":
                self.emit(st, fx, "WRITE", node, data=args[0] if args else NONE)
            elif name in ("loseConnection", "abortConnection"):
                self.emit(st, fx, "CLOSE", node, how=name)
            else:
                self.emit(st, fx, "TRANSPORT", node, name=name, args=tuple(args))
            yield "ok", NONE, st
            return
        # registry containers
        if isinstance(recv, tuple) and recv[0] == "reg" and name in DEQUE_DICT_METHODS:
            yield from self.call_registry(recv, name, args, st, fx, node)
            return
        if isinstance(recv, tuple) and recv[0] == "regtop" and name == "get" and args and args[0] == ("attr", SELF, "addr"):
            # registry.get(self.addr[, default]): a keyed access; the address is always present (see e_Compare)
            self.emit(st, fx, "REGADDR", node, reg=recv[1], key=args[0], how="get",
                      base_node=node.func.value if isinstance(node.func, ast.Attribute) else None)
            yield "ok", ("reg", recv[1], args[0]), st
            return
        if isinstance(recv, tuple) and recv[0] == "regtop":
            self.emit(st, fx, "REGTOPCALL", node, reg=recv[1], name=name, args=tuple(args))
            yield "ok", ("call", f, tuple(args)), st
            return
        if name == "get" and args and not kw and isinstance(recv, tuple) and (
                (recv[0] == "constobj" and isinstance(self._constobj_or_none(recv), dict)) or
                (recv[:1] == ("dict",) and len(recv) == 2 and not is_const(args[0]) and all(is_const(k) for k, v in recv[1]))):
            # table.get(key[, default]) on a constant mapping / a display with constant keys: the subscript, a miss giving the default
            dflt = args[1] if len(args) > 1 else NONE
            for r, t, s2 in self.get_item(recv, args[0], st, fx, node):
                if r == "raise" and isinstance(t, tuple) and t[:2] == ("exc", "KeyError"):
                    yield "ok", dflt, s2
                else:
                    yield r, t, s2
            return
        if name == "get" and isinstance(recv, tuple) and recv[0] == "functable" and args:
            yield from self.functable_lookup(recv, args[0], args[1] if len(args) > 1 else None, st, fx, node)
            return
        # constant mapping consulted with .get(key[, default]): every value, or the default on a miss
        if name == "get" and isinstance(recv, tuple) and recv[0] == "constobj" and args:
            try:
                v = self.constobj_value(recv)
            except Exception:
                v = None
            if isinstance(v, dict):
                key = args[0]
                dflt = args[1] if len(args) > 1 else NONE
                if is_const(key):
                    yield "ok", (const(v[key[1]]) if key[1] in v else dflt), st
                    return
                s_miss = st.fork()
                self.emit(s_miss, fx, "CONSTMAP", node, obj=recv, key=key, hit=False, how="get")
                yield "ok", dflt, s_miss
                for k in v:
                    s_k = st.fork()
                    self.emit(s_k, fx, "CONSTMAP", node, obj=recv, key=key, hit=True, kval=k, val=v[k], how="get")
                    yield "ok", const(v[k]), s_k
                return
        if name == "pop" and isinstance(recv, tuple) and recv[:1] == ("call",) and isinstance(recv[1], tuple) and recv[1][:1] == ("builtin",) \
                and recv[1][1] in ("list", "sorted") and recv[2]:
            # keys = list(container) ... keys.pop(): some element of that snapshot (IndexError once it is used up)
            el = self._iter_elem(recv, st.uid())
            if not (isinstance(el, tuple) and el[:1] == ("unk",)):
                if st.facts.get(("truthy", recv)) is not True:
                    s2 = st.fork()
                    yield "raise", self.exc(s2, "IndexError", "pop from empty list"), s2
                self.emit(st, fx, "SNAPPOP", node, snap=recv, elem=el)
                yield "ok", el, st
                return
        if isinstance(recv, tuple) and recv[0] == "accum":
            for a in (args or [NONE]):
                self.emit(st, fx, "ACCUM", node, acc=recv, how=name, src=a)
            yield "ok", (NONE if name in ("add", "update", "discard", "clear", "remove", "difference_update", "intersection_update")
                         else ("call", f, tuple(args))), st
            return
        # deferred firing
        if name in ("callback", "errback") and self._is_deferred(recv):
            self.emit(st, fx, "FIRE", node, dfr=recv, how=name, arg=args[0] if args else NONE,
                      owner=recv[1] if recv[0] == "attr" else None)
            yield "ok", NONE, st
            return
        if name in ("addCallback", "addErrback", "addCallbacks", "addBoth") and self._is_deferred(recv):
            yield "ok", recv, st
            return
        # timers
        if name in ("cancel", "stop") and not self._is_deferred(recv):
            if recv == NONE:
                self.emit(st, fx, "NONE_DEREF", node, attr=name)
                yield "raise", self.exc(st, "AttributeError", name), st
                return
            self.emit(st, fx, "CANCEL", node, handle=recv, how=name)
            yield "ok", NONE, st
            return
        if name == "start" and isinstance(recv, tuple) and (recv[0] == "loopcall" or
                                                           (recv[0] == "attr" and recv[2] in self.prog.field_roles()["loop"])):
            tgt = st.heap.get((recv, "target"), ("unk", "looptarget"))
            self.emit(st, fx, "ARM", node, handle=recv, delay=args[0] if args else NONE, target=tgt, args=(),
                      how="LoopingCall.start", delaynode=node.args[0] if node.args else None)
            yield "ok", ("dfr", st.uid(), "loop"), st
            return
        if name in ("active", "reset", "delay", "getTime"):
            self.emit(st, fx, "TIMERQ", node, handle=recv, name=name)
            yield "ok", ("call", f, tuple(args)), st
            return
        # user callbacks held in instance fields of the protocol
        if recv == SELF:
            self.emit(st, fx, "CALLBACK", node, name=name, args=tuple(args))
            yield "ok", ("unk", "callback-result"), st
            return
        # methods of objects whose class is known through the registries (PDU encode/decode on elements)
        if name in ("encode", "decode") and isinstance(recv, tuple) and recv[0] in ("elem", "popped", "param"):
            self.emit(st, fx, "ENCODE" if name == "encode" else "DECODE", node, obj=recv, cls=None, ok=True)
            yield "ok", ("encres", recv) if name == "encode" else NONE, st
            return
        if recv == NONE:
            self.emit(st, fx, "NONE_DEREF", node, attr=name)
            yield "raise", self.exc(st, "AttributeError", name), st
            return
        if isinstance(recv, tuple) and recv[0] in ("constobj", "global", "classattr") and name in MUTATORS:
            self.emit(st, fx, "SHAREDMUT", node, obj=recv, name=name)
        if isinstance(recv, tuple) and recv[0] == "attr" and recv[1] == SELF:
            self.emit(st, fx, "MCALL", node, obj=recv, name=name, args=tuple(args))
        yield "ok", ("call", f, tuple(args)), st

    def _is_deferred(self, t):
        if not isinstance(t, tuple):
            return False
        if t[0] == "dfr":
            return True
        if t[0] == "attr" and t[2] == "deferred":
            return True
        return False

    def _known_nonempty(self, recv, st):
        if st.facts.get(("truthy", recv)) is True:
            return True
        ln = ("call", ("builtin", "len"), (recv,))
        for k, v in st.facts.items():
            if isinstance(k, tuple) and k[0] == "cmp" and k[2] == ln and is_const(k[3]) and isinstance(k[3][1], int):
                op, c = k[1], k[3][1]
                if v is True and ((op == ">" and c >= 0) or (op == ">=" and c >= 1) or (op == "!=" and c == 0)):
                    return True
                if v is False and ((op == "<=" and c >= 0) or (op == "<" and c >= 1) or (op == "==" and c == 0)):
                    return True
        return False

    def call_registry(self, recv, name, args, st, fx, node):
        reg = recv[1]
        common = dict(reg=reg, addr=recv[2])
        if name in ("append", "appendleft", "insert", "extend", "extendleft"):
            self.emit(st, fx, "REG", node, key=None, val=args[-1] if args else NONE, how=name, **common)
            self._drop_reg_facts(st, reg)
            if name in ("append", "appendleft", "insert"):
                st.facts[("truthy", recv)] = True      # it holds at least what was just put in
            yield "ok", NONE, st
        elif name in ("popleft", "pop", "popitem"):
            t = ("popped", reg, st.uid())
            peek = st.heap.pop((("peek",), reg), None) if name == "popleft" and not args else None
            if peek is not None:
                t = peek           # the head that was looked at (q[0]) is the one that leaves now
            if name == "pop" and args:
                key = args[0]
                if len(args) < 2 and (reg, key) not in st.hits and not (isinstance(key, tuple) and key[0] == "keyof"):
                    s2 = st.fork()
                    self.emit(s2, fx, "LOOKUP", node, key=key, hit=False, how="pop", **common)
                    yield "raise", self.exc(s2, "KeyError", key), s2
                t = ("elem", reg, key)
                if len(args) >= 2 and (reg, key) not in st.hits:
                    s2 = st.fork()
                    self.emit(s2, fx, "LOOKUP", node, key=key, hit=False, how="pop", **common)
                    yield "ok", args[1], s2
                if (reg, key) not in st.hits:
                    self.emit(st, fx, "LOOKUP", node, key=key, hit=True, how="pop", **common)
                self.emit(st, fx, "UNREG", node, key=key, how="pop(key)", elem=t, **common)
                st.hits.discard((reg, key))
                st.hits.add(("gone", reg, key))
            else:
                if name in ("popleft", "pop") and not self._known_nonempty(recv, st):
                    # taking from a deque that may be empty: IndexError
                    s2 = st.fork()
                    self.emit(s2, fx, "LOOKUP", node, key=None, hit=False, how="%s-empty" % name, **common)
                    yield "raise", self.exc(s2, "IndexError", NONE), s2
                self.emit(st, fx, "UNREG", node, key=None, how=name, elem=t, **common)
            self._drop_reg_facts(st, reg)
            yield "ok", t, st
        elif name in ("clear",):
            self.emit(st, fx, "UNREG", node, key=None, how="clear", elem=None, **common)
            st.hits = {h for h in st.hits if h[0] != reg and not (h[0] == "gone" and h[1] == reg)}
            self._drop_reg_facts(st, reg)
            yield "ok", NONE, st
        elif name in ("remove",):
            self.emit(st, fx, "UNREG", node, key=None, how="remove", elem=args[0] if args else None, **common)
            self._drop_reg_facts(st, reg)
            yield "ok", NONE, st
        elif name in ("rotate", "reverse", "update", "setdefault"):
            self.emit(st, fx, "REGMUT", node, name=name, args=tuple(args), **common)
            self._drop_reg_facts(st, reg)
            yield "ok", NONE, st
        elif name == "get":
            key = args[0] if args else NONE
            dflt = args[1] if len(args) > 1 else NONE
            if (reg, key) not in st.hits:
                s2 = st.fork()
                self.emit(s2, fx, "LOOKUP", node, key=key, hit=False, how="get", **common)
                yield "ok", dflt, s2
            self.emit(st, fx, "LOOKUP", node, key=key, hit=True, how="get", **common)
            st.hits.add((reg, key))
            yield "ok", ("elem", reg, key), st
        else:
            yield "ok", ("call", ("attr", recv, name), tuple(args)), st
