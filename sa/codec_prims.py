"""A7 primitives: the six helper functions of mqtt/pdu.py reduced to their radix constants, by role."""
import ast

from .model import AnalysisError, NotConst
from .codec import U
from .codec_cmp import Problem


def _with_helpers_inlined(prog, mod, fn):
    """The primitive's function node, with calls of module helpers that are not primitives themselves written out in place
    (so that `return _uint16At(encoded, 0)` is read as the expression it stands for)."""
    import copy
    from .codec_inline import inlined_body, PRIMITIVES
    calls = [x for x in ast.walk(fn.node) if isinstance(x, ast.Call) and isinstance(x.func, ast.Name) and x.func.id in mod.funcs
             and x.func.id not in PRIMITIVES]
    if not calls:
        return fn.node
    body, _ = inlined_body(prog, None, fn)
    # fold the single-use temporaries of the inliner back into the expressions that use them: t = E; return f(t)  ->  return f(E)
    changed = True
    while changed:
        changed = False
        for i, s in enumerate(body):
            if isinstance(s, ast.Assign) and len(s.targets) == 1 and isinstance(s.targets[0], ast.Name) and s.targets[0].id.startswith("__h"):
                nm = s.targets[0].id
                uses = [(j, x) for j, st_ in enumerate(body) for x in ast.walk(st_) if isinstance(x, ast.Name) and x.id == nm and isinstance(x.ctx, ast.Load)]
                stores = [x for st_ in body for x in ast.walk(st_) if isinstance(x, ast.Name) and x.id == nm and isinstance(x.ctx, ast.Store)]
                if len(uses) == 1 and len(stores) == 1 and uses[0][0] > i and not isinstance(body[uses[0][0]], (ast.If, ast.For, ast.While)):
                    class Sub(ast.NodeTransformer):
                        def visit_Name(self, node):
                            return copy.deepcopy(s.value) if node.id == nm and isinstance(node.ctx, ast.Load) else node
                    body[uses[0][0]] = ast.fix_missing_locations(Sub().visit(body[uses[0][0]]))
                    del body[i]
                    changed = True
                    break
    node = copy.copy(fn.node)
    node.body = body
    return ast.fix_missing_locations(node)


class Roles:
    def __init__(self, prog, mod, fn):
        self.prog, self.mod, self.fn = prog, mod, fn
        self.node = _with_helpers_inlined(prog, mod, fn)
        self.params = [a.arg for a in fn.node.args.args]

    def fold(self, n):
        try:
            return True, self.prog.fold(n, self.mod)
        except NotConst:
            return False, None

    def consts(self, optype, side="right"):
        """Constants appearing as the right operand of binary operations of a given type (incl. augmented)."""
        out = []
        for x in ast.walk(self.node):
            if isinstance(x, ast.BinOp) and isinstance(x.op, optype):
                ok, v = self.fold(x.right)
                if ok and isinstance(v, int):
                    out.append((v, x))
                else:
                    ok, v = self.fold(x.left)
                    if ok and isinstance(v, int) and optype in (ast.Mult, ast.BitAnd, ast.BitOr, ast.Add):
                        out.append((v, x))
            if isinstance(x, ast.AugAssign) and isinstance(x.op, optype):
                ok, v = self.fold(x.value)
                if ok and isinstance(v, int):
                    out.append((v, x))
        return out


def radix_of_hi(expr, r):
    """value >> S  /  value // K  -> radix, else None."""
    if isinstance(expr, ast.BinOp):
        ok, v = r.fold(expr.right)
        if ok and isinstance(v, int):
            if isinstance(expr.op, ast.RShift):
                return 1 << v
            if isinstance(expr.op, ast.FloorDiv):
                return v
    return None


def radix_of_lo(expr, r):
    """value & M  /  value % K -> radix, else None."""
    if isinstance(expr, ast.BinOp):
        ok, v = r.fold(expr.right)
        if ok and isinstance(v, int):
            if isinstance(expr.op, ast.BitAnd):
                return v + 1
            if isinstance(expr.op, ast.Mod):
                return v
    return None


def stores(r, bufname=None):
    """index -> value expr for `buf[i] = expr` statements (constant index)."""
    out = {}
    for x in ast.walk(r.node):
        if isinstance(x, ast.Assign) and len(x.targets) == 1 and isinstance(x.targets[0], ast.Subscript):
            t = x.targets[0]
            ok, i = r.fold(t.slice)
            if ok and isinstance(i, int) and isinstance(t.value, ast.Name):
                out[i] = (x.value, t.value.id, x)
    return out


def aliases(r):
    """name -> expr for simple single assignments; divmod unpacking gives ('hi'|'lo', K)."""
    out = {}
    for x in ast.walk(r.node):
        if isinstance(x, ast.Assign) and len(x.targets) == 1:
            t = x.targets[0]
            if isinstance(t, ast.Tuple) and len(t.elts) == 2 and isinstance(x.value, ast.Call) and isinstance(x.value.func, ast.Name) \
                    and x.value.func.id == "divmod" and len(x.value.args) == 2:
                ok, k = r.fold(x.value.args[1])
                if ok:
                    out[U(t.elts[0])] = ("hi", k)
                    out[U(t.elts[1])] = ("lo", k)
    return out


INF = float("inf")


def _iv_norm(iv):
    iv = sorted((a, b) for a, b in iv if a <= b)
    out = []
    for a, b in iv:
        if out and a <= out[-1][1] + 1:
            out[-1] = (out[-1][0], max(out[-1][1], b))
        else:
            out.append((a, b))
    return out


def _iv_not(iv):
    out, cur, open_end = [], -INF, True
    for a, b in _iv_norm(iv):
        if a > cur:
            out.append((cur, a - 1))
        if b == INF:
            open_end = False
            break
        cur = b + 1
    if open_end:
        out.append((cur, INF))
    return _iv_norm(out)


def _iv_and(x, y):
    return _iv_norm([(max(a, c), min(b, d)) for a, b in x for c, d in y])


def truth_set(test, var, fold):
    """The set of integers v (a sorted list of closed intervals) for which `test` holds, `var` being the source text of v; None when
    the test is not a boolean combination of comparisons of v with constants."""
    if isinstance(test, ast.UnaryOp) and isinstance(test.op, ast.Not):
        t = truth_set(test.operand, var, fold)
        return None if t is None else _iv_not(t)
    if isinstance(test, ast.BoolOp):
        parts = [truth_set(v, var, fold) for v in test.values]
        if any(p is None for p in parts):
            return None
        out = parts[0]
        for p in parts[1:]:
            out = _iv_and(out, p) if isinstance(test.op, ast.And) else _iv_norm(out + p)
        return out
    if isinstance(test, ast.Compare):
        ops = [test.left] + list(test.comparators)
        out = [(-INF, INF)]
        for a, op, b in zip(ops, test.ops, ops[1:]):
            name = type(op).__name__
            if U(a) == var:
                ok, k = fold(b)
            elif U(b) == var:
                ok, k = fold(a)
                name = {"Lt": "Gt", "LtE": "GtE", "Gt": "Lt", "GtE": "LtE"}.get(name, name)
            else:
                return None
            if not ok or isinstance(k, bool) or not isinstance(k, int):
                return None
            one = {"Lt": [(-INF, k - 1)], "LtE": [(-INF, k)], "Gt": [(k + 1, INF)], "GtE": [(k, INF)], "Eq": [(k, k)],
                   "NotEq": [(-INF, k - 1), (k + 1, INF)]}.get(name)
            if one is None:
                return None
            out = _iv_and(out, one)
        return out
    return None


def raising_guards(r, var):
    """[(accepted set, If node)] for every `if <test on var>: raise ...` of the function."""
    out = []
    for x in ast.walk(r.node):
        if isinstance(x, ast.If) and any(isinstance(y, ast.Raise) for y in x.body):
            t = truth_set(x.test, var, r.fold)
            if t is not None:
                out.append((_iv_not(t), x))
    # the positive form: `if <test>: ...return...` followed by a raise (or with the raise in the else arm) - what the test lets through
    # is accepted, the rest raises
    for blk in [r.node.body] + [getattr(x, f) for x in ast.walk(r.node) for f in ("body", "orelse") if isinstance(getattr(x, f, None), list)]:
        for i, x in enumerate(blk):
            if not isinstance(x, ast.If) or any(isinstance(y, ast.Raise) for y in x.body):
                continue
            rs = [y for y in x.orelse if isinstance(y, ast.Raise)]
            if not rs and x.body and isinstance(x.body[-1], ast.Return) and not x.orelse and i + 1 < len(blk) and isinstance(blk[i + 1], ast.Raise):
                rs = [blk[i + 1]]
            if rs:
                t = truth_set(x.test, var, r.fold)
                if t is not None:
                    neg = ast.If(test=ast.UnaryOp(op=ast.Not(), operand=x.test), body=list(rs), orelse=[])
                    ast.copy_location(neg, x)
                    ast.copy_location(neg.test, x)
                    out.append((t, neg))
    return out


def packed_16(r, expr):
    """value.to_bytes(2, 'big') / int.to_bytes(value, 2, 'big') / struct.pack('>H', value), possibly wrapped in bytearray()/bytes():
    (value expression, width, byte order) or None."""
    while isinstance(expr, ast.Call) and isinstance(expr.func, ast.Name) and expr.func.id in ("bytearray", "bytes") and len(expr.args) == 1 \
            and not expr.keywords:
        expr = expr.args[0]
    if not isinstance(expr, ast.Call) or not isinstance(expr.func, ast.Attribute):
        return None
    f = expr.func
    kw = {k.arg: k.value for k in expr.keywords}
    if f.attr == "to_bytes":
        args = list(expr.args)
        if isinstance(f.value, ast.Name) and f.value.id == "int" and args:
            val, args = args[0], args[1:]
        else:
            val = f.value
        width = args[0] if args else kw.get("length")
        order = args[1] if len(args) > 1 else kw.get("byteorder")
        okw, w = r.fold(width) if width is not None else (False, None)
        oko, o = r.fold(order) if order is not None else (True, "big")
        if "signed" in kw:
            oks, sg = r.fold(kw["signed"])
            if not oks or sg:
                return None
        return (val, w if okw else None, o if oko else None)
    if f.attr == "pack" and isinstance(f.value, ast.Name) and f.value.id == "struct" and len(expr.args) == 2:
        okf, fmt = r.fold(expr.args[0])
        if okf and isinstance(fmt, str) and len(fmt) == 2 and fmt[1] in "Hh":
            return (expr.args[1], 2 if fmt[1] == "H" else None, {">": "big", "!": "big", "<": "little"}.get(fmt[0]))
    return None



def split_16(r, probs, name):
    """Checks the two byte stores of a 16-bit big-endian split. Returns the radix or None."""
    st = stores(r)
    al = aliases(r)
    if 0 not in st or 1 not in st:
        # the same split written as a constructor: bytearray((hi, lo)) / bytearray([hi, lo]) / bytearray(divmod(x, 256)),
        # or delegated to encode16Int (which is checked on its own)
        for x in ast.walk(r.node):
            if isinstance(x, ast.Assign) and len(x.targets) == 1 and isinstance(x.targets[0], ast.Subscript) and isinstance(x.targets[0].slice, ast.Slice) \
                    and x.targets[0].slice.step is None and (x.targets[0].slice.lower is None or r.fold(x.targets[0].slice.lower) == (True, 0)) \
                    and x.targets[0].slice.upper is not None and r.fold(x.targets[0].slice.upper) == (True, 0) \
                    and isinstance(x.value, (ast.Tuple, ast.List)) and len(x.value.elts) == 2:
                # buf[:0] = (hi, lo): the two octets slid in front of what the buffer holds
                st = {0: (x.value.elts[0], "<insert>", x), 1: (x.value.elts[1], "<insert>", x)}
                r.inserted_pair = x
            if isinstance(x, ast.Call) and isinstance(x.func, ast.Name) and x.func.id == "bytearray" and len(x.args) == 1 and not x.keywords:
                a = x.args[0]
                if isinstance(a, (ast.Tuple, ast.List)) and len(a.elts) == 2:
                    st = {0: (a.elts[0], "<ctor>", x), 1: (a.elts[1], "<ctor>", x)}
                elif isinstance(a, ast.Call) and isinstance(a.func, ast.Name) and a.func.id == "divmod" and len(a.args) == 2:
                    ok, k = r.fold(a.args[1])
                    if ok:
                        al = dict(al)
                        al["<dm-hi>"], al["<dm-lo>"] = ("hi", k), ("lo", k)
                        st = {0: (ast.Name(id="<dm-hi>", ctx=ast.Load()), "<ctor>", x), 1: (ast.Name(id="<dm-lo>", ctx=ast.Load()), "<ctor>", x)}
        if (0 not in st or 1 not in st) and name != "encode16Int" and any(
                isinstance(x, ast.Call) and isinstance(x.func, ast.Name) and x.func.id == "encode16Int" for x in ast.walk(r.node)):
            return 256
    if 0 not in st or 1 not in st:
        # the split left to the library: to_bytes(2, 'big') / struct.pack('>H', v) - byte order and width are arguments
        for x in ast.walk(r.node):
            pk = packed_16(r, x) if isinstance(x, ast.Call) else None
            if pk is not None:
                val, w, o = pk
                if o != "big":
                    probs.append(Problem("L1", name, "byte-order", "the 16-bit value is packed in %r order, must be big-endian" % (o,), x))
                if w != 2:
                    probs.append(Problem("L1", name, "radix", "the 16-bit value is packed into %s byte(s), must be 2" % (w,), x))
                r.packed = (val, x)
                return 256
        if (0 in st) != (1 in st) and any(isinstance(x, ast.Call) and isinstance(x.func, ast.Name) and x.func.id == "bytearray" and len(x.args) == 1
                                          and r.fold(x.args[0]) == (True, 2) for x in ast.walk(r.node)):
            # a zero-filled 2-byte buffer of which only one byte is ever written
            missing = 1 if 0 in st else 0
            probs.append(Problem("L1", name, "byte-order", "byte %d of the 16-bit field is never written (it stays 0): the %s part of the value is lost" % (
                missing, "low" if missing else "high"), list(st.values())[0][2]))
            return 256
        raise AnalysisError("%s: the two byte stores of the 16-bit prefix are not recognisable" % name)

    def role(expr):
        if isinstance(expr, ast.Name) and expr.id in al:
            return al[expr.id]
        h = radix_of_hi(expr, r)
        if h is not None:
            return ("hi", h)
        l = radix_of_lo(expr, r)
        if l is not None:
            return ("lo", l)
        return None
    r0, r1 = role(st[0][0]), role(st[1][0])
    if r0 is None or r1 is None:
        raise AnalysisError("%s: byte store expressions %s / %s not understood" % (name, U(st[0][0]), U(st[1][0])))
    w = "%s:%d" % (r.fn.file, st[0][2].lineno)
    if r0[0] != "hi" or r1[0] != "lo":
        probs.append(Problem("L1", name, "byte-order", "the high part of the value must be stored at index 0 and the low part at index 1 "
                             "(found %s at 0, %s at 1)" % (r0[0], r1[0]), st[0][2]))
    if r0[1] != 256 or r1[1] != 256:
        probs.append(Problem("L1", name, "radix", "16-bit split uses radix %s for the high part and %s for the low part (must both be 256: "
                             "shift 8 / mask 0xFF)" % (r0[1], r1[1]), st[0][2]))
    return 256


def join_16(r, probs, name, expr):
    """encoded[0]*256 + encoded[1] (or << 8, |): returns True if recognised."""
    # int.from_bytes(x[0:2], 'big'): the same value for two bytes - but a slice, unlike an index, does not fault on a short field
    if isinstance(expr, ast.Call) and isinstance(expr.func, ast.Attribute) and expr.func.attr == "from_bytes" and isinstance(expr.func.value, ast.Name) \
            and expr.func.value.id == "int" and expr.args:
        order = None
        for a in list(expr.args[1:]) + [k.value for k in expr.keywords]:
            ok, v = r.fold(a)
            if ok and isinstance(v, str):
                order = v
        src = expr.args[0]
        width = None
        guarded = False
        if isinstance(src, ast.Name):
            # the two bytes named first: pair = enc[0:2]  (a length test that raises makes the slice as strict as indexing)
            defs = [x.value for x in ast.walk(r.node) if isinstance(x, ast.Assign) and len(x.targets) == 1 and isinstance(x.targets[0], ast.Name)
                    and x.targets[0].id == src.id]
            if len(defs) == 1:
                for acc, g in raising_guards(r, "len(%s)" % src.id):
                    if acc and acc[0][0] == 2:
                        guarded = True
                src = defs[0]
        if isinstance(src, (ast.Tuple, ast.List)) and len(src.elts) == 2:
            # int.from_bytes((enc[0], enc[1]), 'big'): the bytes are indexed (a short field faults), the order is the argument
            names_ = {}
            for x in ast.walk(r.node):
                if isinstance(x, ast.Assign) and len(x.targets) == 1:
                    t_, v_ = x.targets[0], x.value
                    if isinstance(t_, ast.Tuple) and isinstance(v_, ast.Tuple) and len(t_.elts) == len(v_.elts):
                        for a_, b_ in zip(t_.elts, v_.elts):
                            if isinstance(a_, ast.Name):
                                names_[a_.id] = b_
                    elif isinstance(t_, ast.Name):
                        names_[t_.id] = v_
            idx = []
            for e_ in src.elts:
                e_ = names_.get(e_.id, e_) if isinstance(e_, ast.Name) else e_
                if isinstance(e_, ast.Subscript) and not isinstance(e_.slice, ast.Slice):
                    oki, i_ = r.fold(e_.slice)
                    idx.append(i_ if oki else None)
                else:
                    idx.append(None)
            if None in idx:
                raise AnalysisError("%s: int.from_bytes(%s) not understood" % (name, U(src)))
            if order not in ("big", "little"):
                raise AnalysisError("%s: int.from_bytes byte order not understood" % name)
            first_is_high = order == "big"
            hi_i, lo_i = (idx[0], idx[1]) if first_is_high else (idx[1], idx[0])
            if hi_i != 0 or lo_i != 1:
                probs.append(Problem("L1", name, "byte-order", "the byte at index 0 must be the high part (found index %s as the high byte, index %s as the low byte)" % (hi_i, lo_i), expr))
            return True
        if isinstance(src, ast.Subscript) and isinstance(src.slice, ast.Slice):
            lo = r.fold(src.slice.lower) if src.slice.lower is not None else (True, 0)
            hi = r.fold(src.slice.upper) if src.slice.upper is not None else (False, None)
            if lo[0] and hi[0]:
                width = (lo[1], hi[1])
        if width is None:
            raise AnalysisError("%s: int.from_bytes(%s) not understood" % (name, U(src)))
        if order != "big":
            probs.append(Problem("L1", name, "byte-order", "bytes are joined in %r order, must be big-endian" % (order,), expr))
        if width != (0, 2):
            probs.append(Problem("L1", name, "radix", "the 16-bit value is taken from bytes [%s:%s], must be [0:2]" % width, expr))
        if not guarded:
            r.lenient_join = expr
        return True
    parts = []
    # locals that merely name a byte of the argument: hi, lo = enc[0], enc[1] / hi = enc[0]
    names = {}
    for x in ast.walk(r.node):
        if isinstance(x, ast.Assign) and len(x.targets) == 1:
            t, v = x.targets[0], x.value
            if isinstance(t, ast.Tuple) and isinstance(v, ast.Tuple) and len(t.elts) == len(v.elts):
                for a, b in zip(t.elts, v.elts):
                    if isinstance(a, ast.Name) and isinstance(b, ast.Subscript):
                        names[a.id] = b
            elif isinstance(t, ast.Name) and isinstance(v, ast.Subscript) and not isinstance(v.slice, ast.Slice):
                names[t.id] = v

    def deref(e):
        return names[e.id] if isinstance(e, ast.Name) and e.id in names else e

    def flat(e):
        if isinstance(e, ast.BinOp) and isinstance(e.op, (ast.Add, ast.BitOr)):
            flat(e.left)
            flat(e.right)
        elif isinstance(e, ast.BinOp) and isinstance(e.op, (ast.Mult, ast.LShift)):
            parts.append(ast.BinOp(left=deref(e.left), op=e.op, right=deref(e.right)))
        else:
            parts.append(deref(e))
    flat(expr)
    hi = lo = None
    for p in parts:
        if isinstance(p, ast.BinOp) and isinstance(p.op, (ast.Mult, ast.LShift)):
            sub, k = (p.left, p.right)
            ok, kv = r.fold(k)
            if not ok:
                sub, k = p.right, p.left
                ok, kv = r.fold(k)
            if ok and isinstance(sub, ast.Subscript):
                oki, i = r.fold(sub.slice)
                hi = (i if oki else None, (1 << kv) if isinstance(p.op, ast.LShift) else kv, p)
        elif isinstance(p, ast.Subscript):
            oki, i = r.fold(p.slice)
            lo = (i if oki else None, p)
    if hi is None and lo is not None and len(parts) == 2:
        # byte OP constant where the weight belongs: the join it is meant to be, with the wrong operator
        for p in parts:
            if isinstance(p, ast.BinOp) and isinstance(deref(p.left), ast.Subscript) and r.fold(p.right)[0]:
                probs.append(Problem("L1", name, "radix", "the high byte is combined with %s by `%s`; it must be multiplied by 256 (shifted left by 8)" % (
                    U(p.right), U(p)), p))
                return True
    if hi is None or lo is None or len(parts) != 2:
        raise AnalysisError("%s: 16-bit join %s not understood" % (name, U(expr)))
    if hi[0] != 0 or lo[0] != 1:
        probs.append(Problem("L1", name, "byte-order", "the byte at index 0 must be the high part (found index %s multiplied, index %s added)" % (hi[0], lo[0]), hi[2]))
    if hi[1] != 256:
        probs.append(Problem("L1", name, "radix", "high byte is weighted by %s, must be 256" % hi[1], hi[2]))
    return True


def check_primitives(prog):
    """Returns (problems, facts) for the six helpers."""
    mod = prog.modules.get("mqtt.pdu")
    if mod is None:
        raise AnalysisError("anchor vanished: mqtt.pdu")
    need = ["encodeString", "decodeString", "encode16Int", "decode16Int", "encodeLength", "decodeLength"]
    for n in need:
        if n not in mod.funcs:
            raise AnalysisError("anchor vanished: mqtt.pdu.%s" % n)
    probs = []
    facts = {}
    # ---- encode16Int / decode16Int ----
    r = Roles(prog, mod, mod.funcs["encode16Int"])
    split_16(r, probs, "encode16Int")
    sizes = [x for x in ast.walk(r.node) if isinstance(x, ast.Call) and isinstance(x.func, ast.Name) and x.func.id == "bytearray" and x.args]
    oks = [r.fold(x.args[0]) for x in sizes]
    # (a bytearray built from the two parts range-checks them just as item assignment does)
    ctor2 = any(isinstance(x.args[0], (ast.Tuple, ast.List)) and len(x.args[0].elts) == 2 or
                (isinstance(x.args[0], ast.Call) and isinstance(x.args[0].func, ast.Name) and x.args[0].func.id == "divmod") for x in sizes)
    if getattr(r, "packed", None) is not None:
        # to_bytes / struct.pack refuse an out-of-range value with OverflowError / struct.error, neither a ValueError: an explicit
        # guard must reject exactly what does not fit, with a ValueError
        val = r.packed[0]
        gs = [(acc, g) for acc, g in raising_guards(r, U(val))]
        acc = [(-INF, INF)]
        for a_, g in gs:
            acc = _iv_and(acc, a_)
        if acc != [(0, 65535)]:
            probs.append(Problem("L1", "encode16Int", "width", "the value is handed to %s, which does not raise a ValueError for values outside 0..65535, "
                                 "and the guards in front of it accept %s" % (U(r.packed[1])[:40], acc), r.packed[1]))
        for a_, g in gs:
            rs = [y for y in g.body if isinstance(y, ast.Raise)]
            exc = rs[0].exc.func if isinstance(rs[0].exc, ast.Call) else rs[0].exc
            res = prog.resolve(mod, U(exc)) if isinstance(exc, ast.Name) else None
            cq = res[1].qual if res and res[0] == "class" else U(exc)
            if not (prog.exc_is(cq, "ValueError") or cq == "ValueError"):
                probs.append(Problem("S7", "encode16Int", "range-exception", "an out-of-range 16-bit value raises %s, which is not a ValueError" % U(exc), rs[0]))
    elif not any(ok and v == 2 for ok, v in oks) and not ctor2:
        probs.append(Problem("L1", "encode16Int", "width", "the 16-bit integer is not stored into a 2-byte bytearray (item assignment is the range check)", r.node))
    r = Roles(prog, mod, mod.funcs["decode16Int"])
    rets = [x for x in ast.walk(r.node) if isinstance(x, ast.Return)]
    if len(rets) != 1:
        raise AnalysisError("decode16Int: return not recognisable")
    join_16(r, probs, "decode16Int", rets[0].value)
    # does a field cut short fault?  indexing bytes 0 and 1 does (IndexError), slicing does not
    facts["u16_lenient"] = getattr(r, "lenient_join", None)
    # ---- encodeString ----
    r = Roles(prog, mod, mod.funcs["encodeString"])
    split_16(r, probs, "encodeString")
    # prefix width: bytearray(W) and len(encoded) - W
    W = None
    buf = None
    for x in ast.walk(r.node):
        if isinstance(x, ast.Assign) and isinstance(x.value, ast.Call) and isinstance(x.value.func, ast.Name) and x.value.func.id == "bytearray" \
                and len(x.value.args) == 1 and not x.value.keywords:
            ok, v = r.fold(x.value.args[0])
            if ok and isinstance(v, int):
                W = v
                buf = U(x.targets[0])
    enc_text = [x for x in ast.walk(r.node) if isinstance(x, ast.Call) and isinstance(x.func, ast.Name) and x.func.id == "bytearray"
                and (len(x.args) > 1 or x.keywords)]
    body_first = None
    if W is None and enc_text:
        # the other order: the text is converted first (body = bytearray(text, 'utf-8')), measured with len(body), and appended
        # to a prefix built from the two parts of that length (a 2-element constructor, or encode16Int)
        for x in ast.walk(r.node):
            if isinstance(x, ast.Assign) and x.value is enc_text[0] and len(x.targets) == 1 and isinstance(x.targets[0], ast.Name):
                body_first = x.targets[0].id
        two = any(isinstance(x, ast.Call) and isinstance(x.func, ast.Name) and (
            (x.func.id == "bytearray" and len(x.args) == 1 and isinstance(x.args[0], (ast.Tuple, ast.List)) and len(x.args[0].elts) == 2)
            or (x.func.id == "bytearray" and len(x.args) == 1 and isinstance(x.args[0], ast.Call) and isinstance(x.args[0].func, ast.Name)
                and x.args[0].func.id == "divmod" and len(x.args[0].args) == 2)
            or x.func.id == "encode16Int") for x in ast.walk(r.node)) or getattr(r, "packed", None) is not None \
            or getattr(r, "inserted_pair", None) is not None
        if body_first is not None and two:
            W = 2
            appended = []
            for x in ast.walk(r.node):
                if isinstance(x, ast.AugAssign) and isinstance(x.op, ast.Add):
                    appended.append(x.value)
                if isinstance(x, ast.Call) and isinstance(x.func, ast.Attribute) and x.func.attr == "extend" and x.args:
                    appended.append(x.args[0])
                if isinstance(x, ast.Return) and isinstance(x.value, ast.BinOp) and isinstance(x.value.op, ast.Add):
                    appended.append(x.value.right)
                # body[0:0] = prefix / body[:0] = prefix: the prefix goes in front of the very bytes that were measured
                if isinstance(x, ast.Assign) and len(x.targets) == 1 and isinstance(x.targets[0], ast.Subscript) \
                        and isinstance(x.targets[0].value, ast.Name) and x.targets[0].value.id == body_first \
                        and isinstance(x.targets[0].slice, ast.Slice) and x.targets[0].slice.step is None \
                        and (x.targets[0].slice.lower is None or r.fold(x.targets[0].slice.lower) == (True, 0)) \
                        and x.targets[0].slice.upper is not None and r.fold(x.targets[0].slice.upper) == (True, 0):
                    appended.append(x.targets[0].value)
            if not any(isinstance(a, ast.Name) and a.id == body_first for a in appended):
                probs.append(Problem("L5", "encodeString", "prefix", "the bytes appended after the prefix are not the converted text that was measured", r.node))
    if W is None or not enc_text:
        raise AnalysisError("encodeString: prefix buffer / text conversion not recognisable")
    encoding = None
    for kw in enc_text[0].keywords:
        if kw.arg == "encoding":
            ok, encoding = r.fold(kw.value)
    if len(enc_text[0].args) > 1:
        ok, encoding = r.fold(enc_text[0].args[1])
    if not (isinstance(encoding, str) and encoding.lower().replace("_", "-") in ("utf-8", "utf8")):
        probs.append(Problem("L1", "encodeString", "encoding", "strings are encoded as %r, the specification says UTF-8" % (encoding,), enc_text[0]))
    if W != 2:
        probs.append(Problem("L1", "encodeString", "prefix-width", "length prefix is %s bytes wide, must be 2" % W, r.node))
    # the measured length: len(buffer) - W, or len(of the encoded bytes)
    lens = [x for x in ast.walk(r.node) if isinstance(x, ast.Assign) and isinstance(x.value, (ast.BinOp, ast.Call))
            and any(isinstance(y, ast.Call) and isinstance(y.func, ast.Name) and y.func.id == "len" for y in ast.walk(x.value))]
    measured_ok = False
    lname = None
    for x in lens:
        v = x.value
        if isinstance(v, ast.BinOp) and isinstance(v.op, ast.Sub) and isinstance(v.left, ast.Call) and buf is not None and U(v.left.args[0]) == buf:
            ok, k = r.fold(v.right)
            if ok and k == W:
                measured_ok = True
                lname = U(x.targets[0])
            elif ok:
                probs.append(Problem("L5", "encodeString", "prefix", "the prefix is len(buffer) - %s but the prefix itself is %s bytes wide" % (k, W), x))
                measured_ok = True
                lname = U(x.targets[0])
        elif isinstance(v, ast.Call) and isinstance(v.func, ast.Name) and v.func.id == "len":
            arg = v.args[0]
            if isinstance(arg, ast.Name) and arg.id in r.params:
                probs.append(Problem("L5", "encodeString", "prefix", "the length prefix counts characters (len(%s)), not the UTF-8 bytes that follow it" % arg.id, x))
                measured_ok = True
                lname = U(x.targets[0])
            elif body_first is None or (isinstance(arg, ast.Name) and arg.id == body_first):
                measured_ok = True
                lname = U(x.targets[0])
    if not measured_ok:
        raise AnalysisError("encodeString: how the prefix value is measured is not recognisable")
    # over-long guard: the raising tests on the measured length, as the set of lengths they let through
    guard = None
    for acc, g in raising_guards(r, lname):
        top = acc[-1][1] if acc else None
        if top is not None and top != INF:
            guard = ("Gt", top, g)
    if guard is None:
        probs.append(Problem("S7", "encodeString", "overlong-guard", "no comparison of the encoded length with 65535 leads to a raise", r.node))
    else:
        lim = guard[1] if guard[0] == "Gt" else (guard[1] - 1 if guard[0] == "GtE" else None)
        if lim != 65535:
            probs.append(Problem("S7", "encodeString", "overlong-guard", "strings are rejected when length %s %s; the limit is 65535 bytes" % (
                {"Gt": ">", "GtE": ">="}.get(guard[0], guard[0]), guard[1]), guard[2]))
        rs = [y for y in guard[2].body if isinstance(y, ast.Raise)]
        exc = rs[0].exc.func if isinstance(rs[0].exc, ast.Call) else rs[0].exc
        res = prog.resolve(mod, U(exc)) if isinstance(exc, ast.Name) else None
        cq = res[1].qual if res and res[0] == "class" else U(exc)
        if not prog.exc_is(cq, "ValueError"):
            probs.append(Problem("S7", "encodeString", "overlong-exception", "over-long strings raise %s, which is not a ValueError" % U(exc), rs[0]))
        facts["string_exc"] = cq
    # ---- decodeString ----
    r = Roles(prog, mod, mod.funcs["decodeString"])
    asg = [x for x in r.node.body if isinstance(x, ast.Assign) and isinstance(x.targets[0], ast.Name)]
    if not asg and not any(isinstance(x, ast.Call) and isinstance(x.func, ast.Name) and x.func.id == "decode16Int" for x in ast.walk(r.node)):
        raise AnalysisError("decodeString: length computation not recognisable")
    # the length: a 16-bit join of bytes 0 and 1 of the argument, or decode16Int(argument) (checked on its own); a local may
    # already hold a position derived from it (end = 2 + length)
    LEN = "<length>"
    pos = {}          # local name -> (constant, uses the length)

    def is_len_expr(e):
        if isinstance(e, ast.Call) and isinstance(e.func, ast.Name) and e.func.id == "decode16Int" and len(e.args) == 1 \
                and isinstance(e.args[0], ast.Name) and e.args[0].id in r.params:
            return True
        return False

    def is_join_expr(e):
        """the 16-bit join written in place (decode16Int inlined, or a helper that reads two bytes at a position)"""
        if not (isinstance(e, ast.BinOp) and isinstance(e.op, (ast.Add, ast.BitOr)) and
                any(isinstance(x, ast.Subscript) and isinstance(x.value, ast.Name) and x.value.id in r.params for x in ast.walk(e))):
            return False
        scratch = []
        try:
            join_16(r, scratch, "decodeString", e)
        except AnalysisError:
            return False
        probs.extend(scratch)
        return True

    def lin0(e):
        ok, v = r.fold(e)
        if ok and isinstance(v, int):
            return (v, False)
        if is_len_expr(e):
            return (0, True)
        if is_join_expr(e):
            return (0, True)
        if isinstance(e, ast.Name) and e.id in pos:
            return pos[e.id]
        if isinstance(e, ast.BinOp) and isinstance(e.op, ast.Add):
            a, b = lin0(e.left), lin0(e.right)
            if a is None or b is None:
                return None
            return (a[0] + b[0], a[1] or b[1])
        return None
    joined = False
    for x in asg:
        v = lin0(x.value)
        if v is not None and v[1]:
            pos[x.targets[0].id] = v
            joined = True
        elif v is not None:
            pos[x.targets[0].id] = v          # a constant position (start = 0 + 2)
        elif isinstance(x.value, ast.Name) and x.value.id in pos:
            pos[x.targets[0].id] = pos[x.value.id]
        elif isinstance(x.value, ast.Call) and isinstance(x.value.func, ast.Attribute) and x.value.func.attr == "decode":
            pass                              # the decoded text held in a local before it is returned
        elif not joined:
            join_16(r, probs, "decodeString", x.value)
            pos[x.targets[0].id] = (0, True)
            joined = True
    ln = LEN
    rets = [x for x in ast.walk(r.node) if isinstance(x, ast.Return)]
    if len(rets) != 1 or not isinstance(rets[0].value, ast.Tuple) or len(rets[0].value.elts) != 2:
        raise AnalysisError("decodeString: return not recognisable")
    body, rest = rets[0].value.elts
    if isinstance(body, ast.Name):
        # the decoded text held in a local before it is returned
        defs = [x.value for x in asg if x.targets[0].id == body.id]
        if len(defs) == 1:
            body = defs[0]
    dec_call = body if isinstance(body, ast.Call) and isinstance(body.func, ast.Attribute) and body.func.attr == "decode" else None
    dec_src = dec_call.func.value if dec_call is not None else None
    while isinstance(dec_src, ast.Call) and isinstance(dec_src.func, ast.Name) and dec_src.func.id in ("bytes", "bytearray") and len(dec_src.args) == 1 \
            and not dec_src.keywords:
        dec_src = dec_src.args[0]          # bytes(enc[2:end]).decode(..): a copy of the same bytes
    if dec_call is None or not isinstance(dec_src, ast.Subscript) or not isinstance(rest, ast.Subscript):
        raise AnalysisError("decodeString: return not recognisable")
    bs, rs_ = dec_src.slice, rest.slice

    def lin(e):
        """(const, uses length?)"""
        if e is None:
            return (0, False)
        v = lin0(e)
        if v is None:
            raise AnalysisError("decodeString: slice bound %s not understood" % U(e))
        return v
    lo, hi, rl = lin(bs.lower), lin(bs.upper), lin(rs_.lower)
    if lo != (2, False) or hi != (2, True):
        probs.append(Problem("L1", "decodeString", "body-slice", "the string body is taken from [%s:%s], must be [2:2+length]" % (U(bs.lower) if bs.lower else "", U(bs.upper) if bs.upper else ""), rets[0]))
    if rl != (2, True) or rs_.upper is not None:
        probs.append(Problem("L1", "decodeString", "rest-slice", "the remaining bytes start at %s, must start at 2+length (complement of the body)" % U(rs_.lower), rets[0]))
    enc_node = dec_call.args[0] if dec_call.args else next((k.value for k in dec_call.keywords if k.arg == "encoding"), None)
    err_node = dec_call.args[1] if len(dec_call.args) > 1 else next((k.value for k in dec_call.keywords if k.arg == "errors"), None)
    ok, e0 = r.fold(enc_node) if enc_node is not None else (True, "utf-8")
    if not (isinstance(e0, str) and e0.lower().replace("_", "-") in ("utf-8", "utf8")):
        probs.append(Problem("L1", "decodeString", "encoding", "strings are decoded as %r, must be UTF-8" % (e0,), rets[0]))
    # strict decoding: bytes that are not UTF-8 must fault (the client then aborts the connection), not turn into other text
    if err_node is not None:
        okv, ev = r.fold(err_node)
        if not (okv and ev == "strict"):
            # a fact for C16 only: valid strings decode alike in every mode, so the round trip and the wire format are untouched
            facts["string_errors"] = (ev if okv else U(err_node), dec_call)
    # ---- encodeLength / decodeLength ----
    r = Roles(prog, mod, mod.funcs["encodeLength"])
    mods = [v for v, n in r.consts(ast.Mod)]
    divs = [v for v, n in r.consts(ast.FloorDiv)] + [1 << v for v, n in r.consts(ast.RShift)]
    ors = [v for v, n in r.consts(ast.BitOr)]
    ands = [v + 1 for v, n in r.consts(ast.BitAnd)]
    # value, digit = divmod(value, K): quotient and remainder of the same K in one call
    for x in ast.walk(r.node):
        if isinstance(x, ast.Call) and isinstance(x.func, ast.Name) and x.func.id == "divmod" and len(x.args) == 2:
            okk, k = r.fold(x.args[1])
            if okk and isinstance(k, int):
                mods.append(k)
                divs.append(k)
    digit_radix = (mods + ands)
    if not digit_radix or not divs:
        raise AnalysisError("encodeLength: modulus / divisor not recognisable")
    if not ors:
        probs.append(Problem("L1", "encodeLength", "continuation-bit", "no continuation bit is ever set: values above 127 are encoded as unrelated single bytes", r.node))
        ors = [128]
        no_cont = True
    else:
        no_cont = False
    el = {"modulus": digit_radix[0], "divisor": divs[0], "cont": ors[0]}
    if not (el["modulus"] == el["divisor"] == el["cont"] == 128):
        probs.append(Problem("L1", "encodeLength", "radix", "modulus %s, divisor %s and continuation bit %s must all be 128" % (el["modulus"], el["divisor"], el["cont"]), r.node))
    # continuation set iff more digits follow; loop ends iff none follow
    conds = []
    for x in ast.walk(r.node):
        if isinstance(x, ast.If) and isinstance(x.test, ast.Compare) and len(x.test.ops) == 1:
            ok, c = r.fold(x.test.comparators[0])
            if ok:
                kind = "cont" if any(isinstance(y, ast.AugAssign) and isinstance(y.op, ast.BitOr) for y in x.body) else \
                    ("exit" if any(isinstance(y, ast.Break) for y in x.body) else None)
                conds.append((kind, type(x.test.ops[0]).__name__, c, x))
        if isinstance(x, ast.While) and isinstance(x.test, ast.Compare) and len(x.test.ops) == 1:
            ok, c = r.fold(x.test.comparators[0])
            if ok:
                conds.append(("loop", type(x.test.ops[0]).__name__, c, x))

    # the same decisions taken through a flag: more = value > 0 ... while more: ... digit | 128 if more else digit
    flags = {}
    for x in ast.walk(r.node):
        if isinstance(x, ast.Assign) and len(x.targets) == 1 and isinstance(x.targets[0], ast.Name) and isinstance(x.value, ast.Compare) \
                and len(x.value.ops) == 1:
            ok, c = r.fold(x.value.comparators[0])
            if ok:
                flags[x.targets[0].id] = (type(x.value.ops[0]).__name__, c, x)
    for x in ast.walk(r.node):
        if isinstance(x, ast.While) and isinstance(x.test, ast.Name) and x.test.id in flags:
            opn, c, nd = flags[x.test.id]
            conds.append(("loop", opn, c, nd))
        if isinstance(x, ast.IfExp) and any(isinstance(y, ast.BinOp) and isinstance(y.op, ast.BitOr) for y in ast.walk(x.body)):
            t = x.test
            if isinstance(t, ast.Name) and t.id in flags:
                opn, c, nd = flags[t.id]
                conds.append(("cont", opn, c, nd))
            elif isinstance(t, ast.Compare) and len(t.ops) == 1:
                ok, c = r.fold(t.comparators[0])
                if ok:
                    conds.append(("cont", type(t.ops[0]).__name__, c, x))

    def more(op, c):    # does the test mean "value > 0" ?
        return (op == "Gt" and c == 0) or (op == "GtE" and c == 1) or (op == "NotEq" and c == 0)

    def nomore(op, c):
        return (op == "LtE" and c == 0) or (op == "Lt" and c == 1) or (op == "Eq" and c == 0)
    for kind, op, c, node in conds:
        if kind == "cont" and not more(op, c):
            probs.append(Problem("L1", "encodeLength", "continuation-test", "the continuation bit is set when value %s %s; it must be set exactly when digits remain (value > 0)" % (op, c), node))
        if kind == "exit" and not nomore(op, c):
            probs.append(Problem("L1", "encodeLength", "exit-test", "the loop ends when value %s %s; it must end exactly when no digits remain (value <= 0)" % (op, c), node))
        if kind == "loop":
            # two accepted shapes: the test looks at the value after the division (digits remain: value > 0), or before it
            # (another digit is needed: value > 127)
            pre_div = isinstance(c, int) and c >= 64
            ok_loop = ((op == "Gt" and c == 127) or (op == "GtE" and c == 128)) if pre_div else more(op, c)
            if not ok_loop:
                probs.append(Problem("L1", "encodeLength", "exit-test", "the digit loop continues while value %s %s; it must continue exactly while "
                                     "another digit is needed (value > 127 before the division, value > 0 after it): a quotient of exactly 128 is "
                                     "written as a lone continuation byte" % ({"Gt": ">", "GtE": ">=", "NotEq": "!="}.get(op, op), c), node))
    # constant tests where the two decisions belong: `if <constant>:` around the continuation bit or the break
    el_fn = mod.funcs["encodeLength"].node
    for x in ast.walk(el_fn):
        if isinstance(x, ast.If) and isinstance(x.test, ast.Constant):
            sets_cont = any(isinstance(y, ast.AugAssign) and isinstance(y.op, ast.BitOr) for y in x.body)
            leaves = any(isinstance(y, ast.Break) for y in x.body)
            if sets_cont:
                probs.append(Problem("L1", "encodeLength", "continuation-test", "the continuation bit is set under the constant test `%s`; it must be "
                                     "set exactly when digits remain (value > 0)" % U(x.test), x))
                conds.append(("cont", "Gt", 0, x))
            if leaves:
                probs.append(Problem("L1", "encodeLength", "exit-test", "the loop ends under the constant test `%s`; it must end exactly when no digits "
                                     "remain (value <= 0)" % U(x.test), x))
    inf_loops = [x for x in ast.walk(el_fn) if isinstance(x, ast.While) and isinstance(x.test, ast.Constant) and x.test.value is True]
    if inf_loops and not any(k == "exit" for k, *_ in conds) and not any(isinstance(x, ast.If) and isinstance(x.test, ast.Constant) for x in ast.walk(el_fn)):
        probs.append(Problem("L1", "encodeLength", "exit-test", "the `while True` digit loop has no exit that tests the remaining value", inf_loops[0]))
    if not any(k in ("cont", "loop") for k, *_ in conds) and not no_cont:
        raise AnalysisError("encodeLength: continuation test not recognisable")
    r = Roles(prog, mod, mod.funcs["decodeLength"])
    masks = sorted({v for v, n in r.consts(ast.BitAnd)})
    steps = [v for v, n in r.consts(ast.Mult) if isinstance(n, ast.AugAssign)] + [1 << v for v, n in r.consts(ast.LShift) if isinstance(n, ast.AugAssign)]
    shift_form = False
    if not steps:
        # the same weights written with a shift counter: value += (digit & 0x7F) << shift ... shift += 7
        shifters = {U(x.right) for x in ast.walk(r.node) if isinstance(x, ast.BinOp) and isinstance(x.op, ast.LShift) and isinstance(x.right, ast.Name)}
        for x in ast.walk(r.node):
            if isinstance(x, ast.AugAssign) and isinstance(x.op, ast.Add) and U(x.target) in shifters:
                ok, k = r.fold(x.value)
                if ok and isinstance(k, int) and 0 < k < 32:
                    steps.append(1 << k)
                    shift_form = True
    horner = None
    horner_post = False
    if not steps:
        # two phases: the 7-bit digits are collected (least significant first) up to the first byte without continuation bit, then
        # folded from the most significant one:  value = value * 128 + digit  over reversed(digits) / digits.pop()
        # (the 7-bit mask is applied when the digit is collected, or when it is folded)
        coll = [x for x in ast.walk(r.node) if isinstance(x, ast.Call) and isinstance(x.func, ast.Attribute) and x.func.attr == "append"
                and x.args and ((isinstance(x.args[0], ast.BinOp) and isinstance(x.args[0].op, ast.BitAnd)) or isinstance(x.args[0], ast.Name))]
        fold = [x for x in ast.walk(r.node) if isinstance(x, ast.Assign) and isinstance(x.value, ast.BinOp) and isinstance(x.value.op, ast.Add)
                and isinstance(x.value.left, ast.BinOp) and isinstance(x.value.left.op, (ast.Mult, ast.LShift))
                and U(x.value.left.left) == U(x.targets[0])]
        if coll and fold:
            ok, k = r.fold(fold[0].value.left.right)
            if ok and isinstance(k, int):
                steps.append((1 << k) if isinstance(fold[0].value.left.op, ast.LShift) else k)
                horner = (U(coll[0].func.value), fold[0])
        if not coll and fold:
            # the digits are counted instead of collected, and folded by index from the last one down:
            #   for d in enc: n += 1; if not d & 0x80: break      while n > 0: n -= 1; value = value*128 + (enc[n] & 0x7F)
            counters = [x.target.id for f_ in ast.walk(r.node) if isinstance(f_, ast.For) for x in f_.body
                        if isinstance(x, ast.AugAssign) and isinstance(x.op, ast.Add) and isinstance(x.target, ast.Name) and r.fold(x.value) == (True, 1)]
            idx = [x for x in ast.walk(fold[0].value.right) if isinstance(x, ast.Subscript) and isinstance(x.value, ast.Name)
                   and x.value.id in r.params and isinstance(x.slice, ast.Name) and x.slice.id in counters]
            # or enc[n - 1] with the decrement after the fold
            idx1 = [x for x in ast.walk(fold[0].value.right) if isinstance(x, ast.Subscript) and isinstance(x.value, ast.Name)
                    and x.value.id in r.params and isinstance(x.slice, ast.BinOp) and isinstance(x.slice.op, ast.Sub)
                    and isinstance(x.slice.left, ast.Name) and x.slice.left.id in counters and r.fold(x.slice.right) == (True, 1)]
            ok, k = r.fold(fold[0].value.left.right)
            if (idx or idx1) and ok and isinstance(k, int):
                steps.append((1 << k) if isinstance(fold[0].value.left.op, ast.LShift) else k)
                horner = ("<count:%s>" % (idx[0].slice.id if idx else idx1[0].slice.left.id), fold[0])
                horner_post = bool(idx1) and not idx
    enum_form = False
    if not steps:
        # the weight computed from the digit's position: for pos, digit in enumerate(enc): value |= (digit & 0x7F) << (7 * pos)
        for lp in ast.walk(r.node):
            if isinstance(lp, ast.For) and isinstance(lp.iter, ast.Call) and isinstance(lp.iter.func, ast.Name) and lp.iter.func.id == "enumerate" \
                    and len(lp.iter.args) == 1 and isinstance(lp.target, ast.Tuple) and len(lp.target.elts) == 2 and isinstance(lp.target.elts[0], ast.Name):
                posn = lp.target.elts[0].id
                for x in ast.walk(lp):
                    if isinstance(x, ast.BinOp) and isinstance(x.op, ast.LShift) and isinstance(x.right, ast.BinOp) and isinstance(x.right.op, ast.Mult):
                        a_, b_ = x.right.left, x.right.right
                        if isinstance(b_, ast.Name) and b_.id == posn:
                            a_, b_ = b_, a_
                        if isinstance(a_, ast.Name) and a_.id == posn:
                            ok, k = r.fold(b_)
                            if ok and isinstance(k, int) and 0 < k < 32:
                                steps.append(1 << k)
                                enum_form = True
    if masks and not steps:
        # the shape is the running-weight one, but the weight is not advanced the way it must be: a finding, not an unknown idiom
        accs = [x for x in ast.walk(r.node) if isinstance(x, ast.AugAssign) and isinstance(x.op, (ast.Add, ast.BitOr))
                and any(isinstance(y, ast.BinOp) and isinstance(y.op, ast.BitAnd) for y in ast.walk(x.value))]
        wnames = {y.id for x in accs for y in ast.walk(x.value) if isinstance(y, ast.Name)} - set(r.params)
        loopvars = {t.id for lp in ast.walk(r.node) if isinstance(lp, ast.For) for t in ast.walk(lp.target) if isinstance(t, ast.Name)}
        wnames -= loopvars
        if accs and len(wnames) == 1:
            w = next(iter(wnames))
            upd = [x for x in ast.walk(r.node) if isinstance(x, ast.AugAssign) and U(x.target) == w]
            if not upd:
                probs.append(Problem("L1", "decodeLength", "accumulate", "the weight `%s` is never advanced: every digit is added with the weight of the first" % w, accs[0]))
            else:
                probs.append(Problem("L1", "decodeLength", "accumulate", "the weight `%s` is advanced by `%s`; it must be multiplied by 128 after each digit" % (
                    w, U(upd[0])), upd[0]))
            steps.append(128)
    if len(masks) < 1 or not steps:
        raise AnalysisError("decodeLength: masks / multiplier step not recognisable")
    value_mask = min(masks)
    test_bits = [m for m in masks if m != value_mask] or [None]
    if test_bits == [None]:
        # the continuation test written as a comparison of the whole byte:  byte < 0x80  /  byte >= 0x80
        for x in ast.walk(r.node):
            if isinstance(x, ast.Compare) and len(x.ops) == 1 and isinstance(x.ops[0], (ast.Lt, ast.GtE)) and isinstance(x.left, ast.Name):
                ok, c = r.fold(x.comparators[0])
                if ok and isinstance(c, int):
                    test_bits = [c]
    dl = {"mask": value_mask, "step": steps[0], "test": test_bits[0]}
    if not (dl["mask"] + 1 == dl["step"] == 128 and dl["test"] == 128):
        probs.append(Problem("L1", "decodeLength", "radix", "value mask 0x%02x, multiplier step %s and continuation test bit %s must be 0x7F, 128 and 0x80" % (
            dl["mask"], dl["step"], dl["test"]), r.node))
    # the break test: stop when the continuation bit is clear
    for x in ast.walk(r.node):
        if isinstance(x, ast.If) and any(isinstance(y, (ast.Break, ast.Return)) for y in x.body):
            t = x.test
            okb = False
            if isinstance(t, ast.Compare) and len(t.ops) == 1:
                ok, c = r.fold(t.comparators[0])
                opn = type(t.ops[0]).__name__
                if ok and ((opn == "NotEq" and c == dl["test"]) or (opn == "Eq" and c == 0)):
                    okb = True
            elif isinstance(t, ast.UnaryOp) and isinstance(t.op, ast.Not):
                okb = True
            if isinstance(t, ast.Compare) and len(t.ops) == 1 and isinstance(t.ops[0], ast.Lt):
                ok, c = r.fold(t.comparators[0])
                if ok and c == dl["test"] and isinstance(t.left, ast.Name):
                    okb = True       # byte < 0x80: the continuation bit is clear
            if not okb:
                probs.append(Problem("L1", "decodeLength", "stop-test", "decoding stops on `%s`; it must stop exactly when the continuation bit is clear" % U(t), x))
    # additive accumulation with a multiplier that starts at 1, value at 0
    acc = [x for x in ast.walk(r.node) if isinstance(x, ast.AugAssign) and (isinstance(x.op, ast.Add) or ((enum_form or shift_form) and isinstance(x.op, ast.BitOr)))
           and any(isinstance(y, ast.BinOp) and isinstance(y.op, ast.BitAnd) for y in ast.walk(x.value))]
    plain = [x for x in ast.walk(r.node) if isinstance(x, ast.For)]
    # the masked digit is weighted by multiplication (or a left shift), nothing else
    for x in acc:
        v = x.value
        if isinstance(v, ast.BinOp) and not isinstance(v.op, ast.BitAnd) and any(isinstance(y, ast.BinOp) and isinstance(y.op, ast.BitAnd) for y in ast.walk(v)) \
                and not isinstance(v.op, (ast.Mult, ast.LShift)):
            probs.append(Problem("L1", "decodeLength", "accumulate", "the digit is combined with its weight by `%s`; it must be multiplied by it" % U(v), x))
    # a digit is accumulated with the weight of its own position: the weight advances after the accumulation, in the same iteration
    if plain and acc:
        lb = list(plain[0].body)
        adv = [i for i, x in enumerate(lb) if isinstance(x, ast.AugAssign) and (
            isinstance(x.op, (ast.Mult, ast.LShift)) or (shift_form and isinstance(x.op, ast.Add) and x not in acc))]
        ai = [i for i, x in enumerate(lb) if x in acc]
        if adv and ai and min(adv) < min(ai):
            probs.append(Problem("L1", "decodeLength", "accumulate", "the weight is advanced before the digit is accumulated: the first digit is "
                                 "weighted %d instead of 1" % steps[0], lb[min(adv)]))
    if horner is not None:
        acc = [horner[1]]
        lst, foldst = horner
        # the fold must start from the most significant digit: reversed(list) or list.pop() (from the end)
        loopf = next((x for x in ast.walk(r.node) if isinstance(x, (ast.For, ast.While)) and any(y is foldst for y in ast.walk(x))), None)
        msf = False
        if isinstance(loopf, ast.For) and isinstance(loopf.iter, ast.Call) and isinstance(loopf.iter.func, ast.Name) and loopf.iter.func.id == "reversed" \
                and loopf.iter.args and U(loopf.iter.args[0]) == lst:
            msf = True
        if isinstance(loopf, ast.While) and any(isinstance(y, ast.Call) and isinstance(y.func, ast.Attribute) and y.func.attr == "pop" and not y.args
                                                and U(y.func.value) == lst for y in ast.walk(foldst)):
            msf = True
        if isinstance(loopf, ast.While) and lst.startswith("<count:"):
            cn = lst[7:-1]
            body_ = list(loopf.body)
            dec = [i for i, y in enumerate(body_) if isinstance(y, ast.AugAssign) and isinstance(y.op, ast.Sub) and isinstance(y.target, ast.Name)
                   and y.target.id == cn and r.fold(y.value) == (True, 1)]
            fi = [i for i, y in enumerate(body_) if y is foldst]
            t_ = loopf.test
            runs_down = (isinstance(t_, ast.Name) and t_.id == cn) or (
                isinstance(t_, ast.Compare) and len(t_.ops) == 1 and isinstance(t_.left, ast.Name) and t_.left.id == cn
                and ((isinstance(t_.ops[0], ast.Gt) and r.fold(t_.comparators[0]) == (True, 0)) or
                     (isinstance(t_.ops[0], ast.GtE) and r.fold(t_.comparators[0]) == (True, 1)) or
                     (isinstance(t_.ops[0], ast.NotEq) and r.fold(t_.comparators[0]) == (True, 0))))
            # the index is decremented before it is used: the first digit folded is the last one counted, the last one is digit 0
            if dec and fi and runs_down and ((dec[0] < fi[0]) != horner_post):
                msf = True
        if not msf:
            probs.append(Problem("L1", "decodeLength", "accumulate", "the collected digits are folded least significant first: the value "
                                 "comes out with its digits reversed", foldst))
    if not acc:
        probs.append(Problem("L1", "decodeLength", "accumulate", "digits are not accumulated additively (value += digit * multiplier)", r.node))
    inits = {}
    for x in r.node.body:
        if isinstance(x, ast.Assign) and isinstance(x.targets[0], ast.Name):
            ok, v = r.fold(x.value)
            if ok:
                inits[x.targets[0].id] = v
    if horner is not None:
        acc_name = U(horner[1].targets[0])
        if str(horner[0]).startswith("<count:"):
            # the counter starts at 0 as well (it counts the digits); what matters is the accumulator
            cn0 = horner[0][7:-1]
            if inits.get(cn0) != 0:
                probs.append(Problem("L1", "decodeLength", "init", "the digit counter must start at 0 (found %s)" % inits.get(cn0), r.node))
            inits = {k: v for k, v in inits.items() if k != cn0}
        if [v for v in inits.values() if isinstance(v, int)] != [0]:
            probs.append(Problem("L1", "decodeLength", "init", "the folded value must start at 0 (found %s)" % inits, r.node))
    elif sorted(inits.values()) != ([0] if enum_form else [0, 0] if shift_form else [0, 1]):
        probs.append(Problem("L1", "decodeLength", "init", "accumulator and multiplier must start at 0 and 1 (found %s)" % inits, r.node))
    # guards that reject: a bound on the multiplier must admit every legal 4-byte length
    loop = plain[0] if plain else None
    if loop is not None:
        body = list(loop.body)
        mul_idx = [i for i, x in enumerate(body) if isinstance(x, ast.AugAssign) and isinstance(x.op, (ast.Mult, ast.LShift))]
        mulvar = U(body[mul_idx[0]].target) if mul_idx else None
        for i, x in enumerate(body):
            if isinstance(x, ast.If) and any(isinstance(y, ast.Raise) for y in x.body) and isinstance(x.test, ast.Compare) and len(x.test.ops) == 1:
                ok, c = r.fold(x.test.comparators[0])
                lhs = U(x.test.left)
                opn = type(x.test.ops[0]).__name__
                if ok and isinstance(c, int) and lhs == mulvar and mul_idx:
                    legal_max = 128 ** 4 if i > mul_idx[0] else 128 ** 3
                    rejects_legal = (opn == "Gt" and c < legal_max) or (opn == "GtE" and c <= legal_max)
                    if rejects_legal:
                        probs.append(Problem("L1", "decodeLength", "length-guard", "the malformed-length guard `%s` is evaluated %s the multiplier is advanced, "
                                             "where legal values reach %d: every 4-byte remaining length (2097152..268435455) is rejected" % (
                                                 U(x.test), "after" if i > mul_idx[0] else "before", legal_max), x))
                elif ok is False or lhs != mulvar:
                    probs.append(Problem("L1", "decodeLength", "extra-raise", "decodeLength raises under `%s`: part of the domain 0..268435455 may be rejected" % U(x.test), x))
    for fname in ("decode16Int", "decodeString", "encode16Int"):
        fn = mod.funcs[fname]
        rr = Roles(prog, mod, fn)
        allowed = set()
        if fname == "encode16Int" and fn.params:
            # the explicit form of the range check: only values outside 0..65535 are refused
            for acc, g in raising_guards(rr, fn.params[0]):
                if _iv_and(acc, [(0, 65535)]) == [(0, 65535)]:
                    allowed |= {id(y) for y in g.body if isinstance(y, ast.Raise)}
        if fname == "decode16Int":
            # a field shorter than two bytes is refused (what indexing does by itself)
            for x in ast.walk(fn.node):
                if isinstance(x, ast.If):
                    for nm in {y.id for y in ast.walk(x.test) if isinstance(y, ast.Name)}:
                        t = truth_set(x.test, "len(%s)" % nm, rr.fold)
                        if t is not None and _iv_and(t, [(2, INF)]) == []:
                            allowed |= {id(y) for y in x.body if isinstance(y, ast.Raise)}
        for x in ast.walk(fn.node):
            if isinstance(x, ast.Raise) and id(x) not in allowed:
                probs.append(Problem("L1", fname, "extra-raise", "%s raises: part of its domain is rejected" % fname, x))
    if el["modulus"] != dl["step"] or el["cont"] != dl["test"]:
        probs.append(Problem("L1", "encodeLength/decodeLength", "pair", "encoder radix %s / continuation %s disagree with decoder step %s / test bit %s" % (
            el["modulus"], el["cont"], dl["step"], dl["test"]), r.node))
    facts["length"] = (el, dl)
    return probs, facts
