"""Terms (access paths) and events used by the path interpreter."""
import ast

SELF = ("self",)
FAC = ("fac",)
TRANSPORT = ("transport",)
NONE = ("const", None)


def const(v):
    try:
        hash(v)
        return ("const", v)
    except TypeError:
        return ("constobj", repr(v))


def is_const(t):
    return isinstance(t, tuple) and t and t[0] == "const"


def mentions(t, sub):
    """Does term t contain sub-term sub?"""
    if t == sub:
        return True
    if isinstance(t, tuple):
        return any(mentions(x, sub) for x in t)
    return False


def subterms(t):
    yield t
    if isinstance(t, tuple):
        for x in t:
            if isinstance(x, tuple):
                yield from subterms(x)


def has_genobj(t):
    """Does the term hold an unconsumed generator object (the result of calling a generator function)?"""
    return isinstance(t, tuple) and any(isinstance(x, tuple) and x[:1] == ("genobj",) for x in subterms(t))


def show(t, depth=0):
    """Compact human-readable rendering of a term."""
    if not isinstance(t, tuple) or not t:
        return repr(t)
    if depth > 6:
        return "..."
    k = t[0]
    s = lambda x: show(x, depth + 1)
    if k == "self":
        return "self"
    if k == "fac":
        return "self.factory"
    if k == "transport":
        return "self.transport"
    if k == "const":
        return repr(t[1])
    if k == "attr":
        return "%s.%s" % (s(t[1]), t[2])
    if k == "sub":
        return "%s[%s]" % (s(t[1]), s(t[2]))
    if k == "new":
        return "<%s#%s>" % (t[1].split(".")[-1], t[2])
    if k == "param":
        return "$" + t[1]
    if k == "regtop":
        return "factory.%s" % t[1]
    if k == "reg":
        return "factory.%s[%s]" % (t[1], s(t[2]))
    if k == "elem":
        return "factory.%s[..][%s]" % (t[1], s(t[2]))
    if k == "keyof":
        return "key(%s)" % t[1]
    if k == "popped":
        return "popped(%s)" % t[1]
    if k == "bm":
        return "%s.%s" % (s(t[1]), t[2].name)
    if k == "func":
        return t[1].qual
    if k == "cls":
        return t[1].qual
    if k == "closure":
        return "closure:" + t[1].qual
    if k == "call":
        return "%s(%s)" % (s(t[1]), ", ".join(s(a) for a in t[2]))
    if k == "exc":
        return "%s(...)" % str(t[1]).split(".")[-1]
    if k == "binop":
        return "(%s %s %s)" % (s(t[2]), t[1], s(t[3]))
    if k == "cmp":
        return "(%s %s %s)" % (s(t[2]), t[1], s(t[3]))
    if k == "ext":
        return t[1]
    if k == "unk":
        return "?%s" % (t[1],)
    return "%s(%s)" % (k, ", ".join(s(x) if isinstance(x, tuple) else repr(x) for x in t[1:]))


class Ev:
    __slots__ = ("kind", "a", "file", "line", "func", "stack", "conds", "node", "seq")

    def __init__(self, kind, a, file, line, func, stack, conds, node=None):
        self.kind = kind
        self.a = a
        self.file = file
        self.line = line
        self.func = func        # qualname of the function whose body holds the construct
        self.stack = stack      # tuple of (file, line, callee qual)
        self.conds = conds      # tuple of Cond active at this point
        self.node = node
        self.seq = 0

    def __getitem__(self, k):
        return self.a.get(k)

    def where(self):
        return "%s:%d" % (self.file, self.line)

    def brief(self):
        parts = []
        for k, v in self.a.items():
            if k in ("body", "node"):
                continue
            if isinstance(v, tuple):
                parts.append("%s=%s" % (k, show(v)))
            elif isinstance(v, (list,)):
                parts.append("%s=[%s]" % (k, ", ".join(show(x) if isinstance(x, tuple) else str(x) for x in v)))
            else:
                parts.append("%s=%s" % (k, v))
        return "%s(%s) @%s in %s" % (self.kind, ", ".join(parts), self.where(), self.func.split(".")[-1])

    def __repr__(self):
        return self.brief()


class Cond:
    __slots__ = ("term", "pol", "file", "line", "text")

    def __init__(self, term, pol, file, line, text):
        self.term = term
        self.pol = pol
        self.file = file
        self.line = line
        self.text = text

    def __repr__(self):
        return "%s%s" % ("" if self.pol else "not ", self.text)


class Path:
    """One abstract path: ordered events (loops as nested LOOP events), how it exits."""
    __slots__ = ("events", "exit", "conds", "st", "pkt_events")

    def __init__(self, events, exit_, conds, st=None):
        self.events = events
        self.exit = exit_       # None | ('return', term) | ('raise', excterm) | ('break',) | ('continue',)
        self.conds = conds
        self.st = st

    def exit_kind(self):
        return self.exit[0] if self.exit else "fall"

    def walk(self, into_loops=True):
        """All events, descending into loop bodies (every body path)."""
        for e in self.events:
            yield e
            if into_loops and e.kind == "LOOP":
                for bp in e.a["body"]:
                    yield from bp.walk(True)

    def kinds(self, *ks, into_loops=True):
        return [e for e in self.walk(into_loops) if e.kind in ks]

    def linear(self, limit=4000):
        """Linearisations: each loop executes zero times or once with one body path."""
        out = [[]]
        for e in self.events:
            if e.kind != "LOOP":
                for o in out:
                    o.append(e)
                continue
            alts = [[]]
            for bp in e.a["body"]:
                if bp.exit_kind() in ("fall", "continue", "break"):
                    for lin in bp.linear(limit):
                        alts.append(lin)
            new = []
            for o in out:
                for al in alts:
                    new.append(o + [e] + al)
                    if len(new) > limit:
                        raise OverflowError("too many linearisations")
            out = new
        return out
