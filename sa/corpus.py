"""Curated variants of the current tree (see selftest.py). Each edit is (file, exact old text, new text)."""
BASE = "src/mqtt/client/base.py"
PS = "src/mqtt/client/pubsubs.py"
PUB = "src/mqtt/client/publisher.py"
SUB = "src/mqtt/client/subscriber.py"
FAC = "src/mqtt/client/factory.py"
PDU = "src/mqtt/pdu.py"
IV = "src/mqtt/client/interval.py"

VARIANTS = []


def B(name, props, edits, expect=None):
    VARIANTS.append({"name": name, "kind": "B", "props": props, "edits": edits, "expect": expect or {}})


def N(name, props, edits):
    VARIANTS.append({"name": name, "kind": "N", "props": props, "edits": edits, "expect": {}})


# ---------------------------------------------------------------- C14
B("subscriber keeps pubsubs CONNECTING (D3 re-introduced)", ["C14"],
  [(SUB, "        self.CONNECTING = BaseConnectingState(self)\n", "")], {"C14": ["M-CELL"]})
B("publisher ConnectedState.subscribe honoured", ["C14"],
  [(PUB, "    def handlePUBACK(self, response):\n        self.protocol.handlePUBACK(response)\n",
    "    def subscribe(self, request):\n        return self.protocol.doSubscribe(request)\n\n    def handlePUBACK(self, response):\n        self.protocol.handlePUBACK(response)\n")],
  {"C14": ["M-CELL"]})
B("BaseState.publish delegating", ["C14"],
  [(BASE, '        return defer.fail(MQTTStateError("Unexpected publish() operation", state))', "        return self.protocol.doPublish(request)")],
  {"C14": ["M-CELL"]})
B("IdleState.publish honoured", ["C14"],
  [(BASE, "class IdleState(BaseState):\n\n    def connect(self, request):\n        return self.protocol.doConnect(request)\n",
    "class IdleState(BaseState):\n\n    def connect(self, request):\n        return self.protocol.doConnect(request)\n\n    def publish(self, request):\n        return self.protocol.doPublish(request)\n")],
  {"C14": ["M-CELL"]})
B("handlePUBREC wired to protocol.handlePUBACK", ["C14"],
  [(PS, "    def handlePUBREC(self, response):\n        self.protocol.handlePUBREC(response)\n\n    # QoS=2 packets forwarded to subscriber",
    "    def handlePUBREC(self, response):\n        self.protocol.handlePUBACK(response)\n\n    # QoS=2 packets forwarded to subscriber")],
  {"C14": ["M-CELL"]})
B("buildProtocol SUBSCRIBER -> publisher", ["C14"],
  [(FAC, "            from mqtt.client.subscriber import MQTTProtocol\n", "            from mqtt.client.publisher import MQTTProtocol\n")],
  {"C14": ["M-PROFILE", "M-CELL"]})
B("ConnectedState.connect honoured", ["C14"],
  [(BASE, "    def disconnect(self, request):\n        '''\n        Send a DISCONNECT packet.\n        '''\n        self.protocol.doDisconnect(request)\n",
    "    def connect(self, request):\n        return self.protocol.doConnect(request)\n\n    def disconnect(self, request):\n        '''\n        Send a DISCONNECT packet.\n        '''\n        self.protocol.doDisconnect(request)\n")],
  {"C14": ["M-CELL"]})
B("refusal with the wrong exception", ["C14"],
  [(BASE, '        return defer.fail(MQTTStateError("Unexpected subscribe() operation", state))', '        return defer.fail(ValueError("Unexpected subscribe() operation"))')],
  {"C14": ["M-REFUSE"]})
B("disconnect honoured while connecting", ["C14"],
  [(BASE, "class ConnectingState(BaseState):\n\n    def handleCONNACK(self, response):\n        self.protocol.handleCONNACK(response)\n",
    "class ConnectingState(BaseState):\n\n    def handleCONNACK(self, response):\n        self.protocol.handleCONNACK(response)\n\n    def disconnect(self, request):\n        self.protocol.doDisconnect(request)\n")],
  {"C14": ["M-CELL"]})
N("log line added to a refusing method", ["C14"],
  [(BASE, '        state = self.__class__.__name__\n        return defer.fail(MQTTStateError("Unexpected subscribe() operation", state))',
    '        state = self.__class__.__name__\n        log.debug("refused")\n        return defer.fail(MQTTStateError("Unexpected subscribe() operation", state))')])
N("state class renamed", ["C14"],
  [(PUB, "class ConnectingState(BaseConnectingState):", "class PubConnectingState(BaseConnectingState):"),
   (PUB, "        self.CONNECTING = ConnectingState(self) \n", "        self.CONNECTING = PubConnectingState(self) \n")])

# ---------------------------------------------------------------- C19
B("one access keyed by a constant", ["C19"],
  [(PS, "            request = self.factory.windowSubscribe[self.addr][response.msgId]\n        except KeyError as e:",
    "            request = self.factory.windowSubscribe[0][response.msgId]\n        except KeyError as e:")], {"C19": ["I-KEY"]})
B("module-level shared default container", ["C19"],
  [(FAC, "        v = self.windowPublish.get(addr, dict() )", "        v = self.windowPublish.get(addr, _SHARED)"),
   (FAC, "log = Logger(namespace='mqtt')\n", "log = Logger(namespace='mqtt')\n_SHARED = {}\n")], {"C19": ["I-FRESH"]})
B("protocol iterating a whole registry", ["C19"],
  [(PS, "        cnx = self.addr\n", "        cnx = self.addr\n        for other in self.factory.windowPublish.values():\n            pass\n")],
  {"C19": ["I-KEY", "I-WHOLE"]})
B("self.addr reassigned", ["C19"],
  [(PS, "        self._bandwith = bandwith\n", "        self._bandwith = bandwith\n        self.addr = None\n")], {"C19": ["I-ADDR", "I-KEY"]})
B("carry buffer as a mutated class attribute", ["C19"],
  [(BASE, "        self._buffer     = bytearray()\n", ""),
   (BASE, "    MAX_WINDOW          = 16 ", "    _buffer = bytearray()\n    MAX_WINDOW          = 16 ")], {"C19": ["I-SHARED", "I-INSTANCE"]})
B("buildProtocol keys one registry by a constant", ["C19"],
  [(FAC, "        self.windowPubRx[addr] = v", "        self.windowPubRx[None] = v")], {"C19": ["I-BUILD-KEY", "I-BUILD-ALL"]})
B("protocol writes a factory-wide attribute", ["C19"],
  [(PS, "        self._bandwith = bandwith\n", "        self._bandwith = bandwith\n        self.factory.maxDelay = bandwith\n")], {"C19": ["I-FACFIELD"]})
B("packetTypes mutated at run time", ["C19"],
  [(BASE, "        self._accumulatePacket(data)\n", "        self.packetTypes[0x0F] = 'AUTH'\n        self._accumulatePacket(data)\n")], {"C19": ["I-SHARED"]})
N("every access through a local alias of self.addr", ["C19"],
  [(PS, "        try:\n            request = self.factory.windowSubscribe[self.addr][response.msgId]\n        except KeyError as e:",
    "        here = self.addr\n        try:\n            request = self.factory.windowSubscribe[here][response.msgId]\n        except KeyError as e:")])
N("fresh containers via literals", ["C19"],
  [(FAC, "        v = self.windowPublish.get(addr, dict() )", "        v = self.windowPublish.get(addr, {})")])

# ---------------------------------------------------------------- C20
B("setWindowSize accepts 0", ["C20"], [(BASE, "        if not (0 < n <= self.MAX_WINDOW):", "        if not (0 <= n <= self.MAX_WINDOW):")], {"C20": ["G-INTERVAL"]})
B("TIMEOUT_MAX_INITIAL doubled", ["C20"], [(BASE, "    TIMEOUT_MAX_INITIAL = 1024", "    TIMEOUT_MAX_INITIAL = 2048")], {"C20": ["G-INTERVAL"]})
B("keepalive check dropped", ["C20"],
  [(BASE, "        if not ( 0 <= request.keepalive <= 65535):\n            raise KeepaliveValueError(request.keepalive)\n", "")], {"C20": ["G-INTERVAL"]})
B("willQoS < 4", ["C20"], [(BASE, "        if not ( 0<= request.willQoS < 3):", "        if not ( 0<= request.willQoS < 4):")], {"C20": ["G-INTERVAL"]})
B("QoSValueError no longer a ValueError", ["C20"],
  [("src/mqtt/error.py", "class QoSValueError(ValueError):", "class QoSValueError(Exception):")], {"C20": ["G-EXC", "G-FAILRET"]})
B("queued before the encoder accepted it", ["C20"],
  [(PS, "        try:\n            request.encode()\n        except Exception as e:\n            return defer.fail(e)\n\n        self.factory.queuePublishTx[self.addr].append(request)\n",
    "        self.factory.queuePublishTx[self.addr].append(request)\n        try:\n            request.encode()\n        except Exception as e:\n            return defer.fail(e)\n\n")],
  {"C20": ["G-ATOMIC"]})
B("undefined name in a raise (D5 re-introduced)", ["C20"],
  [(PS, "            raise TopicTypeError(type(request.topics))\n        for (topic, qos)", "            raise TopicTypeError(type(topic))\n        for (topic, qos)")], {"C20": ["G-EXC"]})
B("spurious keepalive rejection", ["C20"],
  [(BASE, "        if (request.version == v31) and len(request.clientId) > 23:",
    "        if request.keepalive > 1000:\n            raise KeepaliveValueError(request.keepalive)\n        if (request.version == v31) and len(request.clientId) > 23:")],
  {"C20": ["G-INTERVAL", "G-SPURIOUS"]})
B("password-without-user check dropped", ["C20"],
  [(BASE, "        if request.username is None and request.password is not None:\n            raise MissingUserError()\n", "")], {"C20": ["G-COMBO"]})
B("subscribe qos < 4", ["C20"], [(PS, "            if not ( 0<= qos < 3):\n                raise QoSValueError(\"subscribe\", qos)", "            if not ( 0<= qos < 4):\n                raise QoSValueError(\"subscribe\", qos)")], {"C20": ["G-INTERVAL"]})
B("state changed before validation in doConnect", ["C20"],
  [(BASE, "        try:\n            self._checkConnect(request)\n            pdu = request.encode()", "        self.state = self.CONNECTING\n        try:\n            self._checkConnect(request)\n            pdu = request.encode()")],
  {"C20": ["G-ATOMIC"]})
N("window guard in the or-form", ["C20"],
  [(BASE, "        if not (0 < n <= self.MAX_WINDOW):", "        if n < 1 or n > self.MAX_WINDOW:")])
N("publish qos guard with <= 2", ["C20"], [(PS, "        if not ( 0<= request.qos < 3):", "        if not (0 <= request.qos <= 2):")])

# ---------------------------------------------------------------- C05
B("handlePUBREC fires the Deferred", ["C05"],
  [(PS, "            reply.deferred = request.deferred       # Transfer the deferred to PUBREL", "            request.deferred.callback(request.msgId)\n            reply.deferred = request.deferred       # Transfer the deferred to PUBREL")],
  {"C05": ["R-PUBREC", "R-WHO-FIRE"]})
B("handlePUBACK without del", ["C05"],
  [(PS, "            request.deferred.callback(request.msgId)\n            del self.factory.windowPublish[self.addr][response.msgId]\n", "            request.deferred.callback(request.msgId)\n")],
  {"C05": ["R-FIRE"]})
B("handlePUBCOMP looks up the publish window", ["C05"],
  [(PS, "            reply = self.factory.windowPubRelease[self.addr][response.msgId]\n        except KeyError as e:", "            reply = self.factory.windowPublish[self.addr][response.msgId]\n        except KeyError as e:")],
  {"C05": ["R-LOOKUP", "R-WHO-FIRE", "R-FIRE"]})
B("effect in the miss branch of handlePUBACK", ["C05"],
  [(PS, '            log.debug("<== {packet:7} (id={response.msgId:04x}) already handled", packet="PUBACK", response=response)\n',
    '            log.debug("<== {packet:7} (id={response.msgId:04x}) already handled", packet="PUBACK", response=response)\n            self._refillPublish(dup=False)\n')],
  {"C05": ["R-LOOKUP"]})
B("deferred.msgId = 0", ["C05"],
  [(PS, "        request.deferred.msgId = request.msgId\n        self._refillPublish(dup=False)", "        request.deferred.msgId = 0\n        self._refillPublish(dup=False)")], {"C05": ["R-ID"]})
B("handlePUBREC without the Deferred transfer", ["C05"],
  [(PS, "            reply.deferred = request.deferred       # Transfer the deferred to PUBREL\n", "")], {"C05": ["R-PUBREC", "R-DROP"]})
B("QoS 0 with a pending Deferred", ["C05"],
  [(PS, "            request.deferred = defer.succeed(None)", "            request.deferred = defer.Deferred()")], {"C05": ["R-DROP"]})
B("PUBACK handler without try/except", ["C05"],
  [(PS, "        try:\n             request = self.factory.windowPublish[self.addr][response.msgId]\n        except KeyError as e:\n            log.debug(\"<== {packet:7} (id={response.msgId:04x}) already handled\", packet=\"PUBACK\", response=response)\n        else:\n",
    "        request = self.factory.windowPublish[self.addr][response.msgId]\n        if True:\n")], {"C05": ["R-LOOKUP"]})
B("identifier reassigned after encode", ["C05"],
  [(PS, "        self.factory.queuePublishTx[self.addr].append(request)\n", "        self.factory.queuePublishTx[self.addr].append(request)\n        request.msgId = self.factory.makeId() if request.msgId else None\n")],
  {"C05": ["R-ID"]})
B("PUBCOMP success without removing the entry", ["C05"],
  [(PS, "            del self.factory.windowPubRelease[self.addr][reply.msgId]\n            self._refillPublish(dup=False)", "            self._refillPublish(dup=False)")], {"C05": ["R-FIRE"]})
N("del moved before callback in handlePUBACK", ["C05"],
  [(PS, "            request.deferred.callback(request.msgId)\n            del self.factory.windowPublish[self.addr][response.msgId]\n",
    "            del self.factory.windowPublish[self.addr][response.msgId]\n            request.deferred.callback(request.msgId)\n")])
N("callback with response.msgId", ["C05"],
  [(PS, "            request.deferred.callback(request.msgId)\n            del self.factory.windowPublish", "            request.deferred.callback(response.msgId)\n            del self.factory.windowPublish")])

# ---------------------------------------------------------------- C06
B("QoS 1 PUBLISH without PUBACK", ["C06"],
  [(PS, '            log.debug("<== {packet:7} (id={response.msgId:04x})" , packet="PUBACK", response=response)\n            self.transport.write(reply.encode())\n',
    '            log.debug("<== {packet:7} (id={response.msgId:04x})" , packet="PUBACK", response=response)\n')], {"C06": ["P1"]})
B("QoS 2 PUBLISH delivered at once", ["C06"],
  [(PS, "            self.factory.windowPubRx[self.addr][response.msgId] = response\n", "            self.factory.windowPubRx[self.addr][response.msgId] = response\n            self._deliver(response)\n")], {"C06": ["P1"]})
B("PUBACK with a constant identifier", ["C06"],
  [(PS, "            reply = PUBACK()\n            reply.msgId = response.msgId\n", "            reply = PUBACK()\n            reply.msgId = 1\n")], {"C06": ["P3"]})
B("_deliver with dup and retain swapped", ["C06"],
  [(PS, "pdu.qos, pdu.dup, pdu.retain, pdu.msgId)", "pdu.qos, pdu.retain, pdu.dup, pdu.msgId)")], {"C06": ["P4"]})
B("PUBCOMP only on the hit path (D6 re-introduced)", ["C06"],
  [(PS, "            self._deliver(msg)\n        reply = PUBCOMP()\n        reply.msgId = response.msgId\n        log.debug(\"<== {packet:7} (id={response.msgId:04x})\" , packet=\"PUBCOMP\", response=response)\n        self.transport.write(reply.encode())\n",
    "            self._deliver(msg)\n            reply = PUBCOMP()\n            reply.msgId = response.msgId\n            self.transport.write(reply.encode())\n")], {"C06": ["P2"]})
B("doPublish writes a PUBACK", ["C06"],
  [(PS, "        self.factory.queuePublishTx[self.addr].append(request)\n", "        self.factory.queuePublishTx[self.addr].append(request)\n        ack = PUBACK()\n        ack.msgId = 1\n        self.transport.write(ack.encode())\n")], {"C06": ["P5"]})
B("session purge empties the receive window", ["C06"],
  [(PS, "        for k in list(self.factory.windowPubRelease[self.addr]):\n            request = self.factory.windowPubRelease[self.addr][k]\n",
    "        self.factory.windowPubRx[self.addr].clear()\n        for k in list(self.factory.windowPubRelease[self.addr]):\n            request = self.factory.windowPubRelease[self.addr][k]\n")], {"C06": ["P6"]})
B("stored message delivered but kept", ["C06"],
  [(PS, "            del self.factory.windowPubRx[self.addr][response.msgId]\n            self._deliver(msg)", "            self._deliver(msg)")], {"C06": ["P2"]})
B("QoS 0 PUBLISH acknowledged", ["C06"],
  [(PS, "        if  response.qos == 0:\n", "        if  response.qos == 0:\n            reply = PUBACK()\n            reply.msgId = response.msgId\n            self.transport.write(reply.encode())\n")], {"C06": ["P1"]})
N("write and deliver reordered in the QoS 1 branch", ["C06"],
  [(PS, '            self.transport.write(reply.encode())\n            self._deliver(response)\n        elif response.qos == 2:', '            self._deliver(response)\n            self.transport.write(reply.encode())\n        elif response.qos == 2:')])

# ---------------------------------------------------------------- C07
B("window test deleted", ["C07"],
  [(PS, "        if len(self.factory.windowSubscribe[self.addr]) >= self._window:\n            raise MQTTWindowError(\"subscription requests exceeded limit\", self._window)\n", "")],
  {"C07": ["S-WINDOW"]})
B("window test with == (D12 re-introduced)", ["C07"],
  [(PS, "        if len(self.factory.windowUnsubscribe[self.addr]) >= self._window:", "        if len(self.factory.windowUnsubscribe[self.addr]) == self._window:")], {"C07": ["S-WINDOW"]})
B("topics sorted before encoding", ["C07"],
  [(PS, "            self._checkSubscribe(request)\n", "            self._checkSubscribe(request)\n            request.topics = sorted(request.topics)\n")], {"C07": ["S-NORM"]})
B("handleSUBACK calls back with the identifier", ["C07"],
  [(PS, "            request.deferred.callback(response.granted)", "            request.deferred.callback(response.msgId)")], {"C07": ["S-ACK"]})
B("handleUNSUBACK looks up the subscribe window", ["C07"],
  [(PS, "            request = self.factory.windowUnsubscribe[self.addr][response.msgId]\n        except KeyError as e:", "            request = self.factory.windowSubscribe[self.addr][response.msgId]\n        except KeyError as e:")],
  {"C07": ["R-LOOKUP", "S-ACK", "R-FIRE"]})
B("resume without the subscribe loops (D16 re-introduced)", ["C07"],
  [(PS, "        for _, request in self.factory.windowSubscribe[self.addr].items():\n            self._retrySubscribe(request, dup=True)\n", "")], {"C07": ["S-LIFE"]})
B("purge without the subscribe windows", ["C07"],
  [(PS, "        for window in (self.factory.windowSubscribe[self.addr], self.factory.windowUnsubscribe[self.addr]):", "        for window in ():")], {"C07": ["S-LIFE"]})
B("subscribe with a constant identifier", ["C07"],
  [(PS, "            self._checkSubscribe(request)\n            request.msgId = self.factory.makeId()", "            self._checkSubscribe(request)\n            request.msgId = 1")], {"C07": ["S-ID"]})
B("unsubscribe writes twice", ["C07"],
  [(PS, "        self._retryUnsubscribe(request, dup=False)\n        return  request.deferred", "        self._retryUnsubscribe(request, dup=False)\n        self.transport.write(bytes(request.encoded))\n        return  request.deferred")],
  {"C07": ["S-FLOW"]})
B("SUBACK handled without removing the request", ["C07"],
  [(PS, "            del self.factory.windowSubscribe[self.addr][response.msgId]\n", "")], {"C07": ["R-FIRE"]})
B("window guard compares the wrong window", ["C07"],
  [(PS, "        if len(self.factory.windowSubscribe[self.addr]) >= self._window:", "        if len(self.factory.windowUnsubscribe[self.addr]) >= self._window:")], {"C07": ["S-WINDOW"]})
N("handler local renamed", ["C07"],
  [(PS, "            request = self.factory.windowSubscribe[self.addr][response.msgId]\n            del self.factory.windowSubscribe[self.addr][response.msgId]\n            request.alarm.cancel()\n            request.deferred.callback(response.granted)",
    "            req = self.factory.windowSubscribe[self.addr][response.msgId]\n            del self.factory.windowSubscribe[self.addr][response.msgId]\n            req.alarm.cancel()\n            req.deferred.callback(response.granted)")])
N("window guard written as not <", ["C07"],
  [(PS, "        if len(self.factory.windowSubscribe[self.addr]) >= self._window:", "        if not len(self.factory.windowSubscribe[self.addr]) < self._window:")])

# ---------------------------------------------------------------- C08
B("_publishError passes dup=False", ["C08"], [(PS, "        self._retryPublish(request, dup=True)\n\n    # ----", "        self._retryPublish(request, dup=False)\n\n    # ----")], {"C08": ["R-DUP"]})
B("_subscribeError without retry", ["C08"], [(PS, "        self._retrySubscribe(request,  dup=True)\n", "        pass\n")], {"C08": ["R-RETRY"]})
B("_retryRelease without re-arming", ["C08"],
  [(PS, "        reply.alarm = self.callLater(reply.interval(), self._pubrelError, reply)\n", "")], {"C08": ["R-RETRY", "R-ARMED"]})
B("retry re-encodes the request", ["C08"],
  [(PS, "        request.encoded[0] |=  (dup << 3)   # set the dup flag\n        request.dup = dup\n", "        request.dup = dup\n        request.encode()\n        request.encoded[0] |=  (dup << 3)   # set the dup flag\n")], {"C08": ["R-SAME"]})
B("_retryUnsubscribe arms the publish error callback", ["C08"],
  [(PS, "        request.alarm = self.callLater(interval, self._unsubscribeError, request)", "        request.alarm = self.callLater(interval, self._publishError, request)")], {"C08": ["R-RETRY"]})
B("unresolved method (D4 re-introduced)", ["C08"],
  [(PS, "        self._retryUnsubscribe(request,  dup=True)", "        self.reUnubscribe(request,  dup=True)")], {"C08": ["X-RESOLVE", "R-RETRY"]})
B("_retrySubscribe without the 3.1 test", ["C08"],
  [(PS, "        if self._version == v31:\n            request.encoded[0] |=  (dup << 3)   # set the dup flag\n        interval = request.interval() + 0.25*len(self.factory.windowSubscribe[self.addr])",
    "        request.encoded[0] |=  (dup << 3)   # set the dup flag\n        interval = request.interval() + 0.25*len(self.factory.windowSubscribe[self.addr])")], {"C08": ["R-DUP"]})
B("_retryPublish dup << 2", ["C08"],
  [(PS, "        request.encoded[0] |=  (dup << 3)   # set the dup flag\n        request.dup = dup", "        request.encoded[0] |=  (dup << 2)   # set the dup flag\n        request.dup = dup")], {"C08": ["R-DUP"]})
B("resume with dup=False", ["C08"],
  [(PS, "            if request.alarm is None:\n                self._retryPublish(request, dup=True)", "            if request.alarm is None:\n                self._retryPublish(request, dup=False)")], {"C08": ["R-DUP"]})
B("PUBLISH DUP only under 3.1", ["C08"],
  [(PS, "        request.encoded[0] |=  (dup << 3)   # set the dup flag\n        request.dup = dup", "        if self._version == v31:\n            request.encoded[0] |=  (dup << 3)   # set the dup flag\n        request.dup = dup")], {"C08": ["R-DUP"]})
B("constant retry delay", ["C08"],
  [(PS, "        reply.alarm = self.callLater(reply.interval(), self._pubrelError, reply)", "        reply.alarm = self.callLater(1, self._pubrelError, reply)")], {"C08": ["R-DELAY"]})
B("stored packet resent from setWindowSize-like API", ["C08"],
  [(PS, "        self._bandwith = bandwith\n", "        self._bandwith = bandwith\n        for _, request in self.factory.windowPublish[self.addr].items():\n            self.transport.write(bytes(request.encoded))\n")], {"C08": ["R-WHO-SEND", "R-DUP"]})
N("dup passed positionally", ["C08"], [(PS, "        self._retrySubscribe(request,  dup=True)", "        self._retrySubscribe(request, True)")])
N("dup patch written with 8*dup", ["C08"],
  [(PS, "        request.encoded[0] |=  (dup << 3)   # set the dup flag\n        request.dup = dup", "        request.encoded[0] |=  (dup * 8)\n        request.dup = dup")])

# ---------------------------------------------------------------- C09
B("handlePUBREC without cancel", ["C09"],
  [(PS, "            request.alarm.cancel()\n            del self.factory.windowPublish[self.addr][response.msgId]\n            reply = PUBREL()", "            del self.factory.windowPublish[self.addr][response.msgId]\n            reply = PUBREL()")], {"C09": ["Q-ORDER"]})
B("handlePUBREC without del", ["C09"],
  [(PS, "            request.alarm.cancel()\n            del self.factory.windowPublish[self.addr][response.msgId]\n            reply = PUBREL()", "            request.alarm.cancel()\n            reply = PUBREL()")], {"C09": ["Q-ORDER"]})
B("PUBREL written before the PUBLISH leaves the window", ["C09"],
  [(PS, "            request.alarm.cancel()\n            del self.factory.windowPublish[self.addr][response.msgId]\n            reply = PUBREL()", "            reply = PUBREL()"),
   (PS, "            self._retryRelease(reply, False)\n", "            self._retryRelease(reply, False)\n            request.alarm.cancel()\n            del self.factory.windowPublish[self.addr][response.msgId]\n")], {"C09": ["Q-ORDER"]})
B("resume applies the PUBLISH retry to release-window entries", ["C09"],
  [(PS, "        for _, reply in self.factory.windowPubRelease[self.addr].items():\n            self._retryRelease(reply, dup=True)", "        for _, reply in self.factory.windowPubRelease[self.addr].items():\n            self._retryPublish(reply, dup=True)")], {"C09": ["Q-RETRY"]})
B("handlePUBACK also empties the release window", ["C09"],
  [(PS, "            del self.factory.windowPublish[self.addr][response.msgId]\n            self._refillPublish(dup=False)", "            del self.factory.windowPublish[self.addr][response.msgId]\n            self.factory.windowPubRelease[self.addr].pop(response.msgId, None)\n            self._refillPublish(dup=False)")], {"C09": ["Q-WHO"]})
B("the PUBLISH itself is parked in the release window", ["C09"],
  [(PS, "            self.factory.windowPubRelease[self.addr][reply.msgId] = reply\n", "            self.factory.windowPubRelease[self.addr][reply.msgId] = reply\n            self.factory.windowPubRelease[self.addr][request.msgId] = request\n")], {"C09": ["Q-TYPES", "Q-WHO"]})
B("PUBREL sent from publish()", ["C09"],
  [(PS, "        self.factory.queuePublishTx[self.addr].append(request)\n", "        self.factory.queuePublishTx[self.addr].append(request)\n        rel = PUBREL()\n        rel.msgId = 1\n        self.transport.write(rel.encode())\n")], {"C09": ["Q-WHO"]})

B("IntervalLinear multiplier divided instead of multiplied", ["C08"], [(IV, "        self._k    *= self.factor", "        self._k    //= self.factor")], {"C08": ["R-GAP"]})
N("IntervalLinear multiplier written out", ["C08"], [(IV, "        self._k    *= self.factor", "        self._k     = self._k * self.factor")])
N("Interval (not used for PUBLISH) counting down to its initial value", ["C08"], [(IV, "        self._value = min(self._value, self.maxDelay)\n", "        self._value = min(self._value, self.maxDelay)\n        self._value = max(self.initial, self._value - 0)\n")])
# ---- found by the first-order mutation sweep (tools/mutsweep.py): survivors of the suite that no check reported at first
B("framer waits for a third byte", ["C03", "C15"], [(BASE, "                if len(self._buffer) < 2:\n                    break", "                if len(self._buffer) < 3:\n                    break")], {"C03": ["F5"], "C15": ["Q0"]})
N("framer minimum test written <= 1", ["C03", "C15", "C16"], [(BASE, "                if len(self._buffer) < 2:\n                    break", "                if len(self._buffer) <= 1:\n                    break")])
B("length-field scan steps by two", ["C03"], [(BASE, "                    if not self._buffer[lenLen] & 0x80:\n                        break\n                    lenLen += 1", "                    if not self._buffer[lenLen] & 0x80:\n                        break\n                    lenLen += 2")], {"C03": ["F3"]})
B("connect() drops its willRetain argument", ["C02"], [(BASE, "        request.willRetain  = willRetain\n", "")], {"C02": ["S3"]})
N("connect() argument dropped leaves the written stream well-formed", ["C18"], [(BASE, "        request.willRetain  = willRetain\n", "")])
B("ping deadline closes in an orderly way", ["C15"], [(BASE, "            self._pingReq.alarm = None\n            self.transport.abortConnection()", "            self._pingReq.alarm = None\n            self.transport.loseConnection()")], {"C15": ["Q2"]})
B("periodic call no longer writes the PINGREQ", ["C15"], [(BASE, "        self.transport.write(self._pingReq.pdu)\n", "")], {"C15": ["Q2"]})
B("decodeLength divides the digit by its weight", ["C01", "C02"], [(PDU, "        value += (i & 0x7F) * multiplier", "        value += (i & 0x7F) // multiplier")], {"C01": ["L1"], "C02": ["S9"]})
B("decodeLength weight never advanced", ["C01"], [(PDU, "        multiplier *= 0x80\n", "")], {"C01": ["L1"]})
B("PUBLISH decoder header skip steps backwards", ["C01", "C02", "C06"], [(PDU, "            lenLen += 1\n        packet_remaining = packet[lenLen+1:]\n        self.dup    = (packet[0] & 0x08) == 0x08", "            lenLen -= 1\n        packet_remaining = packet[lenLen+1:]\n        self.dup    = (packet[0] & 0x08) == 0x08")], {"C01": ["L1"], "C02": ["S9"], "C06": ["P7"]})
B("publish() encodes the request with dup set", ["C08"], [(PS, "        request.dup     = False\n", "        request.dup     = True\n")], {"C08": ["R-DUP"]})
B("window-share of the retry delay subtracted", ["C08"], [(PS, "        interval = request.interval() + 0.25*len(self.factory.windowSubscribe[self.addr])", "        interval = request.interval() - 0.25*len(self.factory.windowSubscribe[self.addr])")], {"C08": ["R-DELAY"]})
N("window-share of the retry delay written as a quarter", ["C08"], [(PS, "        interval = request.interval() + 0.25*len(self.factory.windowSubscribe[self.addr])", "        interval = request.interval() + len(self.factory.windowSubscribe[self.addr])/4.0")])
B("loss path cancels the PUBREL alarms without clearing them", ["C13", "C04", "C11", "C14"],
  [(PS, "        for _, request in self.factory.windowPubRelease[self.addr].items():\n            if request.alarm is not None:\n                request.alarm.cancel()\n                request.alarm = None\n", "        for _, request in self.factory.windowPubRelease[self.addr].items():\n            if request.alarm is not None:\n                request.alarm.cancel()\n")],
  {"C13": ["H-FIRED"], "C04": ["K3"], "C11": ["X-REACH"], "C14": ["M-LOSS-IDLE"]})
B("setBandwith drops its factor", ["C20"], [(PS, "        self._factor   = factor\n", "")], {"C20": ["G-STORE"]})
B("unsubscribe() no longer refuses a topic argument of the wrong type", ["C20"], [(PS, "            raise MQTTWindowError(\"unsubscription requests exceeded limit\", self._window)\n        if not isinstance(request.topics, list):\n            raise TopicTypeError(type(request.topics))", "            raise MQTTWindowError(\"unsubscription requests exceeded limit\", self._window)")], {"C20": ["G-TYPE"]})
B("purge deletes the entry before it looks it up", ["C11", "C12", "C13"],
  [(PS, "            request = self.factory.windowPubRelease[self.addr][k]\n            del self.factory.windowPubRelease[self.addr][k]\n", "            del self.factory.windowPubRelease[self.addr][k]\n            request = self.factory.windowPubRelease[self.addr][k]\n")], None)
B("SUBSCRIBE repeats never get DUP under 3.1", ["C08"], [(PS, "        if self._version == v31:\n            request.encoded[0] |=  (dup << 3)   # set the dup flag\n        interval = request.interval() + 0.25*len(self.factory.windowSubscribe[self.addr])", "        if False:\n            request.encoded[0] |=  (dup << 3)   # set the dup flag\n        interval = request.interval() + 0.25*len(self.factory.windowSubscribe[self.addr])")], {"C08": ["R-DUP"]})
B("onPublish called without testing that a handler is set", ["C16"], [(PS, "        if self.onPublish:\n            self.onPublish(", "        if True:\n            self.onPublish(")], {"C16": ["E3"]})
N("onPublish tested with is not None", ["C16", "C06"], [(PS, "        if self.onPublish:\n            self.onPublish(", "        if self.onPublish is not None:\n            self.onPublish(")])
B("setWindowSize refills the window in any state", ["C14", "C18"], [(BASE, "        self._window = min(n, self.MAX_WINDOW)\n", "        self._window = min(n, self.MAX_WINDOW)\n        if hasattr(self, '_refillPublish'):\n            self._refillPublish(dup=False)\n")], None)
B("refused CONNACK leaves the connect deadline armed", ["C16", "C04"], [(BASE, "        request.alarm.cancel()\n        if response.resultCode == 0:\n", "        if response.resultCode == 0:\n            request.alarm.cancel()\n")], {"C16": ["E3"], "C04": ["K2"]})
# ---------------------------------------------------------------- C10
B("popleft -> pop", ["C10"], [(PS, "            request = self.factory.queuePublishTx[cnx].popleft()", "            request = self.factory.queuePublishTx[cnx].pop()")], {"C10": ["W-FIFO"]})
B("refill guard <=", ["C10"], [(PS, "len(self.factory.windowPublish[cnx]) < self._window:", "len(self.factory.windowPublish[cnx]) <= self._window:")], {"C10": ["W-BOUND"]})
B("counted-loop refill (D11 re-introduced)", ["C10"],
  [(PS, "        while self.factory.queuePublishTx[cnx] and len(self.factory.windowPublish[cnx]) < self._window:",
    "        N = min(self._window - len(self.factory.windowPublish[cnx]), len(self.factory.queuePublishTx[cnx]))\n        for i in range(0,N):")], {"C10": ["W-BUDGET"]})
B("no refill after the clean-CONNACK purge (D21 re-introduced)", ["C10"],
  [(PS, "            self._purgeSession(MQTTSessionCleared())\n            # the purge freed window slots: send what publish() queued behind them\n            self._refillPublish(dup=False)\n", "            self._purgeSession(MQTTSessionCleared())\n")], {"C10": ["W-TRIGGER"]})
N("refill after either branch of mqttConnectionMade", ["C10", "C09", "C12", "C13"],
  [(PS, "            self._purgeSession(MQTTSessionCleared())\n            # the purge freed window slots: send what publish() queued behind them\n            self._refillPublish(dup=False)\n        else:\n            self._syncSession()\n", "            self._purgeSession(MQTTSessionCleared())\n        else:\n            self._syncSession()\n        self._refillPublish(dup=False)\n")])
N("refill at the end of the purge when called from the CONNACK", ["C10", "C12"],
  [(PS, "            self._purgeSession(MQTTSessionCleared())\n            # the purge freed window slots: send what publish() queued behind them\n            self._refillPublish(dup=False)\n", "            self._purgeSession(MQTTSessionCleared())\n            if self.factory.queuePublishTx[self.addr]:\n                self._refillPublish(dup=False)\n")])
B("handlePUBACK without refill", ["C10"],
  [(PS, "            del self.factory.windowPublish[self.addr][response.msgId]\n            self._refillPublish(dup=False)", "            del self.factory.windowPublish[self.addr][response.msgId]")], {"C10": ["W-TRIGGER"]})
B("appendleft in doPublish", ["C10"], [(PS, "        self.factory.queuePublishTx[self.addr].append(request)", "        self.factory.queuePublishTx[self.addr].appendleft(request)")], {"C10": ["W-FIFO"]})
B("doPublish rejecting on a full window", ["C10"],
  [(PS, "        if not ( 0<= request.qos < 3):\n            raise QoSValueError(\"publish()\",request.qos)", "        if not ( 0<= request.qos < 3):\n            raise QoSValueError(\"publish()\",request.qos)\n        if len(self.factory.windowPublish[self.addr]) >= self._window:\n            raise MQTTWindowError(\"publish\", self._window)")], {"C10": ["W-ACCEPT"]})
B("popped request sent twice", ["C10"],
  [(PS, "            self._retryPublish(request, dup)\n\n\n    def _retryPublish", "            self._retryPublish(request, dup)\n            self._retryPublish(request, dup)\n\n\n    def _retryPublish")], {"C10": ["W-ONCE"]})
B("window insertion outside the refill loop", ["C10"],
  [(PS, "        self.factory.queuePublishTx[self.addr].append(request)\n", "        self.factory.queuePublishTx[self.addr].append(request)\n        if request.msgId:\n            self.factory.windowPublish[self.addr][request.msgId] = request\n")], {"C10": ["W-BOUND"]})
B("refill without the window test", ["C10"],
  [(PS, "        while self.factory.queuePublishTx[cnx] and len(self.factory.windowPublish[cnx]) < self._window:", "        while self.factory.queuePublishTx[cnx]:")], {"C10": ["W-BOUND"]})
N("queue aliased to a local", ["C10"],
  [(PS, "        while self.factory.queuePublishTx[cnx] and len(self.factory.windowPublish[cnx]) < self._window:\n            request = self.factory.queuePublishTx[cnx].popleft()",
    "        queue = self.factory.queuePublishTx[cnx]\n        while queue and len(self.factory.windowPublish[cnx]) < self._window:\n            request = queue.popleft()")])
N("window test flipped", ["C10"],
  [(PS, "len(self.factory.windowPublish[cnx]) < self._window:", "self._window > len(self.factory.windowPublish[cnx]):")])

# ---------------------------------------------------------------- C13
B("handleSUBACK without cancel", ["C13"],
  [(PS, "            del self.factory.windowSubscribe[self.addr][response.msgId]\n            request.alarm.cancel()\n", "            del self.factory.windowSubscribe[self.addr][response.msgId]\n")], {"C13": ["R-CANCEL"]})
B("loss path without the publish cancel loop", ["C13"],
  [(PS, "        for _, request in self.factory.windowPublish[self.addr].items():\n            if request.alarm is not None:\n                request.alarm.cancel()\n                request.alarm = None\n        for _, request in self.factory.windowPubRelease", "        for _, request in self.factory.windowPubRelease")],
  {"C13": ["R-LOSS"]})
B("purge of every entry, pending ones included (D8 re-introduced)", ["C13", "C12"],
  [(PS, "            if request.alarm is not None:\n                # requested on this connection (before its CONNACK), it is not\n                # part of the session being purged\n                continue\n", "")],
  {"C13": ["R-CANCEL"], "C12": ["Y-EXEMPT"]})
B("resume of every entry, pending ones included (D9 re-introduced)", ["C13", "C12", "C09"],
  [(PS, "            if request.alarm is None:\n                self._retryPublish(request, dup=True)", "            self._retryPublish(request, dup=True)")],
  {"C13": ["R-ARM"], "C12": ["Y-EXEMPT"], "C09": ["Q-TIMER"]})
N("carried-over test written with `is not None` and else", ["C12", "C13", "C09", "C08"],
  [(PS, "            if request.alarm is None:\n                self._retryPublish(request, dup=True)", "            if request.alarm is not None:\n                pass\n            else:\n                self._retryPublish(request, dup=True)")])
B("connectionLost without timer.stop()", ["C13"],
  [(BASE, "            self._pingReq.timer.stop()\n", "")], {"C13": ["R-LOSS"]})
B("disconnect cancels the ping deadline and keeps the handle", ["C11", "C04", "C13", "C14"],
  [(BASE, "        self.transport.write(request.encode())\n        self.transport.loseConnection()\n", "        self.transport.write(request.encode())\n        if self._pingReq.alarm:\n            self._pingReq.alarm.cancel()\n        self.transport.loseConnection()\n")],
  {"C11": ["X-REACH"], "C04": ["K3"], "C13": ["H-FIRED"], "C14": ["M-LOSS-IDLE"]})
N("disconnect cancels and clears the ping deadline", ["C11", "C04", "C13", "C14"],
  [(BASE, "        self.transport.write(request.encode())\n        self.transport.loseConnection()\n", "        self.transport.write(request.encode())\n        if self._pingReq.alarm:\n            self._pingReq.alarm.cancel()\n            self._pingReq.alarm = None\n        self.transport.loseConnection()\n")])
B("doPingError keeps its fired handle (D13 re-introduced)", ["C13"],
  [(BASE, "            self._pingReq.alarm = None\n            self.transport.abortConnection()", "            self.transport.abortConnection()")], {"C13": ["H-FIRED"]})
B("keepalive loop started unconditionally", ["C13"],
  [(BASE, "            if request.keepalive != 0:\n                self._pingReq.keepalive = request.keepalive\n                self._pingReq.timer     = task.LoopingCall(self.ping)\n                self._pingReq.timer.start(request.keepalive)",
    "            if True:\n                self._pingReq.keepalive = request.keepalive\n                self._pingReq.timer     = task.LoopingCall(self.ping)\n                self._pingReq.timer.start(request.keepalive)")], {"C13": ["K-ZERO"]})
B("handlePUBCOMP without cancel", ["C13"],
  [(PS, "            reply.alarm.cancel()\n            reply.deferred.callback(reply.msgId)", "            reply.deferred.callback(reply.msgId)")], {"C13": ["R-CANCEL"]})
B("retry re-armed from the PUBACK handler of another request", ["C13"],
  [(PS, "            self._refillPublish(dup=False)\n\n    # --------------------------------------------------------------------------\n\n    def handlePUBREC",
    "            self._refillPublish(dup=False)\n            for _, other in self.factory.windowPublish[self.addr].items():\n                self._retryPublish(other, dup=True)\n\n    # --------------------------------------------------------------------------\n\n    def handlePUBREC")], {"C13": ["R-ARM"]})
N("None test written as truthiness", ["C13"],
  [(PS, "        for _, request in self.factory.windowSubscribe[self.addr].items():\n            if request.alarm is not None:\n                request.alarm.cancel()\n                request.alarm = None\n        for _, request in self.factory.windowUnsubscribe",
    "        for _, request in self.factory.windowSubscribe[self.addr].items():\n            if request.alarm:\n                request.alarm.cancel()\n                request.alarm = None\n        for _, request in self.factory.windowUnsubscribe")])
N("cancel before del in handleSUBACK", ["C13"],
  [(PS, "            del self.factory.windowSubscribe[self.addr][response.msgId]\n            request.alarm.cancel()\n", "            request.alarm.cancel()\n            del self.factory.windowSubscribe[self.addr][response.msgId]\n")])

# ---------------------------------------------------------------- C04
B("handleCONNACK without alarm.cancel()", ["C04"], [(BASE, "        request = self.connReq\n        request.alarm.cancel()\n", "        request = self.connReq\n")], {"C04": ["K2"]})
B("callback(response.resultCode)", ["C04"], [(BASE, "            request.deferred.callback(response.session)", "            request.deferred.callback(response.resultCode)")], {"C04": ["K2"]})
B("refusal branch without STATE(IDLE)", ["C04"], [(BASE, "        else:\n            self.state = self.IDLE\n            if response.resultCode", "        else:\n            if response.resultCode")], {"C04": ["K2"]})
B("unguarded table index (D1 re-introduced)", ["C04"],
  [(BASE, "            if response.resultCode < len(MQTT_CONNECT_CODES):\n                msg = MQTT_CONNECT_CODES[response.resultCode]\n            else:\n                msg = \"Connection Refused, reserved return code\"\n",
    "            msg = MQTT_CONNECT_CODES[response.resultCode]\n")], {"C04": ["K2"]})
B("off-by-one table guard", ["C04"], [(BASE, "            if response.resultCode < len(MQTT_CONNECT_CODES):", "            if response.resultCode <= len(MQTT_CONNECT_CODES):")], {"C04": ["K2"]})
B("doConnect writes twice", ["C04"], [(BASE, "        self.transport.write(pdu)\n        # Changes state", "        self.transport.write(pdu)\n        self.transport.write(pdu)\n        # Changes state")], {"C04": ["K1"]})
B("timeout delay constant", ["C04"], [(BASE, "        request.alarm = self.callLater(request.keepalive or 10, connectError)", "        request.alarm = self.callLater(10, connectError)")], {"C04": ["K1"]})
B("connectError without abortConnection", ["C04"], [(BASE, "            request.deferred = None\n            self.transport.abortConnection()            \n", "            request.deferred = None\n")], {"C04": ["K2"]})
B("connectionLost notifying before doConnectionLost", ["C04"],
  [(BASE, "        self.doConnectionLost(reason)\n        self.state = self.IDLE\n", "        if self.onDisconnection:\n            self.callLater(0.1, self.onDisconnection, reason)\n        self.doConnectionLost(reason)\n        self.state = self.IDLE\n"),
   (BASE, "        # which obviopusly it si not what we want.\n        if self.onDisconnection:\n            self.callLater(0.1, self.onDisconnection, reason)\n", "")], {"C04": ["K3"]})
B("connectionLost without STATE(IDLE)", ["C04"], [(BASE, "        self.doConnectionLost(reason)\n        self.state = self.IDLE\n", "        self.doConnectionLost(reason)\n")], {"C04": ["K3"]})
B("doPingError not clearing its handle (D13 re-introduced)", ["C04"],
  [(BASE, "            self._pingReq.alarm = None\n            self.transport.abortConnection()", "            self.transport.abortConnection()")], {"C04": ["K3"]})
B("notification without the reason", ["C04"], [(BASE, "            self.callLater(0.1, self.onDisconnection, reason)", "            self.callLater(0.1, self.onDisconnection)")], {"C04": ["K3"]})
B("accepted CONNACK fires errback", ["C04"], [(BASE, "            request.deferred.callback(response.session)", "            request.deferred.errback(response.session)")], {"C04": ["K2"]})
B("state set to CONNECTING before the write fails nothing", ["C04"],
  [(BASE, "        self.connReq = request  # keep track of this request until CONNACK or timeout\n", "")], {"C04": ["K1"]})
N("rc test written as `not rc`", ["C04"], [(BASE, "        if response.resultCode == 0:", "        if not response.resultCode:")])
N("_cleanStart/_version assignments reordered", ["C04"],
  [(BASE, "        self._cleanStart = request.cleanStart\n        self._version    = request.version\n", "        self._version    = request.version\n        self._cleanStart = request.cleanStart\n")])

# ---------------------------------------------------------------- C15
B("keepalive != 0 guard removed", ["C15"],
  [(BASE, "            if request.keepalive != 0:\n                self._pingReq.keepalive = request.keepalive", "            if True:\n                self._pingReq.keepalive = request.keepalive")], {"C15": ["Q1"]})
B("period keepalive * 2", ["C15"], [(BASE, "                self._pingReq.timer.start(request.keepalive)", "                self._pingReq.timer.start(request.keepalive * 2)")], {"C15": ["Q1"]})
B("deadline keepalive + 5", ["C15"], [(BASE, "        self._pingReq.alarm = self.callLater(self._pingReq.keepalive, doPingError)", "        self._pingReq.alarm = self.callLater(self._pingReq.keepalive + 5, doPingError)")], {"C15": ["Q2"]})
B("handlePINGRESP without cancel", ["C15"],
  [(BASE, "        if self._pingReq.alarm:\n            self._pingReq.alarm.cancel()\n            self._pingReq.alarm = None\n\n\n    # ---------------------------\n    # Protocol API for subclasses",
    "        self._pingReq.alarm = None\n\n\n    # ---------------------------\n    # Protocol API for subclasses")], {"C15": ["Q3"]})
B("unguarded cancel (D2 re-introduced)", ["C15"],
  [(BASE, "        if self._pingReq.alarm:\n            self._pingReq.alarm.cancel()\n            self._pingReq.alarm = None\n\n\n    # ---------------------------\n    # Protocol API for subclasses",
    "        self._pingReq.alarm.cancel()\n        self._pingReq.alarm = None\n\n\n    # ---------------------------\n    # Protocol API for subclasses")], {"C15": ["Q3"]})
B("doPingError without abort", ["C15"], [(BASE, "            self._pingReq.alarm = None\n            self.transport.abortConnection()", "            self._pingReq.alarm = None")], {"C15": ["Q2"]})
B("PINGREQ re-encoded with another object", ["C15"], [(BASE, "        self.transport.write(self._pingReq.pdu)", "        self.transport.write(PINGREQ().encode())")], {"C15": ["Q2"]})
B("keepalive loop restarted from connect()", ["C15"],
  [(BASE, "        self.connReq = request  # keep track of this request until CONNACK or timeout\n", "        self.connReq = request  # keep track of this request until CONNACK or timeout\n        if request.keepalive != 0:\n            self._pingReq.timer = task.LoopingCall(self.ping)\n            self._pingReq.timer.start(request.keepalive)\n")],
  {"C15": ["Q1"]})
B("connectionLost without cancelling the deadline", ["C15"],
  [(BASE, "        if self._pingReq.alarm:\n            self._pingReq.alarm.cancel()\n            self._pingReq.alarm = None\n        self.doConnectionLost(reason)", "        self.doConnectionLost(reason)")], {"C15": ["Q4"]})
B("PINGREQ written on disconnect", ["C15"], [(BASE, "        self.transport.write(request.encode())\n        self.transport.loseConnection()", "        self.transport.write(self._pingReq.pdu)\n        self.transport.write(request.encode())\n        self.transport.loseConnection()")], {"C15": ["Q5"]})
N("PINGRESP guard with `is not None`", ["C15"],
  [(BASE, "        if self._pingReq.alarm:\n            self._pingReq.alarm.cancel()\n            self._pingReq.alarm = None\n\n\n    # ---------------------------\n    # Protocol API for subclasses",
    "        if self._pingReq.alarm is not None:\n            self._pingReq.alarm.cancel()\n            self._pingReq.alarm = None\n\n\n    # ---------------------------\n    # Protocol API for subclasses")])

# ---------------------------------------------------------------- C11
B("clean branch skips windowUnsubscribe", ["C11"],
  [(PS, "            for k in list(self.factory.windowUnsubscribe[self.addr]):\n                request = self.factory.windowUnsubscribe[self.addr][k]\n                del self.factory.windowUnsubscribe[self.addr][k]\n                request.deferred.errback(reason)\n", ""),
   (PS, "        for window in (self.factory.windowSubscribe[self.addr], self.factory.windowUnsubscribe[self.addr]):", "        for window in (self.factory.windowSubscribe[self.addr],):")],
  {"C11": ["X-DRAIN"]})
B("errback(MQTTSessionCleared()) at loss", ["C11"], [(PS, "            self._purgeSession(reason)\n\n__all__", "            self._purgeSession(MQTTSessionCleared())\n\n__all__")], {"C11": ["X-REASON"]})
B("clean test negated", ["C11"], [(PS, "        # Then, invoke errbacks anyway if we do not persist state\n        if self._cleanStart:", "        # Then, invoke errbacks anyway if we do not persist state\n        if not self._cleanStart:")], {"C11": ["X-DRAIN"]})
B("queue drain removed (D10a re-introduced)", ["C11"],
  [(PS, "            queue = self.factory.queuePublishTx[self.addr]\n            while queue:\n                request = queue.popleft()\n                if not request.deferred.called:\n                    request.deferred.errback(reason)\n", "")], {"C11": ["X-DRAIN"]})
B("queue cleared without failing", ["C11"],
  [(PS, "            while queue:\n                request = queue.popleft()\n                if not request.deferred.called:\n                    request.deferred.errback(reason)\n", "            queue.clear()\n")], {"C11": ["X-DRAIN", "X-DROP"]})
B("purge fires without removing", ["C11"],
  [(PS, "            request = self.factory.windowPubRelease[self.addr][k]\n            del self.factory.windowPubRelease[self.addr][k]\n            request.deferred.errback(reason)", "            request = self.factory.windowPubRelease[self.addr][k]\n            request.deferred.errback(reason)")], {"C11": ["X-DRAIN", "X-FIRE"]})
N("drain loop over items of a copy", ["C11"],
  [(PS, "            for k in list(self.factory.windowSubscribe[self.addr]):\n                request = self.factory.windowSubscribe[self.addr][k]\n                del self.factory.windowSubscribe[self.addr][k]\n                request.deferred.errback(reason)",
    "            for k in tuple(self.factory.windowSubscribe[self.addr]):\n                req = self.factory.windowSubscribe[self.addr][k]\n                del self.factory.windowSubscribe[self.addr][k]\n                req.deferred.errback(reason)")])

# ---------------------------------------------------------------- C12
B("resume/purge branches swapped", ["C12"],
  [(PS, "        if self._cleanStart:\n            self._purgeSession(MQTTSessionCleared())\n", "        if not self._cleanStart:\n            self._purgeSession(MQTTSessionCleared())\n")],
  {"C12": ["Y-RESUME", "Y-PURGE"]})
B("resume over sorted(reverse=True)", ["C12"],
  [(PS, "        for _, request in self.factory.windowPublish[self.addr].items():\n            # only what an earlier connection left behind",
    "        for _, request in sorted(self.factory.windowPublish[self.addr].items(), reverse=True):\n            # only what an earlier connection left behind")], {"C12": ["Y-ORDER"]})
B("loss path fires regardless of session", ["C12"],
  [(PS, "        # Then, invoke errbacks anyway if we do not persist state\n        if self._cleanStart:", "        # Then, invoke errbacks anyway if we do not persist state\n        if True:")], {"C12": ["Y-KEEP"]})
B("resume skips the release window", ["C12"],
  [(PS, "        for _, reply in self.factory.windowPubRelease[self.addr].items():\n            self._retryRelease(reply, dup=True)\n", "")], {"C12": ["Y-RESUME"]})
B("purge with the wrong exception", ["C12"], [(PS, "            self._purgeSession(MQTTSessionCleared())\n            # the purge", "            self._purgeSession(ValueError())\n            # the purge")], {"C12": ["Y-PURGE"]})
B("publish refused while connecting", ["C12"],
  [(PS, "    # The standard allows publishing data without waiting for CONNACK\n    def publish(self, request):\n        return self.protocol.doPublish(request)\n\n# ---------------------------------\n# MQTT Client Connected State Class", "# ---------------------------------\n# MQTT Client Connected State Class"),
   (PUB, "    # The standard allows publishing data without waiting for CONNACK\n    def publish(self, request):\n        return self.protocol.doPublish(request)\n", "")], {"C12": ["Y-EARLY"]})
B("window re-sent from setBandwith", ["C12"],
  [(PS, "        self._bandwith = bandwith\n", "        self._bandwith = bandwith\n        for _, request in self.factory.windowPublish[self.addr].items():\n            self.transport.write(bytes(request.encoded))\n")], {"C12": ["Y-WHO"]})
N("resume loops over values()", ["C12"],
  [(PS, "        for _, reply in self.factory.windowPubRelease[self.addr].items():\n            self._retryRelease(reply, dup=True)", "        for reply in self.factory.windowPubRelease[self.addr].values():\n            self._retryRelease(reply, dup=True)")])

# ---------------------------------------------------------------- C18
B("doDisconnect without loseConnection", ["C18"], [(BASE, "        self.transport.write(request.encode())\n        self.transport.loseConnection()", "        self.transport.write(request.encode())")], {"C18": ["W3"]})
B("a CONNACK written by the client", ["C18"],
  [(BASE, "        self.transport.write(request.encode())\n        self.transport.loseConnection()", "        ack = CONNACK()\n        ack.session = 0\n        ack.resultCode = 0\n        self.transport.write(ack.encode())\n        self.transport.write(request.encode())\n        self.transport.loseConnection()")], {"C18": ["W1"]})
B("doConnect reachable from ConnectedState", ["C18"],
  [(BASE, "    def ping(self):\n        '''\n        Send a PINGREQ control packet.\n        '''\n        self.protocol.doPingRequest()", "    def connect(self, request):\n        return self.protocol.doConnect(request)\n\n    def ping(self):\n        '''\n        Send a PINGREQ control packet.\n        '''\n        self.protocol.doPingRequest()")], {"C18": ["W2"]})
B("write of a slice", ["C18"], [(BASE, "        self.transport.write(pdu)\n        # Changes state", "        self.transport.write(pdu[:2])\n        # Changes state")], {"C18": ["W1"]})
B("refusal branch without close (D18 re-introduced)", ["C18"],
  [(BASE, "            # the broker closes a refused connection; do not leave it open\n            # for a second CONNECT or for timers armed while connecting\n            self.transport.abortConnection()\n", "")], {"C18": ["W5"]})
B("DISCONNECT sent on timeout", ["C18"],
  [(BASE, "            request.deferred = None\n            self.transport.abortConnection()            \n", "            request.deferred = None\n            self.transport.write(DISCONNECT().encode())\n            self.transport.abortConnection()            \n")], {"C18": ["W3"]})
B("loss path writes a DISCONNECT", ["C18"], [(BASE, "        self.doConnectionLost(reason)\n        self.state = self.IDLE\n", "        self.doConnectionLost(reason)\n        self.transport.write(DISCONNECT().encode())\n        self.state = self.IDLE\n")], {"C18": ["W6", "W3"]})
B("two packets concatenated in one write", ["C18"], [(BASE, "        self.transport.write(self._pingReq.pdu)", "        self.transport.write(self._pingReq.pdu + self._pingReq.pdu)")], {"C18": ["W1"]})
N("write through a local alias", ["C18"], [(BASE, "        self.transport.write(request.encode())\n        self.transport.loseConnection()", "        data = request.encode()\n        self.transport.write(data)\n        self.transport.loseConnection()")])

# ---------------------------------------------------------------- C16
B("_handleSUBACK without try", ["C16"],
  [(BASE, "        response = SUBACK()\n        try:\n            response.decode(packet)\n        except Exception as e:\n            log.debug(\"Exception {excp!r}.\", excp=e)\n            log.error(\"MQTT SUBACK PDU corrupt. Closing connection !\")\n            self.transport.abortConnection()\n        else:\n            self.state.handleSUBACK(response)",
    "        response = SUBACK()\n        response.decode(packet)\n        self.state.handleSUBACK(response)")], {"C16": ["E1", "E3"]})
B("except ValueError only", ["C16"],
  [(BASE, "            response.decode(packet)\n        except Exception as e:\n            log.debug(\"Exception {excp!r}.\", excp=e)\n            log.error(\"MQTT UNSUBACK PDU corrupt. Closing connection !\")",
    "            response.decode(packet)\n        except ValueError as e:\n            log.debug(\"Exception {excp!r}.\", excp=e)\n            log.error(\"MQTT UNSUBACK PDU corrupt. Closing connection !\")")], {"C16": ["E1", "E3"]})
B("corrupt PUBACK handler without abort", ["C16"],
  [(BASE, "            log.error(\"MQTT PUBACK PDU corrupt. Closing connection !\")\n            self.transport.abortConnection()\n", "            log.error(\"MQTT PUBACK PDU corrupt. Closing connection !\")\n")], {"C16": ["E1"]})
B("packetTypes lookup unguarded", ["C16"],
  [(BASE, "        try:\n            packet_type      = (packet[0] & 0xF0) >> 4\n            packet_flags     = (packet[0] & 0x0F)\n            packet_type_name = self.packetTypes[packet_type]\n        except KeyError as e:\n            # Invalid packet type, throw away this packet\n            log.error(\"Invalid packet type %x\" % packet_type)\n            self.transport.abortConnection()\n            return\n",
    "        packet_type      = (packet[0] & 0xF0) >> 4\n        packet_type_name = self.packetTypes[packet_type]\n")], {"C16": ["E3", "E2"]})
B("a _handleCONNECT method added", ["C16"],
  [(BASE, "    def _handlePINGRESP(self, packet):", "    def _handleCONNECT(self, packet):\n        self.transport.write(packet)\n\n    def _handlePINGRESP(self, packet):")], {"C16": ["E2"]})
B("PUBCOMP.decode assigns msgId early (tolerated sibling becomes harmful)", ["C16"],
  [(PDU, "        packet_remaining = packet[lenLen+1:]\n        self.msgId   = decode16Int(packet_remaining)\n\n# ------------------------------------------------------------------------------\n\n__all__",
    "        packet_remaining = packet[lenLen+1:]\n        self.msgId   = packet[1]\n        self.msgId   = decode16Int(packet_remaining)\n\n# ------------------------------------------------------------------------------\n\n__all__")], {"C16": ["E1"]})
B("decodeString ignoring invalid UTF-8", ["C16"], [(PDU, "    return (encoded[2:2+length].decode('utf-8'), encoded[2+length:])", "    return (encoded[2:2+length].decode('utf-8', 'ignore'), encoded[2+length:])")], {"C16": ["E7"]})
N("decodeString with errors='strict' spelled out", ["C16", "C01", "C02", "C06"], [(PDU, "    return (encoded[2:2+length].decode('utf-8'), encoded[2+length:])", "    return (encoded[2:2+length].decode('utf-8', errors='strict'), encoded[2+length:])")])
N("decodeString ignoring invalid UTF-8 leaves the round trip alone", ["C01", "C02"], [(PDU, "    return (encoded[2:2+length].decode('utf-8'), encoded[2+length:])", "    return (encoded[2:2+length].decode('utf-8', 'ignore'), encoded[2+length:])")])
B("unguarded PINGRESP cancel (D2 re-introduced)", ["C16"],
  [(BASE, "        if self._pingReq.alarm:\n            self._pingReq.alarm.cancel()\n            self._pingReq.alarm = None\n\n\n    # ---------------------------\n    # Protocol API for subclasses",
    "        self._pingReq.alarm.cancel()\n        self._pingReq.alarm = None\n\n\n    # ---------------------------\n    # Protocol API for subclasses")], {"C16": ["E3"]})
B("unguarded table index (D1 re-introduced)", ["C16"],
  [(BASE, "            if response.resultCode < len(MQTT_CONNECT_CODES):\n                msg = MQTT_CONNECT_CODES[response.resultCode]\n            else:\n                msg = \"Connection Refused, reserved return code\"\n",
    "            msg = MQTT_CONNECT_CODES[response.resultCode]\n")], {"C16": ["E3"]})
B("ack handler without KeyError guard", ["C16"],
  [(PS, "        try:\n            reply = self.factory.windowPubRelease[self.addr][response.msgId]\n        except KeyError as e:\n            log.debug(\"<== {packet:7} (id={response.msgId:04x}) already handled\", packet=\"PUBCOMP\", response=response)\n        else: \n",
    "        reply = self.factory.windowPubRelease[self.addr][response.msgId]\n        if True:\n")], {"C16": ["E3"]})
B("timer callback with an unresolved call (D4 re-introduced)", ["C16"],
  [(PS, "        self._retryUnsubscribe(request,  dup=True)", "        self.reUnubscribe(request,  dup=True)")], {"C16": ["E3", "E4"]})
B("delivery on a corrupt PUBLISH", ["C16"],
  [(BASE, "            log.error(\"MQTT PUBLISH PDU corrupt. Closing connection !\")\n            self.transport.abortConnection()\n", "            log.error(\"MQTT PUBLISH PDU corrupt. Closing connection !\")\n            self.transport.abortConnection()\n            self.onPublish(None, None, 0, False, False, None)\n")], {"C16": ["E5"]})
N("except Exception without a name", ["C16"],
  [(BASE, "            response.decode(packet)\n        except Exception as e:\n            log.debug(\"Exception {excp!r}.\", excp=e)\n            log.error(\"MQTT SUBACK PDU corrupt. Closing connection !\")",
    "            response.decode(packet)\n        except Exception:\n            log.error(\"MQTT SUBACK PDU corrupt. Closing connection !\")")])
N("_handlePUBCOMP given its else:", ["C16"],
  [(BASE, "            log.error(\"MQTT PUBCOMP PDU corrupt. Closing connection !\")\n            self.transport.abortConnection()\n        self.state.handlePUBCOMP(response)", "            log.error(\"MQTT PUBCOMP PDU corrupt. Closing connection !\")\n            self.transport.abortConnection()\n        else:\n            self.state.handlePUBCOMP(response)")])

# ---------------------------------------------------------------- C17
B("allocator modulus 65537", ["C17"], [(FAC, "            self.id = (self.id + 1) % 65536", "            self.id = (self.id + 1) % 65537")], {"C17": ["ID-RANGE"]})
B("zero replacement removed", ["C17"], [(FAC, "            self.id = self.id or 1   # avoid id 0\n", "")], {"C17": ["ID-RANGE"]})
B("doSubscribe with a constant identifier", ["C17"], [(PS, "            self._checkSubscribe(request)\n            request.msgId = self.factory.makeId()", "            self._checkSubscribe(request)\n            request.msgId = 1")], {"C17": ["ID-SOURCE"]})
B("allocator ignores identifiers in use (D17 re-introduced)", ["C17"],
  [(FAC, "            if not self._idInUse(self.id):\n                return self.id\n", "            return self.id\n")], {"C17": ["ID-INUSE"]})
B("publish identifier from a local counter", ["C17"], [(PS, "            request.msgId    = self.factory.makeId()\n            request.deferred = defer.Deferred()", "            request.msgId    = len(self.factory.windowPublish[self.addr]) + 1\n            request.deferred = defer.Deferred()")], {"C17": ["ID-SOURCE"]})
N("allocator modulus 65535 with +1", ["C17"], [(FAC, "            self.id = (self.id + 1) % 65536\n            self.id = self.id or 1   # avoid id 0\n", "            self.id = (self.id % 65535) + 1\n")])
B("allocator does not look at the hold-back queue", ["C17"],
  [(FAC, "        for queue in self.queuePublishTx.values():\n            for request in queue:\n                if request.msgId == msgId:\n                    return True\n", "")], {"C17": ["ID-INUSE"]})

# ---------------------------------------------------------------- C03
B("consume [length + lenLen:]", ["C03"], [(BASE, "                self._buffer = self._buffer[length + lenLen + 1:]", "                self._buffer = self._buffer[length + lenLen:]")], {"C03": ["F2"]})
B("dispatch [:length + lenLen]", ["C03"], [(BASE, "                chunk = self._buffer[:length + lenLen + 1]", "                chunk = self._buffer[:length + lenLen]")], {"C03": ["F2", "F3"]})
B("complete test > instead of >=", ["C03"], [(BASE, "            if len(self._buffer) >= length + lenLen + 1:", "            if len(self._buffer) > length + lenLen + 1:")], {"C03": ["F2"]})
B("length = None deleted", ["C03"], [(BASE, "                self._buffer = self._buffer[length + lenLen + 1:]\n                length = None\n", "                self._buffer = self._buffer[length + lenLen + 1:]\n")], {"C03": ["F6"]})
B("framing loop runs once per chunk", ["C03"], [(BASE, "                self._buffer = self._buffer[length + lenLen + 1:]\n                length = None\n", "                self._buffer = self._buffer[length + lenLen + 1:]\n                length = None\n                break\n")], {"C03": ["F6"]})
B("carry reset after dispatch", ["C03"], [(BASE, "                self._buffer = self._buffer[length + lenLen + 1:]", "                self._buffer = bytearray()")], {"C03": ["F2"]})
B("width scan mask 0x40", ["C03"], [(BASE, "                    if not self._buffer[lenLen] & 0x80:\n                        break", "                    if not self._buffer[lenLen] & 0x40:\n                        break")], {"C03": ["F3"]})
B("_processPacket(chunk[1:])", ["C03"], [(BASE, "                self._processPacket(chunk)", "                self._processPacket(chunk[1:])")], {"C03": ["F2", "F7"]})
B("handler gets a truncated packet", ["C03"], [(BASE, "        if packetDecoder:\n            packetDecoder(packet)", "        if packetDecoder:\n            packetDecoder(packet[:-1])")], {"C03": ["F7"]})
B("carry dropped when a packet is incomplete", ["C03"], [(BASE, "            else:\n                break\n\n # ----", "            else:\n                self._buffer = bytearray()\n                break\n\n # ----")], {"C03": ["F4"]})
B("framer consults the keepalive state", ["C03"], [(BASE, "            if len(self._buffer) >= length + lenLen + 1:", "            if self._keepalive == 0 and len(self._buffer) >= length + lenLen + 1:")], {"C03": ["F1", "F2"]})
B("length decoded from byte 0", ["C03"], [(BASE, "                length = decodeLength(self._buffer[1:])", "                length = decodeLength(self._buffer[0:])")], {"C03": ["F3"]})
N("extent named once and reused", ["C03"],
  [(BASE, "            if len(self._buffer) >= length + lenLen + 1:\n                chunk = self._buffer[:length + lenLen + 1]\n                self._processPacket(chunk)\n                self._buffer = self._buffer[length + lenLen + 1:]",
    "            extent = length + lenLen + 1\n            if len(self._buffer) >= extent:\n                chunk = self._buffer[:extent]\n                self._processPacket(chunk)\n                self._buffer = self._buffer[extent:]")])
N("dead return removed", ["C03"],
  [(BASE, "                # We still haven't got all of the remaining length field\n                if lenLen < len(self._buffer) and self._buffer[lenLen] & 0x80:\n                    return\n", "")])

# ---------------------------------------------------------------- C01 / C02
B("encode16Int >> 7", ["C01"], [(PDU, "    encoded    = bytearray(2)\n    encoded[0] = value >> 8\n", "    encoded    = bytearray(2)\n    encoded[0] = value >> 7\n")], {"C01": ["L1"]})
B("decode16Int * 255", ["C01"], [(PDU, "    return encoded[0]*256 + encoded[1]", "    return encoded[0]*255 + encoded[1]")], {"C01": ["L1"]})
B("decodeLength & 0x3F", ["C01"], [(PDU, "        value += (i & 0x7F) * multiplier", "        value += (i & 0x3F) * multiplier")], {"C01": ["L1"]})
B("encodeLength without continuation bit", ["C01"], [(PDU, "        if value > 0:\n            digit |= 128\n", "")], {"C01": ["L1", "ANALYSIS-ERROR"]})
B("encodeLength continuation test value > 1", ["C01"], [(PDU, "        if value > 0:\n            digit |= 128", "        if value > 1:\n            digit |= 128")], {"C01": ["L1"]})
B("decodeLength overwrites instead of accumulating", ["C01"], [(PDU, "        value += (i & 0x7F) * multiplier", "        value = (i & 0x7F) * multiplier")], {"C01": ["L1"]})
B("encodeString prefix from len(string)", ["C01", "C02"], [(PDU, "    l = len(encoded)-2\n", "    l = len(string)\n")], {"C01": ["L5"], "C02": ["S5"]})
B("decodeString body slice off by one", ["C01"], [(PDU, "    return (encoded[2:2+length].decode('utf-8'), encoded[2+length:])", "    return (encoded[2:1+length].decode('utf-8'), encoded[2+length:])")], {"C01": ["L1"]})
B("decodeString little endian", ["C01"], [(PDU, "    length = encoded[0]*256 + encoded[1]\n    return (encoded[2:2+length]", "    length = encoded[1]*256 + encoded[0]\n    return (encoded[2:2+length]")], {"C01": ["L1"]})
B("password prefix from len(self.password) (D15 re-introduced)", ["C01", "C02"],
  [(PDU, "            password = bytearray(self.password, encoding='utf-8')\n            payload.extend(encode16Int(len(password)))\n            payload.extend(password)",
    "            payload.extend(encode16Int(len(self.password)))\n            payload.extend(bytearray(self.password, encoding='ascii', errors='ignore'))")], {"C01": ["L5"], "C02": ["S5"]})
B("PUBLISH.decode retain mask 0x02", ["C01"], [(PDU, "        self.retain = (packet[0] & 0x01) == 0x01", "        self.retain = (packet[0] & 0x02) == 0x02")], {"C01": ["L4"]})
B("PUBLISH.encode qos << 2", ["C01", "C02"], [(PDU, "            header[0] = 0x30 | self.retain | (self.qos << 1) | (self.dup << 3)", "            header[0] = 0x30 | self.retain | (self.qos << 2) | (self.dup << 3)")], {"C01": ["L4"], "C02": ["S1"]})
B("CONNECT.decode will topic/message swapped", ["C01"],
  [(PDU, "            self.willTopic,  packet_remaining  = decodeString(packet_remaining)\n            self.willMessage, packet_remaining = decodeString(packet_remaining)",
    "            self.willMessage,  packet_remaining  = decodeString(packet_remaining)\n            self.willTopic, packet_remaining = decodeString(packet_remaining)")], {"C01": ["L3"]})
B("CONNECT.decode: will-retain read by an unmasked shift, compared with 1", ["C01"], [(PDU, "        willRetain = (flags & 0x20) != 0", "        willRetain = (flags >> 5) == 0x01")], {"C01": ["L4"]})
B("CONNECT.decode: will-retain mask includes the password bit", ["C01"], [(PDU, "        willRetain = (flags & 0x20) != 0", "        willRetain = (flags & 0x60) != 0")], {"C01": ["L4"]})
B("CONNECT.decode: will QoS mask three bits wide", ["C01"], [(PDU, "        willQoS    = (flags >> 3) & 0x03", "        willQoS    = (flags >> 3) & 0x07")], {"C01": ["L4"]})
N("CONNECT.decode: will-retain read by shift and one-bit mask", ["C01", "C02", "C18"], [(PDU, "        willRetain = (flags & 0x20) != 0", "        willRetain = ((flags >> 5) & 0x01) == 0x01")])
N("CONNECT.decode: will-retain compared with its own mask", ["C01", "C02", "C18"], [(PDU, "        willRetain = (flags & 0x20) != 0", "        willRetain = (flags & 0x20) == 0x20")])
B("CONNECT.decode without willRetain", ["C01"], [(PDU, "            self.willRetain = willRetain\n", "")], {"C01": ["L2"]})
B("CONNECT.encode user/password flag masks swapped", ["C01", "C02"],
  [(PDU, "        if self.username is not None:\n            flags |= 0x80\n        if self.password is not None:\n            flags |= 0x40", "        if self.username is not None:\n            flags |= 0x40\n        if self.password is not None:\n            flags |= 0x80")],
  {"C01": ["L3"], "C02": ["S3"]})
B("SUBSCRIBE.encode iterating set(self.topics)", ["C01"], [(PDU, "        header[0] = 0x82        # packet with QoS=1\n        for topic in self.topics:", "        header[0] = 0x82        # packet with QoS=1\n        for topic in set(self.topics):")], {"C01": ["L6"]})
B("PUBLISH.decode payload offset ignores the identifier", ["C01"], [(PDU, "            self.payload =  packet_remaining[topicLen+4:]", "            self.payload =  packet_remaining[topicLen+2:]")], {"C01": ["L3"]})
B("SUBACK.decode failure mask 0x40", ["C01"], [(PDU, "        self.granted = [ (byte & 0x7F, byte & 0x80 == 0x80) ", "        self.granted = [ (byte & 0x7F, byte & 0x40 == 0x40) ")], {"C01": ["L4"]})
B("SUBSCRIBE.decode advances two bytes per QoS", ["C01"], [(PDU, "            self.topics.append((topic,qos))\n            packet_remaining = packet_remaining[1:]", "            self.topics.append((topic,qos))\n            packet_remaining = packet_remaining[2:]")], {"C01": ["L3"]})
B("CONNECT.decode keepalive read before the flags are skipped", ["C01"], [(PDU, "        packet_remaining = packet_remaining[2:]\n        self.keepalive = decode16Int(packet_remaining)", "        packet_remaining = packet_remaining[1:]\n        self.keepalive = decode16Int(packet_remaining)")], {"C01": ["L3"]})
B("CONNACK.decode session bit 0x02", ["C01"], [(PDU, "        self.session = (packet_remaining[0] & 0x01) == 0x01 ", "        self.session = (packet_remaining[0] & 0x02) == 0x02 ")], {"C01": ["L4", "L3"]})
B("decoder header skip with mask 0x40", ["C01"], [(PDU, "        self.encoded = packet\n        lenLen = 1\n        while packet[lenLen] & 0x80:\n            lenLen += 1\n        packet_remaining = packet[lenLen+1:]\n        self.msgId   = decode16Int(packet_remaining)\n\n# ------------------------------------------------------------------------------\n\n__all__",
                                                "        self.encoded = packet\n        lenLen = 1\n        while packet[lenLen] & 0x40:\n            lenLen += 1\n        packet_remaining = packet[lenLen+1:]\n        self.msgId   = decode16Int(packet_remaining)\n\n# ------------------------------------------------------------------------------\n\n__all__")], {"C01": ["L1"]})
N("SUBSCRIBE decode loop written with > 0", ["C01"], [(PDU, "        packet_remaining = packet_remaining[2:]\n        while len(packet_remaining):\n            topic, packet_remaining = decodeString(packet_remaining)\n            qos =", "        packet_remaining = packet_remaining[2:]\n        while len(packet_remaining) > 0:\n            topic, packet_remaining = decodeString(packet_remaining)\n            qos =")])
B("SUBSCRIBE decode loop stops with a short entry left", ["C01"], [(PDU, "        packet_remaining = packet_remaining[2:]\n        while len(packet_remaining):\n            topic, packet_remaining = decodeString(packet_remaining)\n            qos =", "        packet_remaining = packet_remaining[2:]\n        while len(packet_remaining) >= 4:\n            topic, packet_remaining = decodeString(packet_remaining)\n            qos =")], {"C01": ["L3"]})
N("0x80 written as 128 in decodeLength", ["C01", "C02"], [(PDU, "        multiplier *= 0x80\n        if (i & 0x80) != 0x80:", "        multiplier *= 128\n        if (i & 128) != 128:")])
N("encode16Int via divmod", ["C01", "C02"], [(PDU, "    encoded    = bytearray(2)\n    encoded[0] = value >> 8\n    encoded[1] = value & 0xFF\n    return encoded\n\ndef decode16Int", "    encoded    = bytearray(2)\n    hi, lo = divmod(value, 256)\n    encoded[0] = hi\n    encoded[1] = lo\n    return encoded\n\ndef decode16Int")])
N("PUBLISH.encode topic hoisted out of the if", ["C01", "C02"],
  [(PDU, "        if self.qos:\n            header[0] = 0x30 | self.retain | (self.qos << 1) | (self.dup << 3)\n            varHeader.extend(encodeString(self.topic)) # topic name\n            varHeader.extend(encode16Int(self.msgId))  # msgId should not be None\n        else:\n            header[0] = 0x30 | self.retain\n            varHeader.extend(encodeString(self.topic)) # topic name\n",
    "        varHeader.extend(encodeString(self.topic)) # topic name\n        if self.qos:\n            header[0] = 0x30 | self.retain | (self.qos << 1) | (self.dup << 3)\n            varHeader.extend(encode16Int(self.msgId))  # msgId should not be None\n        else:\n            header[0] = 0x30 | self.retain\n")])
N("retain test written with bool()", ["C01", "C02"], [(PDU, "        self.retain = (packet[0] & 0x01) == 0x01", "        self.retain = (packet[0] & 0x01) != 0")])
N("decoder local renamed", ["C01", "C02"], [(PDU, "        self.topic, _  = decodeString(packet_remaining)\n        topicLen       = decode16Int(packet_remaining)\n        if self.qos:\n            self.msgId = decode16Int( packet_remaining[topicLen+2:topicLen+4] )\n            self.payload =  packet_remaining[topicLen+4:]\n        else:\n            self.msgId = None\n            self.payload = packet_remaining[topicLen+2:] # payload is a bytearray",
    "        self.topic, _  = decodeString(packet_remaining)\n        tl       = decode16Int(packet_remaining)\n        if self.qos:\n            self.msgId = decode16Int( packet_remaining[tl+2:tl+4] )\n            self.payload =  packet_remaining[tl+4:]\n        else:\n            self.msgId = None\n            self.payload = packet_remaining[tl+2:] # payload is a bytearray")])
B("SUBSCRIBE.encode header 0x80", ["C02"], [(PDU, "        header[0] = 0x82        # packet with QoS=1\n        for topic in self.topics:\n            payload.extend(encodeString(topic[0]))", "        header[0] = 0x80        # packet with QoS=1\n        for topic in self.topics:\n            payload.extend(encodeString(topic[0]))")], {"C02": ["S1"]})
B("PUBCOMP.encode 0x72 (D7 re-introduced)", ["C02"], [(PDU, "        header[0] = 0x70 ", "        header[0] = 0x72 ")], {"C02": ["S1"]})
B("UNSUBACK remaining length off by one", ["C02"],
  [(PDU, "        header[0] = 0xB0 \n        header.extend(encodeLength(len(varHeader)))", "        header[0] = 0xB0 \n        header.extend(encodeLength(len(varHeader)+1))")], {"C02": ["S2"]})
B("CONNECT remaining length without the payload", ["C02"],
  [(PDU, "        # ---- Build the packet once all lengths are known ----\n        header.extend(encodeLength(len(varHeader) + len(payload)))", "        # ---- Build the packet once all lengths are known ----\n        header.extend(encodeLength(len(varHeader)))")], {"C02": ["S2"]})
B("string limit 65536", ["C02"], [(PDU, "    if(l > 65535):", "    if(l > 65536):")], {"C02": ["S7"]})
B("StringValueError no longer a ValueError", ["C02"], [("src/mqtt/error.py", "class StringValueError(ValueError):", "class StringValueError(Exception):")], {"C02": ["S7"]})
B("v311 level 5", ["C02"], [("src/mqtt/__init__.py", "v311 = {'level': 4, 'tag': 'MQTT'}", "v311 = {'level': 5, 'tag': 'MQTT'}")], {"C02": ["S4"]})
B("_retryPublish dup << 2 on the stored packet", ["C02"], [(PS, "        request.encoded[0] |=  (dup << 3)   # set the dup flag\n        request.dup = dup", "        request.encoded[0] |=  (dup << 2)   # set the dup flag\n        request.dup = dup")], {"C02": ["S6"]})
B("CONNECT will QoS at bit 4", ["C02"], [(PDU, "            flags |= 0x04 | (self.willRetain << 5) | (self.willQoS << 3)", "            flags |= 0x04 | (self.willRetain << 5) | (self.willQoS << 4)")], {"C02": ["S3"]})
B("CONNECT keepalive before the flags", ["C02"],
  [(PDU, "        varHeader.append(flags)\n        varHeader.extend(encode16Int(self.keepalive))", "        varHeader.extend(encode16Int(self.keepalive))\n        varHeader.append(flags)")], {"C02": ["S3"]})
B("PUBLISH identifier written for every QoS", ["C02"],
  [(PDU, "            header[0] = 0x30 | self.retain\n            varHeader.extend(encodeString(self.topic)) # topic name\n", "            header[0] = 0x30 | self.retain\n            varHeader.extend(encodeString(self.topic)) # topic name\n            varHeader.extend(encode16Int(0))\n")], {"C02": ["S3"]})
B("payload size guard 268435456", ["C02"], [(PDU, "        if totalLen > 268435455:", "        if totalLen > 268435456:")], {"C02": ["S7"]})
B("PayloadTypeError no longer a TypeError", ["C02"], [("src/mqtt/error.py", "class PayloadTypeError(TypeError):", "class PayloadTypeError(Exception):")], {"C02": ["S7"]})
B("DISCONNECT with a body byte", ["C02"], [(PDU, "        header    = bytearray(2)\n        header[0] = 0xE0", "        header    = bytearray(3)\n        header[0] = 0xE0")], {"C02": ["S2"]})
B("payload extended after the length was taken", ["C02"],
  [(PDU, "        header.extend(encodeLength(totalLen))\n        header.extend(varHeader)", "        payload.append(0)\n        header.extend(encodeLength(totalLen))\n        header.extend(varHeader)")], {"C02": ["S2"]})

# ---------------------------------------------------------------- C08 interval lower bound
B("Interval jitter subtracted", ["C08"], [(IV, "        self._value = min(self._value, self.maxDelay)\n        return self._value + random.random()", "        self._value = min(self._value, self.maxDelay)\n        return self._value - random.random()")], {"C08": ["R-GAP"]})
B("Interval default factor 0.5", ["C08"], [(IV, "    def __init__(self, initial=2, maxDelay=1024, factor=2):", "    def __init__(self, initial=2, maxDelay=1024, factor=0.5):")], {"C08": ["R-GAP"]})
B("Interval maxDelay may undercut initial", ["C08"], [(IV, "        self.maxDelay = max(initial, maxDelay)", "        self.maxDelay = maxDelay")], {"C08": ["R-GAP"]})
B("IntervalLinear drops the initial term", ["C08"], [(IV, "        self._value = self.initial + (self._k*size)/self.bandwith", "        self._value = (self._k*size)/self.bandwith")], {"C08": ["R-GAP"]})
B("PUBREL interval built from a constant", ["C08"], [(PS, "            reply.interval = Interval(initial=self._initialT)", "            reply.interval = Interval(initial=1)")], {"C08": ["R-GAP", "R-DELAY"]})
N("IntervalLinear written with a local", ["C08"], [(IV, "        self._value = self.initial + (self._k*size)/self.bandwith", "        extra = (self._k*size)/self.bandwith\n        self._value = self.initial + extra")])

# ---------------------------------------------------------------- neutral refactors checked against EVERY property
ALL = ["C%02d" % i for i in range(1, 21)]


def rename_everywhere(old, new):
    """A pseudo-edit: replace an identifier in every file it occurs in (applied by selftest as a special edit)."""
    return ("*", old, new)


N("helper _retryPublish renamed", ALL, [rename_everywhere("_retryPublish", "_transmitPublish")])
N("helper _purgeSession renamed", ALL, [rename_everywhere("_purgeSession", "_dropSession")])
N("helper _accumulatePacket and _processPacket renamed", ALL, [rename_everywhere("_accumulatePacket", "_frame"), rename_everywhere("_processPacket", "_dispatch")])
N("factory aliased to a local in handlePUBACK", ALL,
  [(PS, "        try:\n             request = self.factory.windowPublish[self.addr][response.msgId]\n        except KeyError as e:",
    "        factory = self.factory\n        try:\n             request = factory.windowPublish[self.addr][response.msgId]\n        except KeyError as e:")])
N("loss loops over values()", ALL,
  [(PS, "        for _, request in self.factory.windowPublish[self.addr].items():\n            if request.alarm is not None:\n                request.alarm.cancel()\n                request.alarm = None\n        for _, request in self.factory.windowPubRelease",
    "        for request in self.factory.windowPublish[self.addr].values():\n            if request.alarm is not None:\n                request.alarm.cancel()\n                request.alarm = None\n        for _, request in self.factory.windowPubRelease")])
N("settling of a PUBACK extracted into a helper", ALL,
  [(PS, "            request.alarm.cancel()\n            request.deferred.callback(request.msgId)\n            del self.factory.windowPublish[self.addr][response.msgId]\n            self._refillPublish(dup=False)",
    "            self._settlePublish(request, response.msgId)\n            self._refillPublish(dup=False)"),
   (PS, "    def handlePUBREC(self, response):\n        '''\n        Handle PUBREC control packet received (QoS=2).\n        '''",
    "    def _settlePublish(self, request, msgId):\n        request.alarm.cancel()\n        request.deferred.callback(request.msgId)\n        del self.factory.windowPublish[self.addr][msgId]\n\n    def handlePUBREC(self, response):\n        '''\n        Handle PUBREC control packet received (QoS=2).\n        '''")])
N("extra debug logging in the hot paths", ALL,
  [(BASE, "        self.transport.write(pdu)\n        # Changes state", "        log.debug(\"writing {n} bytes\", n=len(pdu))\n        self.transport.write(pdu)\n        # Changes state"),
   (PS, "        self.factory.queuePublishTx[self.addr].append(request)\n", "        log.debug(\"queued\")\n        self.factory.queuePublishTx[self.addr].append(request)\n")])
N("doPublish computes the interval before the identifier", ALL,
  [(PS, "            request.msgId    = self.factory.makeId()\n            request.deferred = defer.Deferred()\n            request.interval = IntervalLinear(initial=self._initialT, \n                                              bandwith=self._bandwith, \n                                              factor=self._factor)\n",
    "            request.interval = IntervalLinear(initial=self._initialT, \n                                              bandwith=self._bandwith, \n                                              factor=self._factor)\n            request.msgId    = self.factory.makeId()\n            request.deferred = defer.Deferred()\n")])
N("CONNACK refusal message looked up with a conditional expression", ALL,
  [(BASE, "            if response.resultCode < len(MQTT_CONNECT_CODES):\n                msg = MQTT_CONNECT_CODES[response.resultCode]\n            else:\n                msg = \"Connection Refused, reserved return code\"\n",
    "            msg = MQTT_CONNECT_CODES[response.resultCode] if response.resultCode < len(MQTT_CONNECT_CODES) else \"Connection Refused, reserved return code\"\n")])
N("pdu masks written in decimal", ALL,
  [(PDU, "        self.dup    = (packet[0] & 0x08) == 0x08\n        self.qos    = (packet[0] & 0x06) >> 1", "        self.dup    = (packet[0] & 8) == 8\n        self.qos    = (packet[0] >> 1) & 3")])

B("session mode recorded only at CONNACK", ["C11", "C12"],
  [(BASE, "        self._cleanStart = request.cleanStart\n        self._version    = request.version\n", "        self._version    = request.version\n"),
   (BASE, "            self.state = self.CONNECTED\n            self.mqttConnectionMade()", "            self.state = self.CONNECTED\n            self._cleanStart = request.cleanStart\n            self.mqttConnectionMade()")],
  {"C11": ["X-MODE"], "C12": ["Y-MODE"]})
N("session mode re-recorded at CONNACK as well", ALL,
  [(BASE, "            self.state = self.CONNECTED\n            self.mqttConnectionMade()", "            self.state = self.CONNECTED\n            self._cleanStart = request.cleanStart\n            self.mqttConnectionMade()")])
B("clean-loss queue drain stops at the first already-fired entry", ["C11"],
  [(PS, "            while queue:\n                request = queue.popleft()\n                if not request.deferred.called:\n                    request.deferred.errback(reason)", "            while queue and not queue[0].deferred.called:\n                request = queue.popleft()\n                request.deferred.errback(reason)")],
  {"C11": ["X-DRAIN"]})

# ---------------------------------------------------------------- variants learnt from the seeded changes of the sub-agents
B("PUBLISH.decode locates fields with len(self.topic)", ["C01", "C02"], [(PDU, "        topicLen       = decode16Int(packet_remaining)", "        topicLen       = len(self.topic)")], {"C01": ["L5"], "C02": ["S5"]})
B("decodeLength guard placed after the multiply", ["C01"], [(PDU, "        multiplier *= 0x80\n        if (i & 0x80) != 0x80:", "        multiplier *= 0x80\n        if multiplier > 0x80*0x80*0x80:\n            raise ValueError(\"Malformed Remaining Length\")\n        if (i & 0x80) != 0x80:")], {"C01": ["L1"]})
N("decodeLength guard placed correctly", ["C01", "C02", "C03", "C17", "C19"], [(PDU, "        multiplier *= 0x80\n        if (i & 0x80) != 0x80:", "        multiplier *= 0x80\n        if multiplier > 0x80*0x80*0x80*0x80:\n            raise ValueError(\"Malformed Remaining Length\")\n        if (i & 0x80) != 0x80:")])
B("PUBREL DUP patch without the 3.1 test", ["C02", "C08"], [(PS, "        if self._version == v31:\n            reply.encoded[0] |=  (dup << 3)   # set the dup flag\n            reply.dup = dup", "        reply.encoded[0] |=  (dup << 3)   # set the dup flag\n        reply.dup = dup")], {"C02": ["S6"], "C08": ["R-DUP"]})
B("CONNACK timeout closure returns early when not CONNECTING", ["C04"], [(BASE, "        def connectError():\n            request.deferred.errback", "        def connectError():\n            if self.state is not self.CONNECTING:\n                return\n            request.deferred.errback")], {"C04": ["K2"]})
B("allocator forgets the release window", ["C09", "C17"], [(FAC, "        for windows in (self.windowPublish, self.windowPubRelease,", "        for windows in (self.windowPublish, self.windowPubRx,")], {"C09": ["Q-ID"], "C17": ["ID-INUSE"]})
B("refused CONNACK does not return to IDLE", ["C14", "C04"], [(BASE, "        else:\n            self.state = self.IDLE\n            if response.resultCode", "        else:\n            if response.resultCode")], {"C14": ["M-REFUSED"], "C04": ["K2"]})
B("doPingRequest cancels the previous deadline", ["C15"], [(BASE, "        self._pingReq.alarm = self.callLater(self._pingReq.keepalive, doPingError)", "        if self._pingReq.alarm:\n            self._pingReq.alarm.cancel()\n        self._pingReq.alarm = self.callLater(self._pingReq.keepalive, doPingError)")], {"C15": ["Q6"]})
B("QoS 3 PUBLISH treated as QoS 2", ["C16", "C06"], [(PS, "        elif response.qos == 2:\n", "        else:\n")], {"C16": ["E5"], "C06": ["P1"]})
B("in-use test by membership on the hold-back queue", ["C17"],
  [(FAC, "        for queue in self.queuePublishTx.values():\n            for request in queue:\n                if request.msgId == msgId:\n                    return True\n", "        for queue in self.queuePublishTx.values():\n            if msgId in queue:\n                return True\n")], {"C17": ["ID-INUSE"]})
B("loss path cancels the alarms of every address", ["C19"],
  [(PS, "        for _, request in self.factory.windowSubscribe[self.addr].items():\n            if request.alarm is not None:\n                request.alarm.cancel()\n                request.alarm = None\n        for _, request in self.factory.windowUnsubscribe",
    "        for window in self.factory.windowSubscribe.values():\n            for request in window.values():\n                if request.alarm is not None:\n                    request.alarm.cancel()\n                    request.alarm = None\n        for _, request in self.factory.windowUnsubscribe")], {"C19": ["I-KEY", "I-WHOLE"]})
B("receive window cleared on every loss", ["C06"], [(PS, "            self._purgeSession(reason)\n\n__all__", "            self._purgeSession(reason)\n        self.factory.windowPubRx[self.addr].clear()\n\n__all__")], {"C06": ["P6"]})
B("QoS 0 Deferred fired when the packet is written", ["C05"],
  [(PS, "            request.deferred = defer.succeed(None)", "            request.deferred = defer.Deferred()"),
   (PS, "            self._retryPublish(request, dup)\n\n\n    def _retryPublish", "            self._retryPublish(request, dup)\n            if request.qos == 0:\n                request.deferred.callback(None)\n\n\n    def _retryPublish")], {"C05": ["R-DROP", "R-WHO-FIRE", "R-FIRE"]})
B("QoS 0 fast path bypasses the queue", ["C10"],
  [(PS, "        self.factory.queuePublishTx[self.addr].append(request)\n        request.deferred.msgId = request.msgId\n        self._refillPublish(dup=False)",
    "        request.deferred.msgId = request.msgId\n        if request.qos == 0 and not self.factory.windowPublish[self.addr]:\n            self._retryPublish(request, False)\n            return request.deferred\n        self.factory.queuePublishTx[self.addr].append(request)\n        self._refillPublish(dup=False)")], {"C10": ["W-FIFO", "W-TRIGGER", "W-ONCE", "W-BOUND"]})
B("retry re-encodes when the DUP flag flips", ["C08"],
  [(PS, "        request.encoded[0] |=  (dup << 3)   # set the dup flag\n        request.dup = dup\n", "        if request.dup != dup:\n            request.dup = dup\n            request.encode()\n")], {"C08": ["R-SAME", "R-DUP"]})

_OLD_FRAMER = "    def _accumulatePacket(self, data):\n        self._buffer.extend(data)\n\n        length = None\n\n        while len(self._buffer):\n            if length is None:\n                # Start on a new packet\n\n                # Haven't got enough data to start a new packet,\n                # wait for some more\n                if len(self._buffer) < 2:\n                    break\n\n                lenLen = 1\n                # Calculate the length of the length field\n                while lenLen < len(self._buffer):\n                    if not self._buffer[lenLen] & 0x80:\n                        break\n                    lenLen += 1\n\n                # We still haven't got all of the remaining length field\n                if lenLen < len(self._buffer) and self._buffer[lenLen] & 0x80:\n                    return\n\n                length = decodeLength(self._buffer[1:])\n\n            if len(self._buffer) >= length + lenLen + 1:\n                chunk = self._buffer[:length + lenLen + 1]\n                self._processPacket(chunk)\n                self._buffer = self._buffer[length + lenLen + 1:]\n                length = None\n\n            else:\n                break\n\n"
_NEW_FRAMER = "    def _accumulatePacket(self, data):\n        self._buffer.extend(data)\n\n        offset = 0\n        size   = len(self._buffer)\n\n        # Haven't got enough data to start a new packet,\n        # wait for some more\n        while size - offset >= 2:\n            # Start on a new packet\n\n            lenLen = 1\n            # Calculate the length of the length field\n            while offset + lenLen < size:\n                if not self._buffer[offset + lenLen] & 0x80:\n                    break\n                lenLen += 1\n\n            # We still haven't got all of the remaining length field\n            if offset + lenLen == size:\n                EXIT\n\n            length = decodeLength(self._buffer[offset + 1:offset + lenLen + 1])\n            end    = offset + length + lenLen + 1\n\n            if end > size:\n                break\n\n            self._processPacket(self._buffer[offset:end])\n            offset = end\n\n        # Drop what has been processed, keep the incomplete packet (if any)\n        del self._buffer[:offset]\n\n"
N("framer rewritten with a local offset and one trim (correct)", ALL, [(BASE, _OLD_FRAMER, _NEW_FRAMER.replace("EXIT", "break"))])
B("offset-based framer whose early return skips the trim", ["C03"], [(BASE, _OLD_FRAMER, _NEW_FRAMER.replace("EXIT", "return"))], {"C03": ["F4"]})
B("offset-based framer that forgets to advance the offset", ["C03"], [(BASE, _OLD_FRAMER, _NEW_FRAMER.replace("EXIT", "break").replace("            offset = end\n", ""))], {"C03": ["F2"]})
B("offset-based framer trimming one byte too many", ["C03"], [(BASE, _OLD_FRAMER, _NEW_FRAMER.replace("EXIT", "break").replace("del self._buffer[:offset]", "del self._buffer[:offset + 1]"))], {"C03": ["F2"]})

# ---------------------------------------------------------------- more neutral refactors, checked against every property
N("handlePUBACK with early return instead of try/else", ALL,
  [(PS, "        try:\n             request = self.factory.windowPublish[self.addr][response.msgId]\n        except KeyError as e:\n            log.debug(\"<== {packet:7} (id={response.msgId:04x}) already handled\", packet=\"PUBACK\", response=response)\n        else:\n            log.debug(\"<== {packet:7} (id={response.msgId:04x})\", packet=\"PUBACK\", response=response)\n            request.alarm.cancel()\n            request.deferred.callback(request.msgId)\n            del self.factory.windowPublish[self.addr][response.msgId]\n            self._refillPublish(dup=False)",
    "        try:\n             request = self.factory.windowPublish[self.addr][response.msgId]\n        except KeyError as e:\n            log.debug(\"<== {packet:7} (id={response.msgId:04x}) already handled\", packet=\"PUBACK\", response=response)\n            return\n        log.debug(\"<== {packet:7} (id={response.msgId:04x})\", packet=\"PUBACK\", response=response)\n        request.alarm.cancel()\n        request.deferred.callback(request.msgId)\n        del self.factory.windowPublish[self.addr][response.msgId]\n        self._refillPublish(dup=False)")])
N("loss cancel loops folded into one generic loop (all four windows)", ALL,
  [(PS, "        for _, request in self.factory.windowSubscribe[self.addr].items():\n            if request.alarm is not None:\n                request.alarm.cancel()\n                request.alarm = None\n        for _, request in self.factory.windowUnsubscribe[self.addr].items():\n            if request.alarm is not None:\n                request.alarm.cancel()\n                request.alarm = None\n        for _, request in self.factory.windowPublish[self.addr].items():\n            if request.alarm is not None:\n                request.alarm.cancel()\n                request.alarm = None\n        for _, request in self.factory.windowPubRelease[self.addr].items():\n            if request.alarm is not None:\n                request.alarm.cancel()\n                request.alarm = None\n",
    "        for window in (self.factory.windowSubscribe[self.addr], self.factory.windowUnsubscribe[self.addr],\n                       self.factory.windowPublish[self.addr], self.factory.windowPubRelease[self.addr]):\n            for request in window.values():\n                if request.alarm is not None:\n                    request.alarm.cancel()\n                    request.alarm = None\n")])
N("loss cancel loops folded into one loop over the registries, keyed inside", ALL,
  [(PS, "        for _, request in self.factory.windowSubscribe[self.addr].items():\n            if request.alarm is not None:\n                request.alarm.cancel()\n                request.alarm = None\n        for _, request in self.factory.windowUnsubscribe[self.addr].items():\n            if request.alarm is not None:\n                request.alarm.cancel()\n                request.alarm = None\n        for _, request in self.factory.windowPublish[self.addr].items():\n            if request.alarm is not None:\n                request.alarm.cancel()\n                request.alarm = None\n        for _, request in self.factory.windowPubRelease[self.addr].items():\n            if request.alarm is not None:\n                request.alarm.cancel()\n                request.alarm = None\n",
    "        for windows in (self.factory.windowSubscribe, self.factory.windowUnsubscribe,\n                        self.factory.windowPublish,   self.factory.windowPubRelease):\n            for request in windows[self.addr].values():\n                if request.alarm is None:\n                    continue\n                request.alarm.cancel()\n                request.alarm = None\n")])
B("loss cancel loop stops at the first entry without alarm (seeded C12-c)", ["C12", "C13", "C18"],
  [(PS, "        for _, request in self.factory.windowSubscribe[self.addr].items():\n            if request.alarm is not None:\n                request.alarm.cancel()\n                request.alarm = None\n        for _, request in self.factory.windowUnsubscribe[self.addr].items():\n            if request.alarm is not None:\n                request.alarm.cancel()\n                request.alarm = None\n        for _, request in self.factory.windowPublish[self.addr].items():\n            if request.alarm is not None:\n                request.alarm.cancel()\n                request.alarm = None\n        for _, request in self.factory.windowPubRelease[self.addr].items():\n            if request.alarm is not None:\n                request.alarm.cancel()\n                request.alarm = None\n",
    "        for windows in (self.factory.windowSubscribe, self.factory.windowUnsubscribe,\n                        self.factory.windowPublish,   self.factory.windowPubRelease):\n            for request in windows[self.addr].values():\n                if request.alarm is None:\n                    break\n                request.alarm.cancel()\n                request.alarm = None\n")],
  expect={"C12": ["Y-CARRY"], "C13": ["R-CANCEL"], "C18": ["W7"]})
B("in-use scan skips the hold-back queue of an address whose publish window is empty (seeded C17-c)", ["C17"],
  [(FAC, "        for queue in self.queuePublishTx.values():\n            for request in queue:", "        for addr, queue in self.queuePublishTx.items():\n            if not self.windowPublish[addr]:\n                continue\n            for request in queue:")],
  expect={"C17": ["ID-SCAN"]})
N("in-use scan skips empty hold-back queues", ALL,
  [(FAC, "        for queue in self.queuePublishTx.values():\n            for request in queue:", "        for queue in self.queuePublishTx.values():\n            if not queue:\n                continue\n            for request in queue:")])
B("in-use scan stops at the first empty window", ["C17"],
  [(FAC, "            for window in windows.values():\n                if msgId in window:", "            for window in windows.values():\n                if not window:\n                    break\n                if msgId in window:")],
  expect={"C17": ["ID-SCAN"]})
B("loss path fails held-back requests without testing .called (seeded C14-c)", ["C14", "C11", "C16"],
  [(PS, "                request = queue.popleft()\n                if not request.deferred.called:\n                    request.deferred.errback(reason)", "                queue.popleft().deferred.errback(reason)")],
  expect={"C14": ["M-LOSS-IDLE"], "C11": ["X-REACH"], "C16": ["E3"]})
N("loss path tests .called the other way round", ALL,
  [(PS, "                request = queue.popleft()\n                if not request.deferred.called:\n                    request.deferred.errback(reason)", "                request = queue.popleft()\n                if request.deferred.called:\n                    continue\n                request.deferred.errback(reason)")])
_PT_DICT = '''    packetTypes = {0x00: "null",    0x01: "CONNECT",     0x02: "CONNACK",
                   0x03: "PUBLISH", 0x04: "PUBACK",      0x05: "PUBREC",
                   0x06: "PUBREL",  0x07: "PUBCOMP",     0x08: "SUBSCRIBE",
                   0x09: "SUBACK",  0x0A: "UNSUBSCRIBE", 0x0B: "UNSUBACK",
                   0x0C: "PINGREQ", 0x0D: "PINGRESP",    0x0E: "DISCONNECT"}
'''
_PT_TUPLE = '''    packetTypes = ("null",    "CONNECT",     "CONNACK",
                   "PUBLISH", "PUBACK",      "PUBREC",
                   "PUBREL",  "PUBCOMP",     "SUBSCRIBE",
                   "SUBACK",  "UNSUBSCRIBE", "UNSUBACK",
                   "PINGREQ", "PINGRESP",    "DISCONNECT")
'''
B("packet type table turned into a tuple, the lookup still catches KeyError only (seeded C16-c)", ["C16", "C14", "C03"],
  [(BASE, _PT_DICT, _PT_TUPLE)],
  expect={"C16": ["E3"], "C14": ["M-UNKNOWN-TYPE"], "C03": ["F2", "F6"]})
N("packet type table turned into a tuple, the lookup catches IndexError", ALL,
  [(BASE, _PT_DICT, _PT_TUPLE),
   (BASE, "            packet_type_name = self.packetTypes[packet_type]\n        except KeyError as e:", "            packet_type_name = self.packetTypes[packet_type]\n        except IndexError as e:")])
_INUSE_OLD = '        for windows in (self.windowPublish, self.windowPubRelease,\n                        self.windowSubscribe, self.windowUnsubscribe):\n            for window in windows.values():\n                if msgId in window:\n                    return True\n        for queue in self.queuePublishTx.values():\n            for request in queue:\n                if request.msgId == msgId:\n                    return True\n        return False\n'
N("in-use scan written with any() over generator expressions", ALL, [(FAC, _INUSE_OLD, '        for windows in (self.windowPublish, self.windowPubRelease,\n                        self.windowSubscribe, self.windowUnsubscribe):\n            if any(msgId in window for window in windows.values()):\n                return True\n        return any(request.msgId == msgId for queue in self.queuePublishTx.values() for request in queue)\n')])
B("in-use scan with any() whose generator filters out windows holding a single request", ["C17"], [(FAC, _INUSE_OLD, '        for windows in (self.windowPublish, self.windowPubRelease,\n                        self.windowSubscribe, self.windowUnsubscribe):\n            if any(msgId in window for window in windows.values() if len(window) > 1):\n                return True\n        return any(request.msgId == msgId for queue in self.queuePublishTx.values() for request in queue)\n')],
  expect={"C17": ["ID-SCAN"]})
# ---- shapes met in the refactorings written by sub-agents (neutral/), and the one-step-wrong twin of each -------------------------------
_SUFFIX_FRAMER = """    def _accumulatePacket(self, data):
        self._buffer.extend(data)
        while len(self._buffer) >= 2:
            pending = self._buffer
            lenLen = 1
            while lenLen < len(pending) and pending[lenLen] & 0x80:
                lenLen += 1
            packetLen = 1 + lenLen + decodeLength(pending[1:])
            if len(pending) < packetLen:
                break
            self._processPacket(pending[:packetLen])
            self._buffer = self._buffer[packetLen:]

"""
N("framer without the length state variable, through a local alias of the carry", ALL, [(BASE, _OLD_FRAMER, _SUFFIX_FRAMER)])
B("framer whose alias of the carry is taken once, before the loop (stale after the first packet)", ["C03"],
  [(BASE, _OLD_FRAMER, _SUFFIX_FRAMER.replace("        while len(self._buffer) >= 2:\n            pending = self._buffer\n",
                                              "        pending = self._buffer\n        while len(self._buffer) >= 2:\n"))], {"C03": ["F2", "F3", "F5"]})
B("simplified framer whose width scan starts at byte 0", ["C03"],
  [(BASE, _OLD_FRAMER, _SUFFIX_FRAMER.replace("            lenLen = 1\n", "            lenLen = 0\n"))], {"C03": ["F3"]})
B("simplified framer that consumes one byte less than it dispatches", ["C03"],
  [(BASE, _OLD_FRAMER, _SUFFIX_FRAMER.replace("self._buffer = self._buffer[packetLen:]", "self._buffer = self._buffer[packetLen - 1:]"))], {"C03": ["F2"]})
_DECLEN_OLD = "    value      = 0\n    multiplier = 1\n    for i in encoded:\n        value += (i & 0x7F) * multiplier\n        multiplier *= 0x80\n        if (i & 0x80) != 0x80:\n            break\n    return value\n"
_DECLEN_SHIFT = "    value = 0\n    shift = 0\n    for digit in encoded:\n        value += (digit & 0x7F) << shift\n        if not digit & 0x80:\n            break\n        shift += 7\n    return value\n"
N("decodeLength with a shift counter", ALL, [(PDU, _DECLEN_OLD, _DECLEN_SHIFT)])
B("decodeLength with a shift counter advanced before the digit is accumulated", ["C01"],
  [(PDU, _DECLEN_OLD, "    value = 0\n    shift = 0\n    for digit in encoded:\n        shift += 7\n        value += (digit & 0x7F) << shift\n        if not digit & 0x80:\n            break\n    return value\n")],
  {"C01": ["L1"]})
B("decodeLength with a shift counter stepping by 8", ["C01"], [(PDU, _DECLEN_OLD, _DECLEN_SHIFT.replace("shift += 7", "shift += 8"))], {"C01": ["L1"]})
_E16_OLD = "    value      = int(value)\n    encoded    = bytearray(2)\n    encoded[0] = value >> 8\n    encoded[1] = value & 0xFF\n    return encoded\n"
N("encode16Int through divmod", ALL, [(PDU, _E16_OLD, "    return bytearray(divmod(int(value), 256))\n")])
B("encode16Int through divmod with the parts swapped", ["C01", "C02"],
  [(PDU, _E16_OLD, "    msb, lsb = divmod(int(value), 256)\n    return bytearray((lsb, msb))\n")], {"C01": ["L1"], "C02": ["S8"]})
_REFILL_OLD = "        cnx = self.addr\n        while self.factory.queuePublishTx[cnx] and len(self.factory.windowPublish[cnx]) < self._window:\n            request = self.factory.queuePublishTx[cnx].popleft()\n            if request.msgId:   # only form QoS 1 & 2\n                self.factory.windowPublish[cnx][request.msgId] = request\n"
_REFILL_BRK = "        pending = self.factory.queuePublishTx[self.addr]\n        while pending:\n            inflight = self.factory.windowPublish[self.addr]\n            if len(inflight) OP self._window:\n                break\n            request = pending.popleft()\n            if request.msgId:   # only form QoS 1 & 2\n                inflight[request.msgId] = request\n"
N("refill loop with the window bound as a break guard", ALL, [(PS, _REFILL_OLD, _REFILL_BRK.replace("OP", ">="))])
B("refill loop whose break guard lets one request too many in", ["C10"], [(PS, _REFILL_OLD, _REFILL_BRK.replace("OP", ">"))], {"C10": ["W-BOUND"]})
_MAKEID_OLD = "        for _ in range(65535):\n            self.id = (self.id + 1) % 65536\n            self.id = self.id or 1   # avoid id 0\n            if not self._idInUse(self.id):\n                return self.id\n        return self.id\n"
_MAKEID_WHILE = "        candidate = self.id\n        attempts  = 65535\n        while attempts:\n            candidate = (candidate + 1) & 0xFFFF\nZERO            self.id = candidate\n            if not self._idInUse(candidate):\n                break\n            attempts -= 1\n        return candidate\n"
N("makeId as a counted while loop over a local candidate", ALL, [(FAC, _MAKEID_OLD, _MAKEID_WHILE.replace("ZERO", "            if not candidate:\n                candidate = 1\n"))])
B("makeId as a while loop that no longer skips identifier 0", ["C17"], [(FAC, _MAKEID_OLD, _MAKEID_WHILE.replace("ZERO", ""))], {"C17": ["ID-RANGE"]})
_INUSE_OLD = "            if not self._idInUse(self.id):\n                return self.id\n        return self.id\n"
_INUSE_SET_HEAD = "        taken = set()\n        for windows in (self.windowPublish, self.windowPubRelease, self.windowSubscribe, self.windowUnsubscribe):\n            for window in windows.values():\n                taken.update(window)\n        for queue in self.queuePublishTx.values():\n            QUEUE\nEXTRA"
_MAKEID_FOR = "        for _ in range(65535):\n"
def _inuse_set(queue, extra=""):
    return [(FAC, _MAKEID_FOR, _INUSE_SET_HEAD.replace("QUEUE", queue).replace("EXTRA", extra) + _MAKEID_FOR),
            (FAC, _INUSE_OLD, "            if self.id not in taken:\n                return self.id\n        return self.id\n")]
N("makeId testing the candidate against a collected set of the identifiers in use", ALL, _inuse_set("taken.update(request.msgId for request in queue)"))
B("collected set of identifiers in use filled with the queued request objects", ["C17"], _inuse_set("taken.update(queue)"), {"C17": ["ID-INUSE"]})
B("collected set of identifiers in use that filters the queued requests", ["C17"],
  _inuse_set("taken.update(request.msgId for request in queue if request.qos == 2)"), {"C17": ["ID-SCAN"]})
B("collected set of identifiers in use from which the current counter value is removed again", ["C17"],
  _inuse_set("taken.update(request.msgId for request in queue)", "        taken.discard(self.id + 1)\n"), {"C17": ["ID-SCAN"]})
B("makeId gives up after 100 candidates", ["C17"], [(FAC, "        for _ in range(65535):\n", "        for _ in range(100):\n")], {"C17": ["ID-VERDICT"]})
B("makeId hands out the candidate after 100 tries whether it is free or not", ["C17"],
  [(FAC, "            if not self._idInUse(self.id):\n                return self.id\n", "            if not self._idInUse(self.id) or _ > 100:\n                return self.id\n")], {"C17": ["ID-VERDICT"]})
B("makeId as a while loop that leaves with a candidate still in use once few attempts remain", ["C17"],
  [(FAC, _MAKEID_OLD, _MAKEID_WHILE.replace("ZERO", "            if not candidate:\n                candidate = 1\n").replace("            if not self._idInUse(candidate):\n", "            if not self._idInUse(candidate) or attempts < 10:\n"))], {"C17": ["ID-VERDICT"]})
_FR_GUARD = "                if lenLen < len(self._buffer) and self._buffer[lenLen] & 0x80:\n                    return\n"
N("framer guard with the length on the left", ALL, [(BASE, _FR_GUARD, "                if len(self._buffer) > lenLen and self._buffer[lenLen] & 0x80:\n                    return\n")])
N("framer guard as a nested test", ALL, [(BASE, _FR_GUARD, "                if lenLen < len(self._buffer):\n                    if self._buffer[lenLen] & 0x80:\n                        return\n")])
B("framer reads the byte after the length field without a length test", ["C03", "C16"],
  [(BASE, _FR_GUARD, "                if lenLen <= len(self._buffer) and self._buffer[lenLen] & 0x80:\n                    return\n")], {"C03": ["F4"], "C16": ["E3"]})
B("framer scan loop runs one index past the buffer", ["C03", "C16"],
  [(BASE, "                while lenLen < len(self._buffer):\n", "                while lenLen <= len(self._buffer):\n")], {"C03": ["F4", "F3"], "C16": ["E3"]})
B("SUBACK handler fires the Deferred before the request has left its window", ["C07"],
  [(PS, "            request = self.factory.windowSubscribe[self.addr][response.msgId]\n            del self.factory.windowSubscribe[self.addr][response.msgId]\n            request.alarm.cancel()\n            request.deferred.callback(response.granted)",
    "            request = self.factory.windowSubscribe[self.addr][response.msgId]\n            request.alarm.cancel()\n            request.deferred.callback(response.granted)\n            del self.factory.windowSubscribe[self.addr][response.msgId]")], {"C07": ["S-ACK"]})
B("whole registry measured through a local alias (retry delay depends on the number of addresses)", ["C19"],
  [(PS, "        interval = request.interval() + 0.25*len(self.factory.windowSubscribe[self.addr])",
    "        windows = self.factory.windowSubscribe\n        interval = request.interval() + 0.25*len(windows)")], {"C19": ["I-KEY"]})
N("handleCONNACK with the refusal branch first", ALL,
  [(BASE, "        if response.resultCode == 0:\n            self.state = self.CONNECTED\n            self.mqttConnectionMade()   # before the callbacks are executed ...\n            if request.keepalive != 0:\n                self._pingReq.keepalive = request.keepalive\n                self._pingReq.timer     = task.LoopingCall(self.ping)\n                self._pingReq.timer.start(request.keepalive)\n            request.deferred.callback(response.session)\n        else:\n",
    "        if response.resultCode == 0:\n            self.state = self.CONNECTED\n            self.mqttConnectionMade()   # before the callbacks are executed ...\n            keepalive = request.keepalive\n            if keepalive != 0:\n                self._pingReq.keepalive = keepalive\n                self._pingReq.timer     = task.LoopingCall(self.ping)\n                self._pingReq.timer.start(keepalive)\n            request.deferred.callback(response.session)\n        else:\n")])
N("connectionLost through a local alias of the ping request", ALL,
  [(BASE, "        if self._pingReq.timer:\n            self._pingReq.timer.stop()\n            self._pingReq.timer = None\n        if self._pingReq.alarm:\n            self._pingReq.alarm.cancel()\n            self._pingReq.alarm = None\n        self.doConnectionLost(reason)",
    "        ping = self._pingReq\n        if ping.timer:\n            ping.timer.stop()\n            ping.timer = None\n        if ping.alarm:\n            ping.alarm.cancel()\n            ping.alarm = None\n        self.doConnectionLost(reason)")])
N("_retryPublish computes the delay into a local first", ALL,
  [(PS, "        if request.interval:    # Handle timeouts for QoS 1 and 2\n            request.alarm = self.callLater(request.interval(len(request.encoded)), self._publishError, request)",
    "        if request.interval:    # Handle timeouts for QoS 1 and 2\n            delay = request.interval(len(request.encoded))\n            request.alarm = self.callLater(delay, self._publishError, request)")])
N("doUnsubscribe without the wasted first makeId()", ALL,
  [(PS, "        request.msgId = self.factory.makeId()\n        if isinstance(request.topics, str):\n            request.topics = [request.topics]", "        if isinstance(request.topics, str):\n            request.topics = [request.topics]")])
N("handlePUBREL with try/else restored around the delivery", ALL,
  [(PS, "        reply = PUBCOMP()\n        reply.msgId = response.msgId\n        log.debug(\"<== {packet:7} (id={response.msgId:04x})\" , packet=\"PUBCOMP\", response=response)\n        self.transport.write(reply.encode())\n",
    "        self._sendPubcomp(response.msgId)\n\n    def _sendPubcomp(self, msgId):\n        reply = PUBCOMP()\n        reply.msgId = msgId\n        self.transport.write(reply.encode())\n")])

_PUBLOOP = """        for _, request in self.factory.windowPublish[self.addr].items():
            if request.alarm is not None:
                request.alarm.cancel()
                request.alarm = None
        for _, request in self.factory.windowPubRelease[self.addr].items():
            if request.alarm is not None:
                request.alarm.cancel()
                request.alarm = None
        # Then, invoke errbacks anyway if we do not persist state
"""
B("loss: publish alarms cancelled inside one try, AttributeError swallowed around both loops", ["C13"], [(PS, _PUBLOOP, """        try:
            for _, request in self.factory.windowPublish[self.addr].items():
                request.alarm.cancel()
                request.alarm = None
            for _, request in self.factory.windowPubRelease[self.addr].items():
                request.alarm.cancel()
                request.alarm = None
        except AttributeError:
            pass
        # Then, invoke errbacks anyway if we do not persist state
""")], {"C13": ["R-LOSS"]})
N("loss: publish alarms cancelled with a try per entry instead of the None test", ["C04", "C08", "C11", "C12", "C13", "C14", "C16"], [(PS, _PUBLOOP, """        for _, request in self.factory.windowPublish[self.addr].items():
            try:
                request.alarm.cancel()
            except AttributeError:
                pass
            request.alarm = None
        for _, request in self.factory.windowPubRelease[self.addr].items():
            try:
                request.alarm.cancel()
            except AttributeError:
                pass
            request.alarm = None
        # Then, invoke errbacks anyway if we do not persist state
""")])

# ---- positive examples for rule sites that no variant reached (tools/ruleaudit.py) ----
B("CONNACK handler fires on a path that does not test the return code", ["C04"],
  [(BASE, "        if response.resultCode == 0:\n            self.state = self.CONNECTED", "        if response.session == 0:\n            self.state = self.CONNECTED")], {"C04": ["K2"]})
B("doPublish queues the request without encoding it", ["C05"],
  [(PS, "        try:\n            request.encode()\n        except Exception as e:\n            return defer.fail(e)\n\n        self.factory.queuePublishTx", "        self.factory.queuePublishTx")], {"C05": ["R-ID"]})
B("handlePUBREC reassigns the identifier of the registered request", ["C05"],
  [(PS, "            request.alarm.cancel()\n            del self.factory.windowPublish[self.addr][response.msgId]\n            reply = PUBREL()", "            request.alarm.cancel()\n            request.msgId = response.msgId\n            del self.factory.windowPublish[self.addr][response.msgId]\n            reply = PUBREL()")], {"C05": ["ID-KEY"]})
B("handlePUBREL catches IndexError instead of KeyError", ["C06"],
  [(PS, "            msg = self.factory.windowPubRx[self.addr][response.msgId]\n        except KeyError as e:", "            msg = self.factory.windowPubRx[self.addr][response.msgId]\n        except IndexError as e:")], {"C06": ["P2"]})
B("handlePUBREC registers the PUBREL but never sends it", ["C09"],
  [(PS, "            self.factory.windowPubRelease[self.addr][reply.msgId] = reply\n            self._retryRelease(reply, False)\n", "            self.factory.windowPubRelease[self.addr][reply.msgId] = reply\n")], {"C09": ["Q-ORDER"]})
B("clean loss re-binds the whole queue registry", ["C10"],
  [(PS, "            queue = self.factory.queuePublishTx[self.addr]\n            while queue:", "            self.factory.queuePublishTx = {self.addr: self.factory.queuePublishTx[self.addr]}\n            queue = self.factory.queuePublishTx[self.addr]\n            while queue:")], {"C10": ["W-FIFO"]})
B("loss path re-sends the pending publishes", ["C13"],
  [(PS, "        for _, request in self.factory.windowPublish[self.addr].items():\n            if request.alarm is not None:\n                request.alarm.cancel()\n                request.alarm = None\n", "        for _, request in self.factory.windowPublish[self.addr].items():\n            if request.alarm is not None:\n                request.alarm.cancel()\n                request.alarm = None\n            self.transport.write(bytes(request.encoded))\n")], {"C13": ["R-LOSS"]})
B("state assigned a value that is no state object", ["C14"],
  [(BASE, "        else:\n            self.state = self.IDLE\n            if response.resultCode < len(MQTT_CONNECT_CODES):", "        else:\n            self.state = None\n            if response.resultCode < len(MQTT_CONNECT_CODES):")], {"C14": ["M-STATEVAL"]})
B("disconnect() does not go through the state object", ["C14"],
  [(BASE, "        self.state.disconnect(request)", "        self.doDisconnect(request)")], {"C14": ["M-DISPATCH"]})
B("publish() dispatches the subscribe operation of the state", ["C14"],
  [(PS, "        return self.state.publish(request)", "        return self.state.subscribe(request)")], {"C14": ["M-DISPATCH"]})
B("handlePINGRESP raises on every PINGRESP", ["C15"],
  [(BASE, "        log.debug(\"<== {packet:7}\", packet=\"PINGRESP\")\n        if self._pingReq.alarm:", "        log.debug(\"<== {packet:7}\", packet=\"PINGRESP\")\n        raise MQTTStateError(\"unexpected PINGRESP\")\n        if self._pingReq.alarm:")], {"C15": ["Q3"]})
B("loss path ignores the session mode: always drains", ["C11", "C12"],
  [(PS, "        # Then, invoke errbacks anyway if we do not persist state\n        if self._cleanStart:\n", "        # Then, invoke errbacks anyway if we do not persist state\n        if True:\n")], {"C11": ["X-SPLIT"], "C12": ["Y-KEEP", "Y-SPLIT", "Y-MODE"]})
B("clean loss succeeds the held-back publishes", ["C11"],
  [(PS, "                if not request.deferred.called:\n                    request.deferred.errback(reason)\n            self._purgeSession(reason)", "                if not request.deferred.called:\n                    request.deferred.callback(request.msgId)\n            self._purgeSession(reason)")], {"C11": ["X-REASON"]})
B("accepted CONNACK treats every session as persistent", ["C12"],
  [(PS, "        if self._cleanStart:\n            self._purgeSession(MQTTSessionCleared())\n            # the purge freed window slots: send what publish() queued behind them\n            self._refillPublish(dup=False)\n        else:\n            self._syncSession()\n", "        self._syncSession()\n")], {"C12": ["Y-SPLIT"]})
B("disconnect() writes DISCONNECT and leaves the transport open", ["C18"],
  [(BASE, "        self.transport.write(request.encode())\n        self.transport.loseConnection()\n", "        self.transport.write(request.encode())\n")], {"C18": ["W3"]})
B("setTimeout never rejects", ["C20"],
  [(BASE, "        if not ( 1 <= timeout <= self.TIMEOUT_MAX_INITIAL ):\n             raise TimeoutValueError(timeout)\n        self._initialT = timeout", "        self._initialT = timeout")], {"C20": ["G-REJECTS", "G-INTERVAL"]})
B("setTimeout validates and stores nothing", ["C20"],
  [(BASE, "             raise TimeoutValueError(timeout)\n        self._initialT = timeout", "             raise TimeoutValueError(timeout)\n        initialT = timeout")], {"C20": ["G-STORE"]})
B("keepalive loop started whatever the keepalive", ["C15"],
  [(BASE, "            if request.keepalive != 0:\n                self._pingReq.keepalive = request.keepalive", "            if True:\n                self._pingReq.keepalive = request.keepalive")], {"C15": ["Q1"]})
B("PINGRESP stops the periodic keepalive call", ["C15"],
  [(BASE, "        if self._pingReq.alarm:\n            self._pingReq.alarm.cancel()\n            self._pingReq.alarm = None\n\n\n    # ---------------------------", "        if self._pingReq.alarm:\n            self._pingReq.alarm.cancel()\n            self._pingReq.alarm = None\n        if self._pingReq.timer:\n            self._pingReq.timer.stop()\n            self._pingReq.timer = None\n\n\n    # ---------------------------")], {"C15": ["Q7"]})
B("packet type table without SUBACK", ["C16"],
  [(BASE, "                   0x09: \"SUBACK\",  0x0A: \"UNSUBSCRIBE\"", "                   0x0A: \"UNSUBSCRIBE\"")], {"C16": ["E2"]})
N("queue built as an explicitly unbounded deque", ["C10", "C11", "C19"], [("src/mqtt/client/factory.py", "        v = self.queuePublishTx.get(addr, deque())", "        v = self.queuePublishTx.get(addr, deque(maxlen=None))")])
B("queue built as a bounded deque (positional maxlen)", ["C10", "C11"], [("src/mqtt/client/factory.py", "        v = self.queuePublishTx.get(addr, deque())", "        v = self.queuePublishTx.get(addr, deque([], 512))")], {"C10": ["W-FIFO"], "C11": ["X-DRAIN"]})
N("connection hook read into a local, still called last", ["C07", "C08", "C12", "C16"], [(PS, "        if self.onMqttConnectionMade:\n            self.onMqttConnectionMade()", "        hook = self.onMqttConnectionMade\n        if hook:\n            hook()")])
B("connection hook called before the session code", ["C07", "C08", "C12"], [(PS, "        if self._cleanStart:\n            self._purgeSession(MQTTSessionCleared())", "        if self.onMqttConnectionMade:\n            self.onMqttConnectionMade()\n        if self._cleanStart:\n            self._purgeSession(MQTTSessionCleared())")], {"C07": ["S-HOOK"], "C08": ["R-HOOK"], "C12": ["Y-HOOK"]})
N("keepalive argument through a local alias", ["C02", "C04", "C15", "C20"], [(BASE, "        request.keepalive   = keepalive\n", "        period = keepalive\n        request.keepalive   = period\n")])
B("keepalive falls back to the previous connection's", ["C15"], [(BASE, "        request.keepalive   = keepalive\n", "        request.keepalive   = keepalive or getattr(self, '_lastKeepalive', 0)\n        self._lastKeepalive = request.keepalive\n")], {"C15": ["Q1"]})
B("PUBLISH.decode refuses a packet that ends with its topic (off-by-one length test)", ["C01", "C06"],
  [(PDU, "        topicLen       = decode16Int(packet_remaining)\n", "        topicLen       = decode16Int(packet_remaining)\n        if topicLen + 2 >= len(packet_remaining):\n            raise ValueError('PUBLISH topic exceeds the packet', topicLen)\n")], {"C01": ["L3"], "C06": ["P7"]})
N("PUBLISH.decode refuses a packet shorter than its topic", ["C01", "C02", "C06", "C16"],
  [(PDU, "        topicLen       = decode16Int(packet_remaining)\n", "        topicLen       = decode16Int(packet_remaining)\n        if topicLen + 2 > len(packet_remaining):\n            raise ValueError('PUBLISH topic exceeds the packet', topicLen)\n")])


# ---- positive examples for rule sites that had none (tools/ruleaudit.py, after the eighth refactoring round) ----
B("PINGREQ bytes never encoded in the constructor", ["C15"],
  [(BASE, "        self._pingReq.pdu   = self._pingReq.encode()    # reuses the same PDU over and over again", "        self._pingReq.pdu   = None")], {"C15": ["Q2"]})
B("keepalive loop targets a module-level function", ["C15"],
  [(BASE, "                self._pingReq.timer     = task.LoopingCall(self.ping)", "                self._pingReq.timer     = task.LoopingCall(log.debug, 'ping')")], {"C15": ["Q1"]})
B("accepted CONNACK never starts the keepalive loop", ["C15"],
  [(BASE, "                self._pingReq.timer     = task.LoopingCall(self.ping)\n                self._pingReq.timer.start(request.keepalive)\n", "                pass\n")], {"C15": ["Q1"]})
B("PINGRESP deadline handle kept in a local only", ["C15"],
  [(BASE, "        self._pingReq.alarm = self.callLater(self._pingReq.keepalive, doPingError)", "        alarm = self.callLater(self._pingReq.keepalive, doPingError)")], {"C15": ["Q2"]})
B("connectionLost schedules a second call besides the notification", ["C13"],
  [(BASE, "        if self.onDisconnection:\n            self.callLater(0.1, self.onDisconnection, reason)", "        if self.onDisconnection:\n            self.callLater(0.1, self.onDisconnection, reason)\n        self.callLater(0.2, self.ping)")], {"C13": ["R-LOSS"]})
B("buildProtocol replaces the publish window of a known address", ["C12"],
  [(FAC, "        v = self.windowPublish.get(addr, dict() )\n        self.windowPublish[addr] = v", "        self.windowPublish[addr] = dict()")], {"C12": ["Y-KEEP"]})
B("refill registers a copy, not the popped request", ["C10"],
  [(PS, "                self.factory.windowPublish[cnx][request.msgId] = request\n            self._retryPublish(request, dup)", "                self.factory.windowPublish[cnx][request.msgId] = PUBLISH()\n            self._retryPublish(request, dup)")], {"C10": ["W-FIFO"]})
B("PUBREC hit path writes the PUBREL twice", ["C09"],
  [(PS, "            self.factory.windowPubRelease[self.addr][reply.msgId] = reply\n            self._retryRelease(reply, False)", "            self.factory.windowPubRelease[self.addr][reply.msgId] = reply\n            self._retryRelease(reply, False)\n            self.transport.write(bytes(reply.encoded))")], {"C09": ["Q-ORDER"]})
B("packetTypes swaps SUBACK and UNSUBACK names", ["C14"],
  [(BASE, '                   0x09: "SUBACK",  0x0A: "UNSUBSCRIBE", 0x0B: "UNSUBACK",', '                   0x09: "UNSUBACK",  0x0A: "UNSUBSCRIBE", 0x0B: "SUBACK",')], {"C14": ["M-TYPETABLE", "M-DECODE-CLASS", "M-CELL", "M-DISPATCH"]})
B("SUBSCRIBE registered under a second identifier", ["C07"],
  [(PS, "        self.factory.windowSubscribe[self.addr][request.msgId] = request\n        self._retrySubscribe(request, False)", "        self.factory.windowSubscribe[self.addr][self.factory.makeId()] = request\n        self._retrySubscribe(request, False)")], {"C07": ["S-ID"]})
B("subscribe window rejection still takes an identifier", ["C07"],
  [(PS, "        try:\n            self._checkSubscribe(request)\n            request.msgId = self.factory.makeId()\n            request.encode()\n        except Exception as e:\n            return defer.fail(e)",
    "        try:\n            self._checkSubscribe(request)\n            request.msgId = self.factory.makeId()\n            request.encode()\n        except Exception as e:\n            self.transport.write(bytes(bytearray((0xC0, 0))))\n            return defer.fail(e)")], {"C07": ["S-WINDOW", "S-FLOW", "S-ARGS"]})
B("connect() changes state before the CONNECT is written", ["C04"],
  [(BASE, "        self.transport.write(pdu)\n        # Changes state and returns deferred\n        self.state = self.CONNECTING\n", "        self.state = self.CONNECTING\n        self.transport.write(pdu)\n")], {"C04": ["K1"]})
B("connect() keeps the timeout handle in a local only", ["C04"],
  [(BASE, "        request.alarm = self.callLater(request.keepalive or 10, connectError)\n        request.deferred = defer.Deferred()", "        alarm = self.callLater(request.keepalive or 10, connectError)\n        request.alarm = None\n        request.deferred = defer.Deferred()")], {"C04": ["K1", "K2", "K3"]})
B("connect() returns a Deferred other than the one it stores", ["C04"],
  [(BASE, "        self.connReq = request  # keep track of this request until CONNACK or timeout\n        return request.deferred", "        self.connReq = request  # keep track of this request until CONNACK or timeout\n        return defer.Deferred()")], {"C04": ["K1"]})
B("QoS 1 PUBLISH also entered into the receive window", ["C06"],
  [(PS, "            self.transport.write(reply.encode())\n            self._deliver(response)\n        elif response.qos == 2:", "            self.transport.write(reply.encode())\n            self.factory.windowPubRx[self.addr][response.msgId] = response\n            self._deliver(response)\n        elif response.qos == 2:")], {"C06": ["P1", "P5", "P6"]})
B("PUBACK carries the next identifier, not the received one", ["C06"],
  [(PS, "            reply = PUBACK()\n            reply.msgId = response.msgId", "            reply = PUBACK()\n            reply.msgId = (response.msgId + 1) % 65536")], {"C06": ["P3"]})
B("framer looks at the carry before the chunk is appended", ["C03"],
  [(BASE, "        self._buffer.extend(data)\n\n        length = None\n\n        while len(self._buffer):", "        length = None\n\n        while len(self._buffer):"),
   (BASE, "            else:\n                break\n", "            else:\n                break\n        self._buffer.extend(data)\n")], {"C03": ["F1", "F5", "F2", "F4", "F6"]})
B("framer frames one packet per chunk (if, not while)", ["C03"],
  [(BASE, "        while len(self._buffer):\n            if length is None:", "        for _once in (1,):\n            if length is None:")], {"C03": ["F5", "F1", "F2", "F6"]})
B("framer hands the dispatcher the packet without its first byte", ["C03"],
  [(BASE, "                chunk = self._buffer[:length + lenLen + 1]\n                self._processPacket(chunk)", "                chunk = self._buffer[:length + lenLen + 1]\n                self._processPacket(chunk[1:])")], {"C03": ["F2", "F7"]})
