"""A0/A1: program model of /repo/src/mqtt (tests excluded), from source text only.

Nothing of the repository is imported or executed.  The model takes a mapping
path -> source text so that in-memory variants are analysed by the same code.
"""
import ast
import hashlib
import os

REPO = os.environ.get("VERIF_REPO", "/repo")
SRC_SUBDIR = "src"
PKG = "mqtt"


class AnalysisError(Exception):
    """The analysis cannot decide (vanished anchor, unknown idiom). Exit status 2."""


def load_sources(repo=None):
    repo = repo or REPO
    base = os.path.join(repo, SRC_SUBDIR, PKG)
    out = {}
    for dirpath, dirnames, filenames in os.walk(base):
        dirnames[:] = sorted(d for d in dirnames if d not in ("test", "tests", "__pycache__"))
        for fn in sorted(filenames):
            if fn.endswith(".py"):
                p = os.path.join(dirpath, fn)
                rel = os.path.relpath(p, repo)
                with open(p, encoding="utf-8") as f:
                    out[rel] = f.read()
    if not out:
        raise AnalysisError("no sources found under %s" % base)
    return out


def tree_digest(sources):
    h = hashlib.sha256()
    for k in sorted(sources):
        h.update(k.encode())
        h.update(b"\0")
        h.update(sources[k].encode())
        h.update(b"\0")
    return h.hexdigest()


def modname_of(rel):
    # src/mqtt/client/base.py -> mqtt.client.base ; __init__.py -> package
    parts = rel.split(os.sep)
    assert parts[0] == SRC_SUBDIR
    parts = parts[1:]
    parts[-1] = parts[-1][:-3]
    if parts[-1] == "__init__":
        parts = parts[:-1]
    return ".".join(parts)


class FuncInfo:
    def __init__(self, node, module, cls=None, parent=None):
        self.node = node
        self.name = node.name
        self.module = module
        self.cls = cls          # ClassInfo or None
        self.parent = parent    # enclosing FuncInfo for nested functions
        if parent is not None:
            self.qual = parent.qual + "." + node.name
        elif cls is not None:
            self.qual = cls.qual + "." + node.name
        else:
            self.qual = module.name + "." + node.name
        self.params = [a.arg for a in node.args.args]
        self.is_static = any(isinstance(d, ast.Name) and d.id == "staticmethod" for d in node.decorator_list)
        self.is_classmethod = any(isinstance(d, ast.Name) and d.id == "classmethod" for d in node.decorator_list)
        self.is_property = any(isinstance(d, ast.Name) and d.id == "property" for d in node.decorator_list)
        self.is_generator = self._own_yield(node)
        self.defaults = {}
        d = node.args.defaults
        if d:
            for a, dv in zip(node.args.args[-len(d):], d):
                self.defaults[a.arg] = dv
        # local names (assigned anywhere in the function body, not nested defs)
        self.locals = set(self.params)
        self._collect_locals(node)

    @staticmethod
    def _own_yield(fnode):
        """Does the function itself (not a nested def / lambda / generator expression) contain a yield?"""
        def visit(n):
            for ch in ast.iter_child_nodes(n):
                if isinstance(ch, (ast.FunctionDef, ast.Lambda, ast.ClassDef)):
                    continue
                if isinstance(ch, (ast.Yield, ast.YieldFrom)):
                    return True
                if visit(ch):
                    return True
            return False
        return visit(fnode)

    def _collect_locals(self, fnode):
        def visit(n):
            for ch in ast.iter_child_nodes(n):
                if isinstance(ch, (ast.FunctionDef, ast.Lambda, ast.ClassDef)):
                    if isinstance(ch, (ast.FunctionDef, ast.ClassDef)):
                        self.locals.add(ch.name)
                    continue
                if isinstance(ch, ast.Name) and isinstance(ch.ctx, (ast.Store, ast.Del)):
                    self.locals.add(ch.id)
                elif isinstance(ch, ast.ExceptHandler) and ch.name:
                    self.locals.add(ch.name)
                elif isinstance(ch, (ast.Import, ast.ImportFrom)):
                    for al in ch.names:
                        self.locals.add((al.asname or al.name).split(".")[0])
                elif isinstance(ch, ast.comprehension):
                    pass
                visit(ch)
        visit(fnode)

    @property
    def file(self):
        return self.module.path

    def __repr__(self):
        return "<func %s>" % self.qual


class ClassInfo:
    def __init__(self, node, module):
        self.node = node
        self.name = node.name
        self.module = module
        self.qual = module.name + "." + node.name
        self.methods = {}
        self.attrs = {}        # class-level name -> value expr
        self.base_exprs = node.bases
        self.bases = []        # resolved: ClassInfo or ('ext', dotted)
        self.decorators = node.decorator_list
        for st in node.body:
            if isinstance(st, ast.FunctionDef):
                self.methods[st.name] = FuncInfo(st, module, cls=self)
            elif isinstance(st, ast.Assign):
                for t in st.targets:
                    if isinstance(t, ast.Name):
                        self.attrs[t.id] = st.value

    def __repr__(self):
        return "<class %s>" % self.qual


def _has_continue(stmts):
    """A `continue` that belongs to the loop whose body `stmts` is."""
    for s in stmts:
        if isinstance(s, ast.Continue):
            return True
        if isinstance(s, (ast.While, ast.For, ast.FunctionDef, ast.ClassDef)):
            continue
        for f in ("body", "orelse", "finalbody"):
            if _has_continue(getattr(s, f, []) or []):
                return True
        for h in getattr(s, "handlers", []) or []:
            if _has_continue(h.body):
                return True
    return False


class _RotateLoops(ast.NodeTransformer):
    """`x = E; while T: B; x = E`  ->  `while True: x = E; if not T: break; B`.

    The priming-read form of a loop and the test-in-the-middle form run the same statements in the same
    order; the second keeps what `E` established in scope of `B`, which is what the path rules read."""

    @staticmethod
    def _iter_next(a, b, w):
        """it = iter(X); x = next(it, None); while x is not None: B; x = next(it, None)   ==   for x in X: B
        (for containers that hold no None: what the registries hold are request objects).  The For node, or None."""
        def is_next(st, it_name, x_name):
            return (isinstance(st, ast.Assign) and len(st.targets) == 1 and isinstance(st.targets[0], ast.Name) and st.targets[0].id == x_name
                    and isinstance(st.value, ast.Call) and isinstance(st.value.func, ast.Name) and st.value.func.id == "next"
                    and len(st.value.args) == 2 and isinstance(st.value.args[0], ast.Name) and st.value.args[0].id == it_name
                    and isinstance(st.value.args[1], ast.Constant) and st.value.args[1].value is None)
        if not (isinstance(a, ast.Assign) and len(a.targets) == 1 and isinstance(a.targets[0], ast.Name) and isinstance(a.value, ast.Call)
                and isinstance(a.value.func, ast.Name) and a.value.func.id == "iter" and len(a.value.args) == 1 and not a.value.keywords):
            return None
        it_name = a.targets[0].id
        if not (isinstance(b, ast.Assign) and len(b.targets) == 1 and isinstance(b.targets[0], ast.Name)):
            return None
        x_name = b.targets[0].id
        t = w.test
        if not (is_next(b, it_name, x_name) and isinstance(w, ast.While) and not w.orelse and len(w.body) >= 2 and is_next(w.body[-1], it_name, x_name)
                and isinstance(t, ast.Compare) and len(t.ops) == 1 and isinstance(t.ops[0], ast.IsNot) and isinstance(t.left, ast.Name)
                and t.left.id == x_name and isinstance(t.comparators[0], ast.Constant) and t.comparators[0].value is None):
            return None
        body = w.body[:-1]
        if _has_continue(body) or any(isinstance(y, ast.Name) and y.id == it_name for st in body for y in ast.walk(st)):
            return None
        f = ast.For(target=ast.Name(id=x_name, ctx=ast.Store()), iter=a.value.args[0], body=body, orelse=[])
        ast.copy_location(f, w)
        ast.copy_location(f.target, w)
        return f

    def _block(self, stmts):
        out = []
        for s in stmts:
            prev = out[-1] if out else None
            if isinstance(s, ast.While) and len(out) >= 2:
                f_ = self._iter_next(out[-2], out[-1], s)
                if f_ is not None:
                    out.pop()
                    out.pop()
                    out.append(f_)
                    continue
            if (isinstance(s, ast.While) and not s.orelse and isinstance(prev, ast.Assign) and s.body
                    and isinstance(s.body[-1], ast.Assign) and len(s.body) > 1
                    and ast.dump(prev) == ast.dump(s.body[-1]) and not _has_continue(s.body)
                    and not (isinstance(s.test, ast.Constant) and s.test.value is True)):
                out.pop()
                brk = ast.copy_location(ast.Break(), s.test)
                guard = ast.copy_location(ast.If(test=ast.copy_location(ast.UnaryOp(op=ast.Not(), operand=s.test), s.test),
                                                 body=[brk], orelse=[]), s.test)
                loop = ast.copy_location(ast.While(test=ast.copy_location(ast.Constant(value=True), s.test),
                                                   body=[s.body[-1], guard] + s.body[:-1], orelse=[]), s)
                out.append(loop)
            else:
                out.append(s)
        return out

    def generic_visit(self, node):
        super().generic_visit(node)
        for f in ("body", "orelse", "finalbody"):
            v = getattr(node, f, None)
            if isinstance(v, list) and v and isinstance(v[0], ast.stmt):
                setattr(node, f, self._block(v))
        return node


class _IndexLoops(ast.NodeTransformer):
    """`i = 0; while i < len(X): B(X[i]); i += 1`  ->  `i = 0; for __x in X: B(__x)`  when i is used for nothing but X[i], neither i nor X is
    stored in B, B has no continue and i is not read after the loop: the index walk of a sequence is the walk of its elements."""

    def visit_FunctionDef(self, fn):
        self.generic_visit(fn)
        uses = {}
        for n in ast.walk(fn):
            if isinstance(n, ast.Name):
                uses[n.id] = uses.get(n.id, 0) + 1
        self._blocks(fn, uses)
        return fn

    def _blocks(self, node, uses):
        for f in ("body", "orelse", "finalbody"):
            v = getattr(node, f, None)
            if isinstance(v, list) and v and isinstance(v[0], ast.stmt):
                for k in range(1, len(v)):
                    r = self._rewrite(v[k - 1], v[k], uses)
                    if r is not None:
                        v[k] = r
                for st in v:
                    if not isinstance(st, (ast.FunctionDef, ast.ClassDef)):
                        self._blocks(st, uses)
        for h in getattr(node, "handlers", []):
            self._blocks(h, uses)

    @staticmethod
    def _rewrite(a, w, uses):
        if not (isinstance(a, ast.Assign) and len(a.targets) == 1 and isinstance(a.targets[0], ast.Name)
                and isinstance(a.value, ast.Constant) and a.value.value == 0 and type(a.value.value) is int):
            return None
        i = a.targets[0].id
        t = w.test if isinstance(w, ast.While) else None
        if not (t is not None and not w.orelse and len(w.body) >= 2 and isinstance(t, ast.Compare) and len(t.ops) == 1 and isinstance(t.ops[0], ast.Lt)
                and isinstance(t.left, ast.Name) and t.left.id == i and isinstance(t.comparators[0], ast.Call)
                and isinstance(t.comparators[0].func, ast.Name) and t.comparators[0].func.id == "len" and len(t.comparators[0].args) == 1
                and isinstance(t.comparators[0].args[0], ast.Name)):
            return None
        xs = t.comparators[0].args[0].id
        last = w.body[-1]
        if not (isinstance(last, ast.AugAssign) and isinstance(last.op, ast.Add) and isinstance(last.target, ast.Name) and last.target.id == i
                and isinstance(last.value, ast.Constant) and last.value.value == 1):
            return None
        body = w.body[:-1]
        if _has_continue(body):
            return None
        n_i = 0
        subs = []
        for st in body:
            for n in ast.walk(st):
                if isinstance(n, ast.Name) and n.id in (i, xs) and not isinstance(n.ctx, ast.Load):
                    return None
                if isinstance(n, ast.Name) and n.id == i:
                    n_i += 1
                if isinstance(n, ast.Subscript) and isinstance(n.value, ast.Name) and n.value.id == xs and isinstance(n.slice, ast.Name) \
                        and n.slice.id == i and isinstance(n.ctx, ast.Load):
                    subs.append(n)
                elif isinstance(n, ast.Name) and n.id == xs and not any(n is q.value for q in subs):
                    pass
        if n_i != len(subs) or not subs or uses.get(i, 0) != n_i + 3:      # the initial store, the test, the increment
            return None
        # X itself must not be touched in the body other than through X[i] (a body that grows or shrinks X changes the walk)
        n_x = sum(1 for st in body for n in ast.walk(st) if isinstance(n, ast.Name) and n.id == xs)
        if n_x != len(subs):
            return None
        elem = "__elem_%s" % i

        class R(ast.NodeTransformer):
            def visit_Subscript(self, n):
                if n in subs:
                    return ast.copy_location(ast.Name(id=elem, ctx=ast.Load()), n)
                return self.generic_visit(n)
        f = ast.For(target=ast.Name(id=elem, ctx=ast.Store()), iter=ast.Name(id=xs, ctx=ast.Load()), body=[R().visit(st) for st in body], orelse=[])
        ast.copy_location(f, w)
        ast.copy_location(f.target, w)
        ast.copy_location(f.iter, w)
        return f

    visit_AsyncFunctionDef = visit_FunctionDef

    def visit_Return(self, node):
        """`return A if C else B`  ->  `if C: return A` / `else: return B`: the two outcomes become two paths, each under its condition
        (a helper that answers with a sentinel - `size if size <= avail else 0` - is then read like the if statement it abbreviates)."""
        v = node.value
        if isinstance(v, ast.IfExp):
            a = ast.copy_location(ast.Return(value=v.body), node)
            b = ast.copy_location(ast.Return(value=v.orelse), node)
            return ast.copy_location(ast.If(test=v.test, body=[self.visit_Return(a)], orelse=[self.visit_Return(b)]), node)
        return node


class ModuleInfo:
    def __init__(self, name, path, src):
        self.name = name
        self.path = path
        self.src = src
        self.is_pkg = path.endswith("__init__.py")
        try:
            self.tree = ast.parse(src, filename=path)
        except SyntaxError as e:
            raise AnalysisError("cannot parse %s: %s" % (path, e))
        if name != "mqtt.pdu":
            # (the codec module is read by the layout extractors, which match loop shapes as written; the path engine treats its
            # encode/decode as atomic events)
            self.tree = ast.fix_missing_locations(_RotateLoops().visit(_IndexLoops().visit(self.tree)))
        self.imports = {}   # local name -> ('mod', dotted) | ('from', dotted_module, name)
        self.consts = {}    # name -> value expr (module-level assignments)
        self.classes = {}
        self.funcs = {}
        for st in self.tree.body:
            self._top(st)

    def _abs(self, level, module):
        if level == 0:
            return module
        pkg = self.name.split(".")
        if not self.is_pkg:
            pkg = pkg[:-1]
        if level > 1:
            pkg = pkg[:-(level - 1)]
        return ".".join(pkg + ([module] if module else []))

    def _top(self, st):
        if isinstance(st, ast.Import):
            for al in st.names:
                self.imports[(al.asname or al.name).split(".")[0]] = ("mod", al.name if al.asname else al.name.split(".")[0])
        elif isinstance(st, ast.ImportFrom):
            src = self._abs(st.level, st.module)
            for al in st.names:
                self.imports[al.asname or al.name] = ("from", src, al.name)
        elif isinstance(st, ast.ClassDef):
            self.classes[st.name] = ClassInfo(st, self)
        elif isinstance(st, ast.FunctionDef):
            self.funcs[st.name] = FuncInfo(st, self)
        elif isinstance(st, ast.Assign):
            for t in st.targets:
                if isinstance(t, ast.Name):
                    self.consts[t.id] = st.value
        elif isinstance(st, (ast.If, ast.Try)):
            for sub in ast.iter_child_nodes(st):
                if isinstance(sub, ast.stmt):
                    self._top(sub)


BUILTIN_EXC = {
    "BaseException": None, "Exception": "BaseException",
    "LookupError": "Exception", "KeyError": "LookupError", "IndexError": "LookupError",
    "ValueError": "Exception", "UnicodeError": "ValueError", "UnicodeDecodeError": "UnicodeError",
    "UnicodeEncodeError": "UnicodeError",
    "TypeError": "Exception", "AttributeError": "Exception", "NameError": "Exception",
    "UnboundLocalError": "NameError", "RuntimeError": "Exception", "ArithmeticError": "Exception",
    "ZeroDivisionError": "ArithmeticError", "OverflowError": "ArithmeticError", "AssertionError": "Exception",
    "StopIteration": "Exception", "NotImplementedError": "RuntimeError", "OSError": "Exception",
}

# attribute names of the two Twisted base classes (A1): only names, by inspect
_EXT_ATTRS = {}


def external_attrs(dotted):
    if dotted in _EXT_ATTRS:
        return _EXT_ATTRS[dotted]
    names = None
    try:
        modname, _, cname = dotted.rpartition(".")
        import importlib
        m = importlib.import_module(modname)
        names = set(dir(getattr(m, cname)))
    except Exception:
        names = None
    if names is None:
        fallback = {
            "twisted.internet.protocol.Protocol": {
                "transport", "connected", "factory", "makeConnection", "connectionMade",
                "dataReceived", "connectionLost", "logPrefix"},
            "twisted.internet.protocol.ReconnectingClientFactory": {
                "maxDelay", "initialDelay", "factor", "jitter", "delay", "retries", "maxRetries",
                "connector", "clock", "continueTrying", "clientConnectionFailed", "clientConnectionLost",
                "retry", "stopTrying", "resetDelay", "buildProtocol", "protocol", "startedConnecting",
                "doStart", "doStop", "startFactory", "stopFactory", "noisy", "numPorts", "forProtocol",
                "logPrefix"},
        }
        names = fallback.get(dotted, set())
    if dotted.endswith(".Protocol"):
        names = set(names) | {"transport"}
    _EXT_ATTRS[dotted] = names
    return names


class NotConst(Exception):
    pass


class Program:
    def __init__(self, sources):
        self.sources = sources
        self.digest = tree_digest(sources)
        self.modules = {}
        for rel, src in sorted(sources.items()):
            m = ModuleInfo(modname_of(rel), rel, src)
            self.modules[m.name] = m
        self.classes = {}
        for m in self.modules.values():
            for c in m.classes.values():
                self.classes[c.qual] = c
        for c in self.classes.values():
            c.bases = [self._resolve_base(c.module, b) for b in c.base_exprs]
        self.funcs = {}
        for m in self.modules.values():
            for f in m.funcs.values():
                self.funcs[f.qual] = f
            for c in m.classes.values():
                for f in c.methods.values():
                    self.funcs[f.qual] = f

    def constructor_helpers(self):
        """Names of methods whose every mention (self.m, Class.m) sits in an __init__ or in another such helper: they run as part of
        a constructor chain and nowhere else."""
        got = getattr(self, "_ctor_helpers", None)
        if got is not None:
            return got
        mentions_of = {}
        for f in self.funcs.values():
            for n in ast.walk(f.node):
                if isinstance(n, ast.Attribute):
                    mentions_of.setdefault(n.attr, set()).add(f.name if f.parent is None else "<nested>")
        helpers = set()
        changed = True
        while changed:
            changed = False
            for f in self.funcs.values():
                if f.cls is None or f.parent is not None or f.name in helpers or f.name.startswith("__"):
                    continue
                users = mentions_of.get(f.name)
                if users and all(u == "__init__" or u in helpers for u in users):
                    helpers.add(f.name)
                    changed = True
        self._ctor_helpers = helpers
        return helpers

    # ---- roles of attribute names, discovered from what is stored into them -------------
    def field_roles(self):
        """{'alarm': names of attributes that receive a callLater() handle, 'loop': ... a LoopingCall,
        'mutable': attribute names assigned outside constructors}.  Attribute names, program-wide."""
        got = getattr(self, "_field_roles", None)
        if got is not None:
            return got
        alarm, loop, mutable, interval = set(), set(), set(), set()

        # helpers that hand back the handle they create (`def _later(self, delay, fn, *args): return self.callLater(delay, fn, *args)`):
        # calling one yields a handle of the same kind
        makers = {"callLater": "alarm", "LoopingCall": "loop"}
        for _round in range(3):
            for g in self.funcs.values():
                if g.name in makers:
                    continue
                rets = [x.value for x in ast.walk(g.node) if isinstance(x, ast.Return) and x.value is not None]
                ks = set()
                for rv in rets:
                    if isinstance(rv, ast.Call):
                        fn_ = rv.func
                        nm_ = fn_.attr if isinstance(fn_, ast.Attribute) else (fn_.id if isinstance(fn_, ast.Name) else "")
                        ks.add(makers.get(nm_))
                    else:
                        ks.add(None)
                if rets and len(ks) == 1 and None not in ks:
                    makers[g.name] = ks.pop()

        def kind_of(v, local_kinds):
            if isinstance(v, ast.Call):
                f = v.func
                nm = f.attr if isinstance(f, ast.Attribute) else (f.id if isinstance(f, ast.Name) else "")
                if nm in makers:
                    return makers[nm]
            if isinstance(v, ast.Name):
                return local_kinds.get(v.id)
            return None
        for f in self.funcs.values():
            # the retry-interval object: the attribute that is called to compute the delay of a callLater()
            local_attr = {}
            for n in ast.walk(f.node):
                if isinstance(n, ast.Assign) and isinstance(n.value, ast.Attribute) and len(n.targets) == 1 and isinstance(n.targets[0], ast.Name):
                    local_attr[n.targets[0].id] = n.value.attr
            delay_roots = []
            for n in ast.walk(f.node):
                if isinstance(n, ast.Call) and (isinstance(n.func, ast.Attribute) and n.func.attr == "callLater"
                                                or isinstance(n.func, ast.Name) and n.func.id == "callLater") and n.args:
                    delay_roots.append(n.args[0])
                    if isinstance(n.args[0], ast.Name):
                        # delay computed into a local first
                        for m in ast.walk(f.node):
                            if isinstance(m, (ast.Assign, ast.AugAssign)) and any(
                                    isinstance(t, ast.Name) and t.id == n.args[0].id for t in (m.targets if isinstance(m, ast.Assign) else [m.target])):
                                delay_roots.append(m.value)
            # the delay handed down as a parameter (a small "arm the timer" helper, possibly through another one: _rearm(request, delay,
            # cb) -> _later(delay, fn, *args) -> callLater): what the callers pass, followed up to three levels
            work = [(f, n, 0) for n in delay_roots]
            while work:
                hf, n, depth = work.pop()
                if not (isinstance(n, ast.Name) and n.id in hf.params) or depth >= 3:
                    continue
                idx = hf.params.index(n.id) - (1 if hf.params and hf.params[0] == "self" else 0)
                for g in self.funcs.values():
                    for c in ast.walk(g.node):
                        if isinstance(c, ast.Call) and (isinstance(c.func, ast.Attribute) and c.func.attr == hf.name
                                                        or isinstance(c.func, ast.Name) and c.func.id == hf.name):
                            arg = c.args[idx] if 0 <= idx < len(c.args) else next((k.value for k in c.keywords if k.arg == n.id), None)
                            if arg is None:
                                continue
                            delay_roots.append(arg)
                            work.append((g, arg, depth + 1))
                            if isinstance(arg, ast.Name):
                                for m in ast.walk(g.node):
                                    if isinstance(m, (ast.Assign, ast.AugAssign)) and any(
                                            isinstance(t, ast.Name) and t.id == arg.id for t in (m.targets if isinstance(m, ast.Assign) else [m.target])):
                                        delay_roots.append(m.value)
            for root in delay_roots:
                for c in ast.walk(root):
                    if isinstance(c, ast.Call):
                        if isinstance(c.func, ast.Attribute) and not isinstance(c.func.value, ast.Name) or \
                                (isinstance(c.func, ast.Attribute) and isinstance(c.func.value, ast.Name) and c.func.value.id not in ("self", "random", "math")):
                            interval.add(c.func.attr)
                        elif isinstance(c.func, ast.Name) and c.func.id in local_attr:
                            interval.add(local_attr[c.func.id])
            local_kinds = {}
            for n in ast.walk(f.node):
                if isinstance(n, ast.Assign):
                    k = kind_of(n.value, local_kinds)
                    for t in n.targets:
                        if isinstance(t, ast.Name) and k:
                            local_kinds[t.id] = k
            for n in ast.walk(f.node):
                tgts = []
                if isinstance(n, ast.Assign):
                    tgts = [(t, n.value) for t in n.targets]
                elif isinstance(n, (ast.AugAssign, ast.AnnAssign)):
                    tgts = [(n.target, n.value)]
                for t, v in tgts:
                    for tt in (t.elts if isinstance(t, (ast.Tuple, ast.List)) else [t]):
                        if isinstance(tt, ast.Attribute):
                            if f.name != "__init__" and not (f.cls is not None and f.parent is None and f.name in self.constructor_helpers()):
                                mutable.add(tt.attr)
                            k = kind_of(v, local_kinds) if v is not None else None
                            if k == "alarm":
                                alarm.add(tt.attr)
                            elif k == "loop":
                                loop.add(tt.attr)
        # fields that mark a request that is never armed (QoS 0): set to None in the very block that gives the request an already
        # fired Deferred (defer.succeed) - testing one of them for None/falsy is testing "has no retry timer"
        qos0 = set()
        for f in self.funcs.values():
            for blk in ast.walk(f.node):
                body = getattr(blk, "body", None)
                for stmts in (body, getattr(blk, "orelse", None)):
                    if not isinstance(stmts, list):
                        continue
                    flat = []
                    for s in stmts:
                        # a, b, c = None, succeed(..), None  reads as the three assignments
                        if isinstance(s, ast.Assign) and len(s.targets) == 1 and isinstance(s.targets[0], ast.Tuple) \
                                and isinstance(s.value, ast.Tuple) and len(s.targets[0].elts) == len(s.value.elts):
                            flat.extend(ast.Assign(targets=[t], value=v) for t, v in zip(s.targets[0].elts, s.value.elts))
                        else:
                            flat.append(s)
                    stmts = flat
                    pre = [s for s in stmts if isinstance(s, ast.Assign) and isinstance(s.value, ast.Call) and (
                        (isinstance(s.value.func, ast.Attribute) and s.value.func.attr == "succeed") or
                        (isinstance(s.value.func, ast.Name) and s.value.func.id == "succeed"))
                        and len(s.targets) == 1 and isinstance(s.targets[0], (ast.Attribute, ast.Name))]
                    if not pre:
                        continue
                    # the fired Deferred goes into a field of the request, or into a local stored there later: then the request
                    # is whatever plain name has fields set to None in this block
                    base = ast.unparse(pre[0].targets[0].value) if isinstance(pre[0].targets[0], ast.Attribute) else None
                    for s in flat:
                        if isinstance(s, ast.Assign) and isinstance(s.value, ast.Constant) and s.value.value is None:
                            for t in s.targets:
                                for tt in (t.elts if isinstance(t, (ast.Tuple, ast.List)) else [t]):
                                    if isinstance(tt, ast.Attribute) and (ast.unparse(tt.value) == base or (
                                            base is None and isinstance(tt.value, ast.Name) and tt.value.id != "self")):
                                        qos0.add(tt.attr)
        self._field_roles = {"alarm": alarm, "loop": loop, "mutable": mutable, "interval": interval, "qos0": qos0 | interval}
        return self._field_roles

    # ---- name resolution -------------------------------------------------
    def resolve(self, module, name, _depth=0):
        """Resolve a module-level name. Returns one of
        ('class', ClassInfo) ('func', FuncInfo) ('const', expr, ModuleInfo)
        ('module', ModuleInfo) ('ext', dotted) or None."""
        if _depth > 10:
            return None
        if name in module.classes:
            return ("class", module.classes[name])
        if name in module.funcs:
            return ("func", module.funcs[name])
        if name in module.consts:
            return ("const", module.consts[name], module)
        if name in module.imports:
            imp = module.imports[name]
            if imp[0] == "mod":
                if imp[1] in self.modules:
                    return ("module", self.modules[imp[1]])
                return ("ext", imp[1])
            _, src, nm = imp
            if src in self.modules:
                sub = src + "." + nm
                if sub in self.modules and nm not in self.modules[src].classes \
                        and nm not in self.modules[src].consts and nm not in self.modules[src].funcs \
                        and nm not in self.modules[src].imports:
                    return ("module", self.modules[sub])
                r = self.resolve(self.modules[src], nm, _depth + 1)
                if r is not None:
                    return r
                return None
            return ("ext", src + "." + nm)
        return None

    def _resolve_base(self, module, expr):
        if isinstance(expr, ast.Name):
            r = self.resolve(module, expr.id)
            if r and r[0] == "class":
                return r[1]
            if r and r[0] == "ext":
                return ("ext", r[1])
            if expr.id == "object":
                return ("ext", "object")
            if expr.id in BUILTIN_EXC:
                return ("ext", expr.id)
            return ("ext", "?" + expr.id)
        if isinstance(expr, ast.Attribute):
            return ("ext", ast.unparse(expr))
        return ("ext", "?" + ast.unparse(expr))

    def mro(self, cls):
        """Linearisation good enough for single inheritance chains (all the repo uses)."""
        out = []
        seen = set()

        def go(c):
            if isinstance(c, ClassInfo):
                if c.qual in seen:
                    return
                seen.add(c.qual)
                out.append(c)
                for b in c.bases:
                    go(b)
            else:
                if c not in seen:
                    seen.add(c)
                    out.append(c)
        go(cls)
        return out

    def lookup_method(self, cls, name):
        for c in self.mro(cls):
            if isinstance(c, ClassInfo) and name in c.methods:
                return c.methods[name]
        return None

    def lookup_classattr(self, cls, name):
        for c in self.mro(cls):
            if isinstance(c, ClassInfo) and name in c.attrs:
                return c, c.attrs[name]
        return None

    def has_external_attr(self, cls, name):
        for c in self.mro(cls):
            if not isinstance(c, ClassInfo) and c[0] == "ext":
                if name in external_attrs(c[1]):
                    return True
        return False

    def is_subclass(self, cls, other_qual):
        return any(isinstance(c, ClassInfo) and c.qual == other_qual for c in self.mro(cls))

    # ---- exception hierarchy ---------------------------------------------
    def exc_chain(self, name):
        """name: class qual (repo) or builtin name -> list of names up to BaseException."""
        out = []
        cur = name
        guard = 0
        while cur is not None and guard < 30:
            guard += 1
            out.append(cur)
            if cur in self.classes:
                c = self.classes[cur]
                nxt = None
                for b in c.bases:
                    if isinstance(b, ClassInfo):
                        nxt = b.qual
                        break
                    if b[0] == "ext":
                        nm = b[1].split(".")[-1].lstrip("?")
                        nxt = nm if nm in BUILTIN_EXC else None
                        break
                cur = nxt
            elif cur in BUILTIN_EXC:
                cur = BUILTIN_EXC[cur]
            else:
                cur = None
        return out

    def exc_is(self, name, base):
        """Is exception class `name` a subclass of `base` (both quals or builtin names)?"""
        return base in self.exc_chain(name)

    # ---- constant folding -----------------------------------------------
    def fold(self, expr, module, cls=None, env=None, _depth=0, class_body=False):
        """class_body: the expression is the value of a class attribute, evaluated in the class body, where the names of the
        class's earlier attributes are visible (in a method body they are not)."""
        if _depth > 20:
            raise NotConst()
        f = lambda e: self.fold(e, module, cls, env, _depth + 1, class_body)
        if isinstance(expr, ast.Constant):
            return expr.value
        if isinstance(expr, ast.Name):
            if env and expr.id in env:
                return env[expr.id]
            if cls is not None and class_body:
                r = self.lookup_classattr(cls, expr.id)
                if r:
                    return self.fold(r[1], r[0].module, r[0], None, _depth + 1, True)
            r = self.resolve(module, expr.id)
            if r and r[0] == "const":
                return self.fold(r[1], r[2], None, None, _depth + 1)
            if expr.id in ("True", "False", "None"):
                return {"True": True, "False": False, "None": None}[expr.id]
            raise NotConst()
        if isinstance(expr, ast.Attribute):
            if isinstance(expr.value, ast.Name) and expr.value.id == "self" and cls is not None:
                r = self.lookup_classattr(cls, expr.attr)
                roles = getattr(self, "_field_roles", None)
                if r and roles is not None and expr.attr in roles["mutable"]:
                    raise NotConst()      # a class-level default of a field that instances assign
                if r:
                    return self.fold(r[1], r[0].module, r[0], None, _depth + 1, True)
            raise NotConst()
        if isinstance(expr, ast.UnaryOp):
            v = f(expr.operand)
            try:
                if isinstance(expr.op, ast.USub):
                    return -v
                if isinstance(expr.op, ast.UAdd):
                    return +v
                if isinstance(expr.op, ast.Invert):
                    return ~v
                if isinstance(expr.op, ast.Not):
                    return not v
            except Exception:
                raise NotConst()
        if isinstance(expr, ast.BinOp):
            a, b = f(expr.left), f(expr.right)
            try:
                return fold_binop(expr.op, a, b)
            except NotConst:
                raise
            except Exception:
                raise NotConst()
        if isinstance(expr, (ast.Tuple, ast.List)):
            vals = [f(e) for e in expr.elts]
            return tuple(vals) if isinstance(expr, ast.Tuple) else vals
        if isinstance(expr, ast.Dict):
            return {f(k): f(v) for k, v in zip(expr.keys, expr.values)}
        if isinstance(expr, ast.Subscript):
            base = f(expr.value)
            key = f(expr.slice)
            try:
                return base[key]
            except Exception:
                raise NotConst()
        if isinstance(expr, ast.Call) and isinstance(expr.func, ast.Name) and expr.func.id == "len" \
                and len(expr.args) == 1:
            v = f(expr.args[0])
            try:
                return len(v)
            except Exception:
                raise NotConst()
        raise NotConst()

    def try_fold(self, expr, module, cls=None, env=None, class_body=False):
        try:
            return True, self.fold(expr, module, cls, env, 0, class_body)
        except NotConst:
            return False, None


def fold_binop(op, a, b):
    if isinstance(a, (str, bytes)) and isinstance(op, ast.Mod):
        return a % b
    if isinstance(a, str) and isinstance(b, str) and isinstance(op, ast.Add):
        return a + b
    if not isinstance(a, (int, float, bool)) or not isinstance(b, (int, float, bool)):
        raise NotConst()
    if isinstance(op, ast.Add):
        return a + b
    if isinstance(op, ast.Sub):
        return a - b
    if isinstance(op, ast.Mult):
        return a * b
    if isinstance(op, ast.FloorDiv):
        return a // b
    if isinstance(op, ast.Div):
        return a / b
    if isinstance(op, ast.Mod):
        return a % b
    if isinstance(op, ast.Pow):
        if abs(b) > 64:
            raise NotConst()
        return a ** b
    if isinstance(op, ast.LShift):
        if b > 64:
            raise NotConst()
        return a << b
    if isinstance(op, ast.RShift):
        return a >> b
    if isinstance(op, ast.BitOr):
        return a | b
    if isinstance(op, ast.BitAnd):
        return a & b
    if isinstance(op, ast.BitXor):
        return a ^ b
    raise NotConst()


# ---- A0: closed-world audit -----------------------------------------------

REFLECTIVE_CALLS = {"getattr", "setattr", "delattr", "exec", "eval", "globals", "locals", "vars",
                    "__import__", "compile"}
REFLECTIVE_ATTRS = {"__dict__", "__getattr__", "__setattr__", "__getattribute__", "__delattr__",
                    "__class_getitem__", "__init_subclass__"}


def closed_world_audit(prog):
    """Returns (modelled_sites, offending_sites). Exactly the `_handle%s` getattr is modelled."""
    modelled, offending = [], []
    for m in prog.modules.values():
        for node in ast.walk(m.tree):
            if isinstance(node, ast.Call) and isinstance(node.func, ast.Name) and node.func.id in REFLECTIVE_CALLS:
                ok = False
                if node.func.id in ("getattr", "setattr") and len(node.args) in (2, 3):
                    # modelled by the walker as a plain attribute read / store; it refuses (analysis error) a name that is not a
                    # constant on the path at hand
                    ok = True
                (modelled if ok else offending).append((m.path, node.lineno, ast.unparse(node)))
            elif isinstance(node, ast.Attribute) and node.attr in REFLECTIVE_ATTRS:
                offending.append((m.path, node.lineno, ast.unparse(node)))
            elif isinstance(node, ast.FunctionDef) and node.name in REFLECTIVE_ATTRS:
                offending.append((m.path, node.lineno, "def " + node.name))
            elif isinstance(node, ast.ClassDef):
                for kw in node.keywords:
                    if kw.arg == "metaclass":
                        offending.append((m.path, node.lineno, "metaclass"))
                for d in node.decorator_list:
                    txt = ast.unparse(d)
                    if not txt.startswith("implementer("):
                        offending.append((m.path, node.lineno, "@" + txt))
            elif isinstance(node, ast.FunctionDef) and node.decorator_list:
                for d in node.decorator_list:
                    if isinstance(d, ast.Name) and d.id in ("staticmethod", "property", "classmethod"):
                        continue      # modelled: called without binding a receiver (classmethod: the class bound to its first parameter) /
                                      # read-only accessor inlined at the attribute read
                    offending.append((m.path, node.lineno, "@" + ast.unparse(d)))
    return modelled, offending
