"""A6: timer-handle typestate (NONE / PENDING / FIRED) decided from trigger contexts and lifecycle facts."""
from .model import AnalysisError
from .terms import SELF, FAC, NONE, show, is_const, mentions, subterms
from .fieldroles import no_interval
from .catalogue import catalogue
from .lifecycle import lifecycle, cancels, loop_over
from .rules.common import contexts, where, short, types, cls_short, kind_names

KIND_REG = {"PUBLISH": "windowPublish", "PUBREL": "windowPubRelease", "SUBSCRIBE": "windowSubscribe",
            "UNSUBSCRIBE": "windowUnsubscribe"}
TIMED = ("windowPublish", "windowPubRelease", "windowSubscribe", "windowUnsubscribe")


class Handles:
    def __init__(self, analysis, cls):
        self.a = analysis
        self.cls = cls
        self.cat = catalogue(analysis, cls)
        self.eng = self.cat.eng
        self.ty = types(analysis)
        self.lc = lifecycle(analysis, cls)
        # the keepalive bookkeeping object: the protocol attribute the constructor chain binds to a PINGREQ
        # - or to a helper object of a repository class that holds the PINGREQ (or its encoding) in one of its own fields
        self.ping_attr, self.ping, self.ping_packet = None, None, None
        heap = self.eng.init_heap

        def is_ping(v):
            return isinstance(v, tuple) and len(v) > 1 and v[0] == "new" and "PINGREQ" in kind_names(self.a, {v[1]})
        for (obj, field), val in heap.items():
            if obj == SELF and is_ping(val):
                self.ping_attr, self.ping, self.ping_packet = field, val, val
        if self.ping is None:
            for (obj, field), val in heap.items():
                if obj != SELF or not (isinstance(val, tuple) and val and val[0] == "new"):
                    continue
                held = [v if is_ping(v) else v[1] for (o, _f), v in heap.items() if o == val
                        and (is_ping(v) or (isinstance(v, tuple) and len(v) > 1 and v[0] == "encres" and is_ping(v[1])))]
                if held:
                    self.ping_attr, self.ping, self.ping_packet = field, val, held[0]
        roles = analysis.prog.field_roles()
        self.alarm_fields, self.loop_fields = roles["alarm"], roles["loop"]
        self._none_stores = None

    def logical(self, field):
        """'alarm' for an attribute that holds callLater handles, 'timer' for one that holds a LoopingCall."""
        if field in self.alarm_fields:
            return "alarm"
        if field in self.loop_fields:
            return "timer"
        return field

    def can_register(self, reg):
        if not hasattr(self, "_canreg"):
            self._canreg = {e.a["reg"] for tr in contexts(self.cat) for e in tr.events if e.kind == "REG"}
        return reg in self._canreg

    # ---- locations --------------------------------------------------------------
    def obj_location(self, obj, tr):
        """Abstract owner of a handle field: ('ping',) ('conn',) ('win', registry) or None."""
        if obj is None:
            return None
        if obj == self.ping or (self.ping_attr is not None and obj == ("attr", SELF, self.ping_attr)):
            return ("ping",)
        if obj == ("attr", SELF, "connReq"):
            return ("conn",)
        if isinstance(obj, tuple) and obj and obj[0] == "maybe":
            return self.obj_location(obj[1], tr)       # dict.get(key[, default]): the entry, if present
        if isinstance(obj, tuple) and obj:
            if obj[0] in ("elem", "popped"):
                if obj[1] in TIMED:
                    return ("win", obj[1])
                if obj[1] == "queuePublishTx":
                    return ("win", "windowPublish")
            if obj[0] == "captured":
                # closure variable of a deadline closure: the CONNECT request of doConnect
                return ("conn",) if obj[1] == "request" else None
            cls = set()
            if obj[0] == "new":
                cls = kind_names(self.a, {obj[1]})
            elif obj[0] == "param" and tr is not None and tr.kind == "TIMER":
                cls = {c.split(".")[-1] for c in self.ty.class_of(obj, self.eng, timer_func=tr.entry.func.qual)}
            if "CONNECT" in cls:
                return ("conn",)
            if "PINGREQ" in cls:
                return ("ping",)
            regs = {KIND_REG[c] for c in cls if c in KIND_REG}
            if len(regs) == 1:
                return ("win", regs.pop())
        return None

    def handle_location(self, h, tr):
        if isinstance(h, tuple) and h[0] == "attr":
            o = self.obj_location(h[1], tr)
            if o is not None:
                return o + (self.logical(h[2]),)
        return None

    # ---- where is a location set to None ---------------------------------------------
    def none_stores(self):
        if self._none_stores is None:
            out = {}
            for tr in contexts(self.cat):
                for e in tr.events:
                    if e.kind == "SETATTR" and e.a["val"] == NONE:
                        loc = self.obj_location(e.a["obj"], tr)
                        if loc is not None:
                            out.setdefault(loc + (self.logical(e.a["field"]),), []).append((tr, e))
            # constructor chain
            for e in self.eng.init_events:
                if e.kind == "SETATTR" and e.a["val"] == NONE:
                    loc = self.obj_location(e.a["obj"], None)
                    if loc is not None:
                        out.setdefault(loc + (self.logical(e.a["field"]),), []).append((None, e))
            self._none_stores = out
        return self._none_stores

    @staticmethod
    def guarded(e, h):
        """Is event e control-dependent on a truthiness / non-None test of handle term h?"""
        for c in e.conds:
            t, pol = c.term, c.pol
            while isinstance(t, tuple) and t and t[0] == "not":
                t, pol = t[1], not pol
            if t == h and pol:
                return "truthy"
            if isinstance(t, tuple) and t and t[0] == "nonnull" and t[1] == h and pol:
                return "nonnull"
            if isinstance(t, tuple) and t and t[0] == "call" and t[1] == ("attr", h, "active") and pol:
                return "active"
        return None

    # ---- H3: method call on a handle that may be None -----------------------------------
    def enclosing_try(self, e, names=("AttributeError",)):
        """The innermost try statement whose body holds the construct of event e (or a call site on its stack) and whose handlers catch one of
        `names` (by that name, a base class of it, or bare); None when the exception leaves the entry point."""
        import ast
        bases = set(names) | {"Exception", "BaseException"}
        sites = [(e.file, e.line)] + [(f, l) for f, l, _ in reversed(e.stack)]
        # disarm = request.alarm.cancel ... disarm(): the AttributeError of a None handle is raised where the bound method is fetched
        nd = getattr(e, "node", None)
        if isinstance(nd, ast.Call) and isinstance(nd.func, ast.Name):
            fn = self.a.prog.funcs.get(e.func)
            if fn is not None:
                fetch = [x for x in ast.walk(fn.node) if isinstance(x, ast.Assign) and len(x.targets) == 1 and isinstance(x.targets[0], ast.Name)
                         and x.targets[0].id == nd.func.id]
                if len(fetch) == 1 and isinstance(fetch[0].value, ast.Attribute) and fetch[0].value.attr in ("cancel", "stop"):
                    sites = [(e.file, fetch[0].lineno)]
        for f, l in sites:
            mod = next((m for m in self.a.prog.modules.values() if m.path == f or m.path.endswith("/" + f) or f.endswith("/" + m.path)), None)
            if mod is None:
                continue
            best = None
            for t in ast.walk(mod.tree):
                if isinstance(t, ast.With) and t.body and t.body[0].lineno <= l <= (t.body[-1].end_lineno or t.body[-1].lineno) \
                        and len(t.items) == 1 and isinstance(t.items[0].context_expr, ast.Call) \
                        and (getattr(t.items[0].context_expr.func, "id", None) == "suppress" or getattr(t.items[0].context_expr.func, "attr", None) == "suppress"):
                    # with suppress(E): the same as try/except E: pass
                    nm = {x.id if isinstance(x, ast.Name) else (x.attr if isinstance(x, ast.Attribute) else None) for x in t.items[0].context_expr.args}
                    if nm & bases and (best is None or t.lineno >= best[0].lineno):
                        best = (t, l)
                    continue
                if not isinstance(t, ast.Try) or not t.body or not (t.body[0].lineno <= l <= (t.body[-1].end_lineno or t.body[-1].lineno)):
                    continue
                for h in t.handlers:
                    ts = [] if h.type is None else (list(h.type.elts) if isinstance(h.type, ast.Tuple) else [h.type])
                    nm = {x.id if isinstance(x, ast.Name) else (x.attr if isinstance(x, ast.Attribute) else None) for x in ts}
                    if h.type is None or (nm & bases):
                        if best is None or t.lineno >= best[0].lineno:
                            best = (t, l)
            if best is not None:
                return best
        return None

    @staticmethod
    def abandons(trynode, line):
        """Does an exception raised at `line` inside this try skip further handle clean-up: the rest of a loop it is in, or later
        cancel()/stop() calls of the try body?"""
        import ast
        for s in trynode.body:
            for x in ast.walk(s):
                if isinstance(x, (ast.For, ast.While)) and x.lineno <= line <= (x.end_lineno or x.lineno):
                    return "the loop it is in is abandoned at the first such entry"
        for s in trynode.body:
            if s.lineno > line:
                for x in ast.walk(s):
                    if isinstance(x, ast.Call) and isinstance(x.func, ast.Attribute) and x.func.attr in ("cancel", "stop"):
                        return "the clean-up that follows it in the try body is skipped"
        return None

    def none_deref(self):
        """Yields (tr, event, location, reason) for unguarded cancel/stop on a possibly-None handle whose AttributeError is not caught."""
        for tr, e, loc, reason in self._none_deref():
            if self.enclosing_try(e) is None:
                yield tr, e, loc, reason

    def none_deref_caught(self):
        """The same hazard where a try/except catches the AttributeError: yields (tr, event, location, reason, what is skipped or None)."""
        for tr, e, loc, reason in self._none_deref():
            t = self.enclosing_try(e)
            if t is not None:
                yield tr, e, loc, reason, self.abandons(*t)

    def _none_deref(self):
        ns = self.none_stores()
        lc = self.lc
        for tr in contexts(self.cat):
            if not tr.decode_ok:
                continue
            armed_here = set()
            for e in tr.events:
                if e.kind == "SETATTR" and isinstance(e.a["val"], tuple) and e.a["val"][0] in ("timer", "loopcall"):
                    armed_here.add(("attr", e.a["obj"], e.a["field"]))
                if e.kind != "CANCEL":
                    continue
                h = e.a["handle"]
                loc = self.handle_location(h, tr)
                if loc is None:
                    continue
                if self.guarded(e, h) or h in armed_here:
                    continue
                if loc not in ns:
                    continue       # never None anywhere
                if loc[0] == "win":
                    reg = loc[1]
                    # elements with a cleared alarm exist in a later connection only if the loss path keeps them;
                    # they are re-armed before any packet is handled if the resume path re-sends the registry
                    if tr.kind == "NET" and tr.slot == "CONNECTED":
                        if not lc.loss_keeps(reg) or lc.resume_rearms(reg):
                            continue
                        reason = ("%s keeps its entries over a non-clean loss with the alarm set to None and the resume path does "
                                  "not re-arm them" % reg)
                    elif tr.kind == "TIMER":
                        continue   # own timer: the handle exists (it just fired)
                    else:
                        reason = "alarm of an entry of %s can be None here" % reg
                    yield tr, e, loc, reason
                elif loc[0] == "ping":
                    yield tr, e, loc, "the keepalive handle is None until a PINGREQ is outstanding / after it was answered"
                else:
                    yield tr, e, loc, "handle can be None"

    # ---- H4: cancel on a handle that already fired ------------------------------------------
    def fired_handles(self):
        """Yields (timer entry, path, location, cancel context, cancel event)."""
        arm_loc = {}
        for tr in contexts(self.cat):
            for e in tr.events:
                if e.kind == "ARM" and e.a["how"] != "LoopingCall.start":
                    st = [x for x in tr.events if x.kind == "SETATTR" and x.a["val"] == e.a["handle"]]
                    if st:
                        loc = self.obj_location(st[0].a["obj"], tr)
                        key, func, _ = self.cat._target(e.a["target"])
                        if loc is not None and func is not None:
                            arm_loc.setdefault(func.qual, set()).add(loc + (self.logical(st[0].a["field"]),))
        for ent in self.cat.by_kind("TIMER"):
            locs = arm_loc.get(ent.func.qual, set())
            for loc in sorted(locs):
                for p in ent.paths:
                    evs = list(p.walk())
                    tr0 = next((t for t in contexts(self.cat) if t.path is p), None)
                    renewed = False
                    for e in evs:
                        if e.kind == "SETATTR":
                            l2 = self.obj_location(e.a["obj"], tr0)
                            if l2 is not None and l2 + (self.logical(e.a["field"]),) == loc:
                                renewed = True
                    if renewed:
                        continue
                    facts = p.st.facts if p.st is not None else {}
                    if no_interval(facts):
                        continue    # a request without interval object is never armed (checked correlation, C08)
                    aborted = any(e.kind == "CLOSE" and e.a["how"] == "abortConnection" for e in evs)
                    for tr in contexts(self.cat):
                        if aborted and tr.kind != "LOSS":
                            continue
                        for e in tr.events:
                            if e.kind == "CANCEL" and self.handle_location(e.a["handle"], tr) == loc:
                                if self.guarded(e, e.a["handle"]) == "active":
                                    continue
                                yield ent, p, loc, tr, e

    # ---- H6: a periodic call created on one path and started on another: stop() in between asserts ----------------
    def unstarted_loops(self):
        """LoopingCall.stop() asserts that the loop is running.  A LoopingCall stored in a handle location on a path that does not start it
        can be found there, not running, by whatever stops that location under a not-None / truthiness test only.
        Yields (creating context, LOOPNEW event, location, stopping context, CANCEL event)."""
        for tr in contexts(self.cat):
            evs = tr.events
            for i, e in enumerate(evs):
                if e.kind != "LOOPNEW":
                    continue
                h = e.a["handle"]
                st = [x for x in evs[i:] if x.kind == "SETATTR" and x.a["val"] == h]
                if not st:
                    continue
                loc = self.obj_location(st[0].a["obj"], tr)
                if loc is None:
                    continue
                loc = loc + (self.logical(st[0].a["field"]),)
                where_ = ("attr", st[0].a["obj"], st[0].a["field"])
                if any(x.kind == "ARM" and x.a.get("how") == "LoopingCall.start" and x.a.get("handle") in (h, where_) for x in evs[i:]):
                    continue
                for tr2 in contexts(self.cat):
                    for e2 in tr2.events:
                        if e2.kind == "CANCEL" and e2.a.get("how") == "stop" and self.handle_location(e2.a["handle"], tr2) == loc:
                            yield tr, e, loc, tr2, e2
                            break
                    else:
                        continue
                    break

    # ---- H5: a cancelled handle left stored, cancelled again later ------------------------------------------
    def cancelled_kept(self):
        """Yields (context, cancel event, location, later context, later cancel event): a path cancels the handle stored at a
        location and neither clears / re-arms that location nor removes the owning entry from its registry, and another context
        cancels the same location guarded by nothing stronger than "is not None" - cancel() of a cancelled call raises."""
        cancels_at = {}
        for tr in contexts(self.cat):
            for e in tr.events:
                if e.kind == "CANCEL":
                    loc = self.handle_location(e.a["handle"], tr)
                    if loc is not None and self.guarded(e, e.a["handle"]) != "active":
                        cancels_at.setdefault(loc, []).append((tr, e))
        seen = set()
        for tr in contexts(self.cat):
            if not tr.decode_ok or tr.path.exit_kind() == "raise":
                continue
            evs = tr.events
            for i, e in enumerate(evs):
                if e.kind != "CANCEL" or not isinstance(e.a["handle"], tuple) or e.a["handle"][0] != "attr":
                    continue
                h = e.a["handle"]
                loc = self.handle_location(h, tr)
                if loc is None:
                    continue
                if loc[0] == "win":
                    # window entries: their removal / re-arming is the business of the retry rules - except on the loss path of a
                    # registry that survives a non-clean loss: an alarm cancelled there and left stored is cancelled again by the
                    # next loss, if that comes before the CONNACK has re-armed it
                    if tr.kind != "LOSS" or not self.lc.loss_keeps(loc[1]):
                        continue
                    later_w = evs[i + 1:]
                    cleared = any(x.kind == "SETATTR" and x.a["obj"] == h[1] and x.a["field"] == h[2] for x in later_w) or \
                        any(x.kind == "SETATTR" and x.a["obj"] == h[1] and x.a["field"] == h[2] and x.a.get("prev") == h for x in evs[:i])
                    if not cleared and self.guarded(e, h) != "active":
                        key = (e.file, e.line, loc)
                        if key not in seen:
                            seen.add(key)
                            yield tr, e, loc, tr, e
                    continue
                later = evs[i + 1:]
                renewed = any(x.kind == "SETATTR" and x.a["obj"] == h[1] and x.a["field"] == h[2] for x in later)
                # handle, x.alarm = x.alarm, None ... handle.cancel(): the location was cleared before the cancel; what is cancelled is
                # the value it held before (the store's `prev`)
                renewed = renewed or any(x.kind == "SETATTR" and x.a["obj"] == h[1] and x.a["field"] == h[2] and x.a.get("prev") == h
                                         for x in evs[:i])
                if renewed:
                    continue
                others = [(t2, e2) for t2, e2 in cancels_at.get(loc, []) if e2 is not e and (t2.kind == "LOSS" or t2 is not tr)]
                # only a context that can follow: the loss of the connection always can
                others = [(t2, e2) for t2, e2 in others if t2.kind == "LOSS"]
                key = (e.file, e.line, loc)
                if others and key not in seen:
                    seen.add(key)
                    yield tr, e, loc, others[0][0], others[0][1]

    # ---- R-LOSS ----------------------------------------------------------------------
    def loss_obligations(self):
        """For each loss path: (path-context, what, ok, event/None)."""
        out = []
        for tr in self.lc.loss:
            if tr.path.exit_kind() == "raise":
                out.append((tr, "loss path completes", False, None))
                continue
            evs = tr.path.events
            st = [e for e in evs if e.kind == "STATE"]
            idle_at = evs.index(st[-1]) if st else len(evs)
            pre = evs[:idle_at]
            for fld in ("timer", "alarm"):
                cn = [e for e in pre if e.kind == "CANCEL" and self.handle_location(e.a["handle"], tr) == ("ping", fld)]
                cl = [e for e in pre if e.kind == "SETATTR" and self.obj_location(e.a["obj"], tr) == ("ping",) and self.logical(e.a["field"]) == fld
                      and e.a["val"] == NONE]
                facts = tr.path.st.facts if tr.path.st is not None else {}
                absent = any(isinstance(k, tuple) and k[0] in ("truthy", "nonnull") and v is False
                             and self.handle_location(k[1], tr) == ("ping", fld) for k, v in facts.items())
                out.append((tr, "keepalive %s stopped and cleared before IDLE" % fld, absent or (bool(cn) and bool(cl)), cn[0] if cn else None))
            for reg in TIMED:
                if not self.can_register(reg):
                    continue
                ok, lp = cancels(pre, reg)
                out.append((tr, "retry alarms of %s cancelled before IDLE" % reg, ok, lp))
        return out


def handles(analysis, cls):
    d = analysis.__dict__.setdefault("_handles", {})
    if cls.qual not in d:
        d[cls.qual] = Handles(analysis, cls)
    return d[cls.qual]
