"""Self-validation corpus (DESIGN 3.5): in-memory variants of the current tree, each with a reviewed ground truth.

B variants break one rule instance while the module still compiles: the named rule must fire.
N variants are behaviour-preserving twins: no rule of the property may fire (beyond the baseline findings).
A variant whose anchor text no longer occurs exactly once is skipped and counted."""
import ast
import importlib
import os
from concurrent.futures import ProcessPoolExecutor

from .model import load_sources, AnalysisError
from .report import Ctx, load_known


def apply_variant(sources, v):
    out = dict(sources)
    import re
    for (rel, old, new) in v["edits"]:
        if rel == "*":
            # identifier renamed everywhere
            hit = False
            for k in list(out):
                t = re.sub(r"\b%s\b" % re.escape(old), new, out[k])
                if t != out[k]:
                    hit = True
                    out[k] = t
            if not hit:
                return None
            continue
        if rel not in out or out[rel].count(old) != 1:
            return None
        out[rel] = out[rel].replace(old, new)
    for rel in out:
        try:
            compile(out[rel], rel, "exec", dont_inherit=True)
        except SyntaxError:
            return None
    return out


def _run_one(args):
    prop, v, baseline_keys = args
    from .engine import Analysis
    sources = load_sources()
    src = apply_variant(sources, v)
    if src is None:
        return (v["name"], "skipped", [])
    mod = importlib.import_module("sa.rules." + prop.lower())
    try:
        a = Analysis(sources=src)
        ctx = Ctx(prop, a, "selftest")
        mod.check(ctx)
        from .report import finish
        new = sorted({(f.rule, f.construct) for f in ctx.findings} - set(baseline_keys))
        if not new:
            for what, seen, fl in ctx.floors:
                if seen < fl:
                    raise AnalysisError("floor %s" % what)
        return (v["name"], "ran", new)
    except AnalysisError as e:
        return (v["name"], "analysis-error", [("ANALYSIS-ERROR", str(e))])


def run_for(prop, mod, baseline_findings=None, jobs=None):
    corpus_mod = importlib.import_module("sa.corpus")
    variants = [v for v in corpus_mod.VARIANTS if prop in v["props"]]
    known = {(k["rule"], k["construct"]) for k in load_known() if k.get("property") == prop and k.get("status") == "known"}
    baseline = sorted({(f.rule, f.construct) for f in (baseline_findings or [])})
    unlisted_baseline = [b for b in baseline if b not in known]
    if unlisted_baseline:
        return {"variants": len(variants), "note": "corpus not run: the tree itself has unlisted findings"}
    jobs = jobs or min(16, os.cpu_count() or 4)
    res = []
    if variants:
        with ProcessPoolExecutor(max_workers=jobs) as ex:
            res = list(ex.map(_run_one, [(prop, v, baseline) for v in variants]))
    table = []
    wrong = []
    nb = nn = skipped = 0
    for v, (name, status, new) in zip(variants, res):
        exp = v["expect"].get(prop)
        row = {"name": name, "kind": v["kind"], "status": status, "fired": ["%s %s" % x for x in new][:4]}
        if status == "skipped":
            skipped += 1
            row["verdict"] = "skipped"
        elif v["kind"] == "N":
            nn += 1
            ok = not new
            row["verdict"] = "silent as expected" if ok else "FALSE ALARM"
            if not ok:
                wrong.append(row)
        else:
            nb += 1
            fired_rules = {r for r, _ in new}
            ok = bool(new) and (exp is None or bool(fired_rules & set(exp)) or status == "analysis-error" and "ANALYSIS-ERROR" in (exp or []))
            row["verdict"] = "fired as expected" if ok else "MISSED"
            if not ok:
                wrong.append(row)
        table.append(row)
    out = {"variants": len(variants), "breaking_run": nb, "neutral_run": nn, "skipped": skipped,
           "wrong": len(wrong), "table": table}
    if wrong:
        raise AnalysisError("selftest: checker gives the wrong outcome on %d corpus variants: %s" % (
            len(wrong), [(w["name"], w["verdict"]) for w in wrong][:5]))
    return out
