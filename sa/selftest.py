"""Self-validation corpus (DESIGN 3.5): in-memory variants of the current tree, each with a reviewed ground truth.

B variants break one rule instance while the module still compiles: the named rule must fire.
N variants are behaviour-preserving twins: no rule of the property may fire (beyond the baseline findings).
A variant whose anchor text no longer occurs exactly once is skipped and counted."""
import ast
import importlib
import os
from concurrent.futures import ProcessPoolExecutor

from .model import load_sources, AnalysisError
from .report import Ctx, load_known


def apply_variant(sources, v):
    out = dict(sources)
    import re
    for (rel, old, new) in v["edits"]:
        if rel == "*":
            # identifier renamed everywhere
            hit = False
            for k in list(out):
                t = re.sub(r"\b%s\b" % re.escape(old), new, out[k])
                if t != out[k]:
                    hit = True
                    out[k] = t
            if not hit:
                return None
            continue
        if rel not in out or out[rel].count(old) != 1:
            return None
        out[rel] = out[rel].replace(old, new)
    for rel in out:
        try:
            compile(out[rel], rel, "exec", dont_inherit=True)
        except SyntaxError:
            return None
    return out


def patched_sources(patch):
    """Sources of the current tree with a unified diff applied (scratch copy under the system temp dir, removed at once);
    None if the patch does not apply to the current tree."""
    import shutil
    import subprocess
    import tempfile
    from .model import REPO
    tmp = tempfile.mkdtemp(prefix="vp_neutral_")
    try:
        shutil.copytree(os.path.join(REPO, "src"), os.path.join(tmp, "src"),
                        ignore=shutil.ignore_patterns("test", "tests", "__pycache__", "*.pyc", "*.egg-info"))
        r = subprocess.run(["git", "apply", "--whitespace=nowarn", patch], cwd=tmp, capture_output=True, text=True)
        if r.returncode != 0:
            return None
        return load_sources(tmp)
    finally:
        shutil.rmtree(tmp, ignore_errors=True)


def neutral_variants():
    """The behaviour-preserving refactorings kept under neutral/ (written by independent sub-agents, each confirmed against
    the real code): every property's rules must stay silent on every one of them."""
    base = os.path.join(os.path.dirname(os.path.dirname(os.path.abspath(__file__))), "neutral")
    out = []
    if os.path.isdir(base):
        for d in sorted(os.listdir(base)):
            pth = os.path.join(base, d, "patch.diff")
            if os.path.exists(os.path.join(base, d, "PENDING")):
                continue     # kept, confirmed, but the checks are not yet silent on it (see the file and DESIGN.md 9.5b)
            if os.path.exists(pth):
                out.append({"name": "neutral/%s (refactoring by a sub-agent)" % d, "kind": "N", "props": None, "patch": pth, "expect": {}})
    return out


def seeded_variants(prop):
    """The property-breaking changes kept under seeded/ (written by independent sub-agents, each confirmed against the real
    code with a demonstration): the check of the property a change breaks must report it.  A change whose patch no longer
    applies to the current tree is skipped (and listed as such)."""
    import json
    base = os.path.join(os.path.dirname(os.path.dirname(os.path.abspath(__file__))), "seeded")
    out = []
    if os.path.isdir(base):
        for d in sorted(os.listdir(base)):
            pth = os.path.join(base, d, "patch.diff")
            meta = os.path.join(base, d, "meta.json")
            if not (os.path.exists(pth) and os.path.exists(meta)):
                continue
            try:
                with open(meta) as fh:
                    broken = json.load(fh).get("breaks_property")
            except ValueError:
                continue
            if broken == prop:
                out.append({"name": "seeded/%s (change by a sub-agent that breaks %s)" % (d, prop), "kind": "B", "props": [prop],
                            "patch": pth, "expect": {}})
    return out


def twin_variants(prop):
    """The other-way tests of the readings added for refactored shapes (twins/<name>/: a kept refactoring plus one exact-text break made
    in the refactored source, stored as one diff against the tree; tools/mktwin.py): the check of every property named in the twin's
    meta.json must report it.  A twin whose patch no longer applies is skipped like a stale seed."""
    import json
    base = os.path.join(os.path.dirname(os.path.dirname(os.path.abspath(__file__))), "twins")
    out = []
    if os.path.isdir(base):
        for d in sorted(os.listdir(base)):
            pth = os.path.join(base, d, "patch.diff")
            meta = os.path.join(base, d, "meta.json")
            if not (os.path.exists(pth) and os.path.exists(meta)):
                continue
            try:
                with open(meta) as fh:
                    m = json.load(fh)
            except ValueError:
                continue
            if prop in m.get("breaks", []):
                out.append({"name": "twins/%s (%s, broken: %s)" % (d, m.get("base"), m.get("what", "")), "kind": "B", "props": [prop],
                            "patch": pth, "expect": {}})
    return out


def _run_one(args):
    prop, v, baseline_keys = args
    from .engine import Analysis
    if "patch" in v:
        src = patched_sources(v["patch"])
    else:
        sources = load_sources()
        src = apply_variant(sources, v)
    if src is None:
        return (v["name"], "skipped", [])
    mod = importlib.import_module("sa.rules." + prop.lower())
    try:
        a = Analysis(sources=src)
        ctx = Ctx(prop, a, "selftest")
        mod.check(ctx)
        from .report import finish
        new = sorted({(f.rule, f.construct) for f in ctx.findings} - set(baseline_keys))
        if not new:
            for what, seen, fl in ctx.floors:
                if seen < fl:
                    raise AnalysisError("floor %s" % what)
        return (v["name"], "ran", new)
    except AnalysisError as e:
        return (v["name"], "analysis-error", [("ANALYSIS-ERROR", str(e))])


def run_for(prop, mod, baseline_findings=None, jobs=None):
    corpus_mod = importlib.import_module("sa.corpus")
    variants = [v for v in corpus_mod.VARIANTS if prop in v["props"]] + neutral_variants() + seeded_variants(prop) + twin_variants(prop)
    known = {(k["rule"], k["construct"]) for k in load_known() if k.get("property") == prop and k.get("status") == "known"}
    baseline = sorted({(f.rule, f.construct) for f in (baseline_findings or [])})
    unlisted_baseline = [b for b in baseline if b not in known]
    if unlisted_baseline:
        return {"variants": len(variants), "note": "corpus not run: the tree itself has unlisted findings"}
    jobs = jobs or min(16, os.cpu_count() or 4)
    res = []
    if variants:
        with ProcessPoolExecutor(max_workers=jobs) as ex:
            res = list(ex.map(_run_one, [(prop, v, baseline) for v in variants]))
    table = []
    wrong = []
    nb = nn = skipped = noverdict = 0
    for v, (name, status, new) in zip(variants, res):
        exp = v["expect"].get(prop)
        row = {"name": name, "kind": v["kind"], "status": status, "fired": ["%s %s" % x for x in new][:4]}
        if status == "skipped":
            skipped += 1
            row["verdict"] = "skipped"
        elif v["kind"] == "N" and "patch" in v and status == "analysis-error":
            # a refactoring by a sub-agent written in an idiom the analyser does not read: no verdict (exit 2 on that tree), which is
            # recorded but is not a false alarm
            nn += 1
            noverdict += 1
            row["verdict"] = "no verdict (analysis error: %s)" % (new[0][1][:120] if new else "")
        elif v["kind"] == "N":
            nn += 1
            ok = not new
            row["verdict"] = "silent as expected" if ok else "FALSE ALARM"
            if not ok:
                wrong.append(row)
        else:
            nb += 1
            fired_rules = {r for r, _ in new}
            ok = bool(new) and (exp is None or bool(fired_rules & set(exp)) or status == "analysis-error" and "ANALYSIS-ERROR" in (exp or []))
            row["verdict"] = "fired as expected" if ok else "MISSED"
            if not ok:
                wrong.append(row)
        table.append(row)
    out = {"variants": len(variants), "breaking_run": nb, "neutral_run": nn, "skipped": skipped, "neutral_no_verdict": noverdict,
           "wrong": len(wrong), "table": table}
    if wrong:
        raise AnalysisError("selftest: checker gives the wrong outcome on %d corpus variants: %s" % (
            len(wrong), [(w["name"], w["verdict"]) for w in wrong][:5]))
    return out
