"""Self-validation corpus runner (thorough tier). Filled in later."""

def run_for(prop, mod, baseline_findings=None):
    return {"variants": 0, "note": "corpus not built yet"}
