"""Front end of the codec layout extraction: private helper functions and methods of mqtt/pdu.py that encode()/decode()
bodies call are inlined at the syntax-tree level (parameters substituted or bound to temporaries, locals renamed, the
single trailing `return` turned into an assignment), so that the layout interpreters see one straight body however the
code was factored.  Nothing is executed.  A helper shape the inliner does not handle ends the run with AnalysisError
(no verdict), never with a guess."""
import ast
import copy

from .model import AnalysisError

PRIMITIVES = {"encodeString", "decodeString", "encode16Int", "decode16Int", "encodeLength", "decodeLength"}
MAX_DEPTH = 6


def _simple(n):
    """An expression that can be substituted for a parameter without changing evaluation (no call, no side effect)."""
    if isinstance(n, (ast.Name, ast.Constant)):
        return True
    if isinstance(n, ast.Attribute):
        return _simple(n.value)
    if isinstance(n, ast.UnaryOp) and isinstance(n.operand, ast.Constant):
        return True
    return False


class _Subst(ast.NodeTransformer):
    def __init__(self, mapping, rename):
        self.mapping = mapping      # param name -> AST expression
        self.rename = rename        # local name -> new name

    def visit_Name(self, n):
        if n.id in self.mapping and isinstance(n.ctx, ast.Load):
            return copy.deepcopy(self.mapping[n.id])
        if n.id in self.rename:
            return ast.copy_location(ast.Name(id=self.rename[n.id], ctx=n.ctx), n)
        return n


def _assigned_names(stmts):
    out = set()
    for s in stmts:
        for n in ast.walk(s):
            if isinstance(n, ast.Name) and isinstance(n.ctx, (ast.Store, ast.Del)):
                out.add(n.id)
            elif isinstance(n, ast.ExceptHandler) and n.name:
                out.add(n.name)
    return out


class Inliner:
    def __init__(self, prog, mod, cls):
        self.prog = prog
        self.mod = mod
        self.cls = cls
        self.counter = 0
        self.inlined = []       # qualified names of helpers inlined (for the report)
        self.owner_stack = []   # class in which the function being read is defined (for super())

    # ---- which calls are inlined ------------------------------------------------------
    def target(self, call):
        f = call.func
        if isinstance(f, ast.Name) and f.id in self.mod.funcs and f.id not in PRIMITIVES:
            return self.mod.funcs[f.id], None
        if isinstance(f, ast.Attribute) and isinstance(f.value, ast.Name) and f.value.id == "self" and self.cls is not None \
                and self.prog.lookup_method(self.cls, f.attr) is not None and f.attr not in ("encode", "decode", "__init__"):
            return self.prog.lookup_method(self.cls, f.attr), ast.Name(id="self", ctx=ast.Load())
        if isinstance(f, ast.Attribute) and self.cls is not None:
            mro = [c for c in self.prog.mro(self.cls) if hasattr(c, "methods")]
            # Base.method(self, ..): the explicit call of an inherited implementation
            if isinstance(f.value, ast.Name) and call.args and isinstance(call.args[0], ast.Name) and call.args[0].id == "self":
                r = self.prog.resolve(self.mod, f.value.id)
                if r and r[0] == "class" and r[1] in mro:
                    m = self.prog.lookup_method(r[1], f.attr)
                    if m is not None:
                        return m, None
            # super().method(..) / super(Class, self).method(..): the next implementation after the class the caller is defined in
            v = f.value
            if isinstance(v, ast.Call) and isinstance(v.func, ast.Name) and v.func.id == "super" and self.owner_stack \
                    and self.owner_stack[-1] in mro:
                for c in mro[mro.index(self.owner_stack[-1]) + 1:]:
                    if f.attr in c.methods:
                        return c.methods[f.attr], ast.Name(id="self", ctx=ast.Load())
        return None, None

    # ---- statements --------------------------------------------------------------------
    def body(self, stmts, depth=0):
        out = []
        for s in stmts:
            out.extend(self.stmt(s, depth))
        return out

    def stmt(self, s, depth):
        if isinstance(s, (ast.If, ast.While)):
            pre, test = self.hoist(s.test, depth)
            s2 = copy.copy(s)
            s2.test = test
            s2.body = self.body(s.body, depth) or [ast.Pass()]
            s2.orelse = self.body(s.orelse, depth)
            if isinstance(s, ast.While) and pre:
                raise AnalysisError("codec front end: helper call in a loop test at line %d" % s.lineno)
            return pre + [s2]
        if isinstance(s, ast.For):
            pre, it = self.hoist(s.iter, depth)
            s2 = copy.copy(s)
            s2.iter = it
            s2.body = self.body(s.body, depth) or [ast.Pass()]
            s2.orelse = self.body(s.orelse, depth)
            return pre + [s2]
        if isinstance(s, ast.Try):
            s2 = copy.copy(s)
            s2.body = self.body(s.body, depth)
            s2.orelse = self.body(s.orelse, depth)
            s2.finalbody = self.body(s.finalbody, depth)
            hs = []
            for h in s.handlers:
                h2 = copy.copy(h)
                h2.body = self.body(h.body, depth)
                hs.append(h2)
            s2.handlers = hs
            return [s2]
        if isinstance(s, (ast.Assign, ast.AugAssign, ast.Expr, ast.Return, ast.Raise)):
            field = "value" if not isinstance(s, ast.Raise) else "exc"
            v = getattr(s, field)
            if v is None:
                return [s]
            pre, v2 = self.hoist(v, depth)
            if isinstance(s, ast.Expr) and isinstance(v2, ast.Name) and v2.id.startswith("__h") and v2.id.endswith("_ret"):
                return pre         # a helper called for its effects only
            s2 = copy.copy(s)
            setattr(s2, field, v2)
            return pre + [s2]
        return [s]

    # ---- expressions: hoist inlinable calls out, innermost first -------------------------------
    def hoist(self, expr, depth):
        pre = []
        outer = self

        class H(ast.NodeTransformer):
            def visit_Call(self, n):
                n = self.generic_visit(n)
                fn, selfarg = outer.target(n)
                if fn is None:
                    return n
                if any(isinstance(p, (ast.Lambda, ast.ListComp, ast.GeneratorExp, ast.SetComp, ast.DictComp)) for p in []):
                    return n
                stmts, ret = outer.expand(fn, selfarg, n, depth)
                pre.extend(stmts)
                return ret

            def visit_Lambda(self, n):
                return n

            def visit_ListComp(self, n):
                return n

            def visit_GeneratorExp(self, n):
                return n
        new = H().visit(copy.deepcopy(expr))
        return pre, new

    # ---- one call -------------------------------------------------------------------------------
    def expand(self, fn, selfarg, call, depth):
        if depth >= MAX_DEPTH:
            raise AnalysisError("codec front end: helper nesting deeper than %d at %s" % (MAX_DEPTH, fn.qual))
        node = fn.node
        if node.args.kwonlyargs or node.args.kwarg or node.args.posonlyargs:
            raise AnalysisError("codec front end: signature of %s not handled" % fn.qual)
        if any(isinstance(a, ast.Starred) for a in call.args) or any(k.arg is None for k in call.keywords):
            raise AnalysisError("codec front end: star arguments in a call of %s" % fn.qual)
        self.counter += 1
        k = self.counter
        self.inlined.append(fn.qual)
        params = [a.arg for a in node.args.args]
        args = list(call.args)
        if selfarg is not None and not fn.is_static:
            args = [selfarg] + args
        body = [s for s in node.body]
        if body and isinstance(body[0], ast.Expr) and isinstance(body[0].value, ast.Constant) and isinstance(body[0].value.value, str):
            body = body[1:]
        body = decount(body)
        assigned = _assigned_names(body)
        mapping, pre = {}, []
        kw = {x.arg: x.value for x in call.keywords}
        defaults = dict(zip(params[len(params) - len(node.args.defaults):], node.args.defaults)) if node.args.defaults else {}
        positional = args[:len(params)]
        extra = args[len(params):]
        for i, p in enumerate(params):
            if i < len(positional):
                a = positional[i]
            elif p in kw:
                a = kw[p]
            elif p in defaults:
                a = defaults[p]
            else:
                raise AnalysisError("codec front end: argument %s of %s missing" % (p, fn.qual))
            if _simple(a) and p not in assigned:
                mapping[p] = a
            else:
                tmp = "__h%d_%s" % (k, p)
                pre.append(ast.copy_location(ast.Assign(targets=[ast.Name(id=tmp, ctx=ast.Store())], value=a, lineno=call.lineno), call))
                mapping[p] = ast.Name(id=tmp, ctx=ast.Load())
                if p in assigned:
                    # the helper re-binds its parameter: it becomes an ordinary renamed local initialised from the argument
                    pass
        varargs = None
        if node.args.vararg is not None:
            varargs = (node.args.vararg.arg, extra)
        elif extra:
            raise AnalysisError("codec front end: too many arguments for %s" % fn.qual)
        rename = {nm: "__h%d_%s" % (k, nm) for nm in assigned}
        # a parameter the helper re-binds: its temporary carries the renamed local's name
        for p in params:
            if p in assigned:
                for st in pre:
                    if st.targets[0].id == "__h%d_%s" % (k, p):
                        pass
                mapping.pop(p, None)
        retname = "__h%d_ret" % k
        body = comps_to_loops(unroll_displays([copy.deepcopy(s) for s in body]))
        if varargs is not None:
            body = self.unroll_varargs(body, varargs[0], varargs[1], fn)
        body = [_Subst(mapping, rename).visit(s) for s in body]
        body = self.fold_none_tests(body)
        body = self.returns_to_assign(body, retname, fn)
        for s in body:
            ast.fix_missing_locations(s)
        self.owner_stack.append(fn.cls)
        try:
            body = self.body(body, depth + 1)
        finally:
            self.owner_stack.pop()
        for s in pre:
            ast.fix_missing_locations(s)
        ret = ast.copy_location(ast.Name(id=retname, ctx=ast.Load()), call)
        return pre + body, ret

    # ---- pieces ------------------------------------------------------------------------------------
    def returns_to_assign(self, body, retname, fn):
        """`return e` as the last statement (or last in both arms of a trailing if) becomes `<ret> = e`."""
        def nest(stmts):
            # `if c: A; return x` followed by B  ->  `if c: A; return x  else: B`  (what runs after the if runs only when c is false)
            for i, s in enumerate(stmts):
                if isinstance(s, ast.If):
                    s2 = copy.copy(s)
                    s2.body, s2.orelse = nest(list(s.body)), nest(list(s.orelse))
                    b_ends = bool(s2.body) and isinstance(s2.body[-1], ast.Return)
                    o_ends = bool(s2.orelse) and isinstance(s2.orelse[-1], ast.Return)
                    rest = stmts[i + 1:]
                    if rest and b_ends and not o_ends:
                        s2.orelse = s2.orelse + nest(rest)
                        return stmts[:i] + [s2]
                    if rest and o_ends and not b_ends:
                        s2.body = s2.body + nest(rest)
                        return stmts[:i] + [s2]
                    if b_ends and o_ends:
                        return stmts[:i] + [s2]
                    stmts = stmts[:i] + [s2] + rest
            return stmts

        def conv(stmts):
            stmts = nest(list(stmts))
            if not stmts:
                return stmts + [self._assign(retname, ast.Constant(value=None), fn.node)]
            last = stmts[-1]
            head = stmts[:-1]
            for s in head:
                for n in ast.walk(s):
                    if isinstance(n, ast.Return):
                        raise AnalysisError("codec front end: helper %s returns from the middle of its body" % fn.qual)
            if isinstance(last, ast.Return):
                return head + [self._assign(retname, last.value if last.value is not None else ast.Constant(value=None), last)]
            if isinstance(last, ast.If) and any(isinstance(n, ast.Return) for n in ast.walk(last)):
                l2 = copy.copy(last)
                l2.body = conv(list(last.body))
                l2.orelse = conv(list(last.orelse))
                return head + [l2]
            if any(isinstance(n, ast.Return) for n in ast.walk(last)):
                raise AnalysisError("codec front end: helper %s returns from inside a loop or try" % fn.qual)
            return stmts + [self._assign(retname, ast.Constant(value=None), last)]
        return conv(body)

    @staticmethod
    def _assign(name, value, at):
        return ast.copy_location(ast.Assign(targets=[ast.Name(id=name, ctx=ast.Store())], value=value, lineno=getattr(at, "lineno", 0)), at)

    def fold_none_tests(self, body):
        """`if <constant> is [not] None:` decided after substitution of a constant default."""
        out = []
        for s in body:
            if isinstance(s, ast.If):
                s = copy.copy(s)
                s.body = self.fold_none_tests(s.body)
                s.orelse = self.fold_none_tests(s.orelse)
                t = s.test
                if isinstance(t, ast.Compare) and len(t.ops) == 1 and isinstance(t.ops[0], (ast.Is, ast.IsNot)) \
                        and isinstance(t.left, ast.Constant) and isinstance(t.comparators[0], ast.Constant):
                    same = t.left.value is t.comparators[0].value
                    take = same if isinstance(t.ops[0], ast.Is) else not same
                    out.extend(s.body if take else s.orelse)
                    continue
            elif isinstance(s, (ast.For, ast.While)):
                s = copy.copy(s)
                s.body = self.fold_none_tests(s.body)
            out.append(s)
        return out

    def unroll_varargs(self, body, name, exprs, fn):
        """The *args parameter is bound to the argument expressions of this very call: `for x in args:` is unrolled and
        `sum([f(x) for x in args])` becomes a sum of the instances."""
        temps = []
        pre = []
        for i, a in enumerate(exprs):
            if _simple(a):
                temps.append(a)
            else:
                self.counter += 1
                nm = "__v%d" % self.counter
                pre.append(self._assign(nm, a, a))
                temps.append(ast.Name(id=nm, ctx=ast.Load()))

        class V(ast.NodeTransformer):
            def visit_Call(self, n):
                n = self.generic_visit(n)
                if isinstance(n.func, ast.Name) and n.func.id == "sum" and len(n.args) == 1 and isinstance(n.args[0], ast.Call) \
                        and isinstance(n.args[0].func, ast.Name) and n.args[0].func.id == "map" and len(n.args[0].args) == 2 and not n.args[0].keywords \
                        and isinstance(n.args[0].args[0], ast.Name) and isinstance(n.args[0].args[1], ast.Name) and n.args[0].args[1].id == name:
                    # sum(map(len, args)): the sum of len() of each argument of this call
                    f = n.args[0].args[0]
                    terms = [ast.Call(func=ast.Name(id=f.id, ctx=ast.Load()), args=[copy.deepcopy(t)], keywords=[]) for t in temps]
                    if not terms:
                        return ast.Constant(value=0)
                    acc = terms[0]
                    for t in terms[1:]:
                        acc = ast.BinOp(left=acc, op=ast.Add(), right=t)
                    return ast.fix_missing_locations(ast.copy_location(acc, n))
                if isinstance(n.func, ast.Name) and n.func.id == "sum" and len(n.args) == 1 and isinstance(n.args[0], (ast.ListComp, ast.GeneratorExp)):
                    c = n.args[0]
                    if len(c.generators) == 1 and isinstance(c.generators[0].iter, ast.Name) and c.generators[0].iter.id == name \
                            and isinstance(c.generators[0].target, ast.Name) and not c.generators[0].ifs:
                        var = c.generators[0].target.id
                        terms = [_Subst({var: t}, {}).visit(copy.deepcopy(c.elt)) for t in temps]
                        if not terms:
                            return ast.Constant(value=0)
                        acc = terms[0]
                        for t in terms[1:]:
                            acc = ast.BinOp(left=acc, op=ast.Add(), right=t)
                        return ast.copy_location(acc, n)
                return n

        def stmts(ss):
            out = []
            for s in ss:
                if isinstance(s, ast.For) and isinstance(s.iter, ast.Name) and s.iter.id == name and isinstance(s.target, ast.Name) and not s.orelse:
                    for t in temps:
                        for b in s.body:
                            out.append(_Subst({s.target.id: t}, {}).visit(copy.deepcopy(b)))
                    continue
                if isinstance(s, (ast.If, ast.For, ast.While)):
                    s = copy.copy(s)
                    s.body = stmts(s.body)
                    s.orelse = stmts(s.orelse)
                out.append(V().visit(s))
            return out
        new = pre + stmts(body)
        for s in new:
            for n in ast.walk(s):
                if isinstance(n, ast.Name) and n.id == name:
                    raise AnalysisError("codec front end: use of *%s in %s not handled" % (name, fn.qual))
        return new


def normalize(stmts, value_returns=False):
    """Control-flow normal form the layout interpreters read: `if c: A; return` followed by B becomes `if c: A else: B` (only
    for bare returns, i.e. decoders), and `if not c: A else: B` becomes `if c: B else: A`."""
    out = []
    stmts = list(stmts)
    # a = self.b = value  ->  self.b = value; a = self.b   /   x = A if c else B  ->  if c: x = A else: x = B  (attribute targets)
    flat = []
    for s in stmts:
        if isinstance(s, ast.Assign) and len(s.targets) == 2 and {type(s.targets[0]), type(s.targets[1])} == {ast.Name, ast.Attribute}:
            nm, at = (s.targets if isinstance(s.targets[0], ast.Name) else s.targets[::-1])
            s1 = ast.copy_location(ast.Assign(targets=[at], value=s.value, lineno=s.lineno), s)
            s2 = ast.copy_location(ast.Assign(targets=[nm], value=copy.deepcopy(at), lineno=s.lineno), s)
            for n in ast.walk(s2.value):
                if hasattr(n, "ctx"):
                    n.ctx = ast.Load()
            flat += [s1, s2]
        elif isinstance(s, ast.Assign) and len(s.targets) == 1 and isinstance(s.targets[0], ast.Tuple) and isinstance(s.value, ast.Tuple) \
                and len(s.targets[0].elts) == len(s.value.elts) and _sequential_ok(s.targets[0].elts, s.value.elts):
            # a, b = x, y with no target read by a later right-hand side: the same as a = x; b = y
            for t, v in zip(s.targets[0].elts, s.value.elts):
                flat.append(ast.copy_location(ast.Assign(targets=[t], value=v, lineno=s.lineno), s))
        elif isinstance(s, ast.Assign) and len(s.targets) == 1 and isinstance(s.targets[0], ast.Attribute) and isinstance(s.value, ast.IfExp):
            a = ast.copy_location(ast.Assign(targets=[copy.deepcopy(s.targets[0])], value=s.value.body, lineno=s.lineno), s)
            b = ast.copy_location(ast.Assign(targets=[copy.deepcopy(s.targets[0])], value=s.value.orelse, lineno=s.lineno), s)
            flat.append(ast.copy_location(ast.If(test=s.value.test, body=[a], orelse=[b]), s))
        else:
            flat.append(s)
    stmts = flat
    for i, s in enumerate(stmts):
        if isinstance(s, ast.If):
            s = copy.copy(s)
            # (looked at before the arm is normalised: normalising strips a bare return that ends a statement list)
            ends = bool(s.body) and isinstance(s.body[-1], ast.Return) and s.body[-1].value is None
            s.body = normalize(s.body[:-1] if ends and not value_returns else s.body, value_returns)
            s.orelse = normalize(s.orelse, value_returns)
            if ends and not value_returns:
                rest = normalize(stmts[i + 1:], value_returns)
                s.body = s.body or [ast.Pass()]
                s.orelse = list(s.orelse) + rest
                out.append(_unnegate(s))
                return out
            out.append(_unnegate(s))
            continue
        if isinstance(s, (ast.For, ast.While)):
            s = copy.copy(s)
            s.body = normalize(s.body, value_returns)
        out.append(s)
    if out and isinstance(out[-1], ast.Return) and out[-1].value is None and not value_returns:
        out = out[:-1]
    return out


def _sequential_ok(targets, values):
    if any(isinstance(t, ast.Starred) or not isinstance(t, (ast.Name, ast.Attribute)) for t in targets):
        return False
    if any(isinstance(v, ast.Starred) for v in values):
        return False
    for i, t in enumerate(targets):
        key = ast.unparse(t)
        for v in values[i + 1:]:
            if any(isinstance(x, (ast.Name, ast.Attribute)) and ast.unparse(x) == key for x in ast.walk(v)):
                return False
    return True


def _unnegate(s):
    t = s.test
    if isinstance(t, ast.UnaryOp) and isinstance(t.op, ast.Not) and s.orelse:
        s2 = copy.copy(s)
        s2.test = t.operand
        s2.body, s2.orelse = s.orelse, s.body
        return s2
    return s


def _byte_comp(v):
    """bytearray(E for x in IT) / bytearray([E for x in IT]) -> (E, target, IT), one generator, no filter."""
    if isinstance(v, ast.Call) and isinstance(v.func, ast.Name) and v.func.id == "bytearray" and len(v.args) == 1 and not v.keywords:
        v = v.args[0]
    else:
        return None
    if isinstance(v, (ast.GeneratorExp, ast.ListComp)) and len(v.generators) == 1 and not v.generators[0].ifs \
            and not v.generators[0].is_async:
        return v.elt, v.generators[0].target, v.generators[0].iter
    return None


def comps_to_loops(stmts):
    """buf = bytearray(E for x in IT)  ->  buf = bytearray(); for x in IT: buf.append(E)   (and buf.extend(bytearray(E for ..)),
    buf += bytearray(E for ..)): the loop the comprehension abbreviates, which is the form the layout reader knows."""
    out = []
    for s in stmts:
        if isinstance(s, (ast.If, ast.For, ast.While, ast.Try, ast.With)):
            s = copy.copy(s)
            for f in ("body", "orelse", "finalbody"):
                if getattr(s, f, None):
                    setattr(s, f, comps_to_loops(getattr(s, f)))
        name, comp, fresh = None, None, False
        if isinstance(s, ast.Assign) and len(s.targets) == 1 and isinstance(s.targets[0], ast.Name):
            name, comp, fresh = s.targets[0].id, _byte_comp(s.value), True
        elif isinstance(s, ast.AugAssign) and isinstance(s.op, ast.Add) and isinstance(s.target, ast.Name):
            name, comp = s.target.id, _byte_comp(s.value)
        elif isinstance(s, ast.Expr) and isinstance(s.value, ast.Call) and isinstance(s.value.func, ast.Attribute) \
                and s.value.func.attr == "extend" and isinstance(s.value.func.value, ast.Name) and len(s.value.args) == 1:
            name = s.value.func.value.id
            a = s.value.args[0]
            comp = _byte_comp(a) or _byte_comp(ast.Call(func=ast.Name(id="bytearray", ctx=ast.Load()), args=[a], keywords=[]))
        if comp is not None:
            elt, tgt, it = comp
            if fresh:
                out.append(ast.copy_location(ast.Assign(targets=[ast.Name(id=name, ctx=ast.Store())], lineno=s.lineno,
                                                        value=ast.Call(func=ast.Name(id="bytearray", ctx=ast.Load()), args=[], keywords=[])), s))
            app = ast.Expr(value=ast.Call(func=ast.Attribute(value=ast.Name(id=name, ctx=ast.Load()), attr="append", ctx=ast.Load()),
                                          args=[elt], keywords=[]))
            loop = ast.For(target=tgt, iter=it, body=[ast.copy_location(app, s)], orelse=[])
            out.append(ast.fix_missing_locations(ast.copy_location(loop, s)))
            continue
        out.append(s)
    return out


def fuse_lists(stmts):
    """L = [e0, ..]; (L.append(e) | if g: L.append(e).. )*; ...; for v in L: BODY   ->   at the place of the loop, the script that
    built L with every element replaced by BODY[v := element].  Only when L is used for nothing else, its elements are plain
    reads, the guards are plain names or reads, and nothing between the construction and the loop stores what they read."""
    stmts = list(stmts)
    for i, s in enumerate(stmts):
        if not (isinstance(s, ast.Assign) and len(s.targets) == 1 and isinstance(s.targets[0], ast.Name) and isinstance(s.value, ast.List)
                and all(_simple(e) for e in s.value.elts)):
            continue
        L = s.targets[0].id

        def is_app(x):
            return isinstance(x, ast.Expr) and isinstance(x.value, ast.Call) and isinstance(x.value.func, ast.Attribute) \
                and x.value.func.attr == "append" and isinstance(x.value.func.value, ast.Name) and x.value.func.value.id == L \
                and len(x.value.args) == 1 and _simple(x.value.args[0])

        def is_guarded_apps(x):
            return isinstance(x, ast.If) and not x.orelse and _simple(x.test) and x.body and all(is_app(y) for y in x.body)
        script = [("items", list(s.value.elts))]
        j = i + 1
        while j < len(stmts) and (is_app(stmts[j]) or is_guarded_apps(stmts[j])):
            x = stmts[j]
            if is_app(x):
                script.append(("items", [x.value.args[0]]))
            else:
                script.append(("if", x.test, [y.value.args[0] for y in x.body]))
            j += 1
        loops = [k for k in range(j, len(stmts)) if isinstance(stmts[k], ast.For) and isinstance(stmts[k].iter, ast.Name) and stmts[k].iter.id == L
                 and isinstance(stmts[k].target, ast.Name) and not stmts[k].orelse]
        mentions_ = sum(1 for st_ in stmts for x in ast.walk(st_) if isinstance(x, ast.Name) and x.id == L)
        expected = 1 + sum(len(sc[1]) if sc[0] == "items" and sc is not script[0] else (len(sc[2]) if sc[0] == "if" else 0) for sc in script) + 1
        if len(loops) != 1 or mentions_ != expected:
            continue
        k = loops[0]
        loop = stmts[k]
        if any(isinstance(x, (ast.Break, ast.Continue, ast.Return)) for b in loop.body for x in ast.walk(b)):
            continue
        read_names = {x.id for sc in script for e in (sc[1] if sc[0] == "items" else [sc[1]] + sc[2]) for x in ast.walk(e) if isinstance(x, ast.Name)} - {"self"}
        read_attrs = {x.attr for sc in script for e in (sc[1] if sc[0] == "items" else [sc[1]] + sc[2]) for x in ast.walk(e) if isinstance(x, ast.Attribute)}
        between = stmts[j:k] + list(loop.body)
        stored_attrs = {x.attr for b in between for x in ast.walk(b) if isinstance(x, ast.Attribute) and isinstance(x.ctx, ast.Store)}
        if (read_names & _assigned_names(between)) or (read_attrs & stored_attrs) or loop.target.id in _assigned_names(loop.body):
            continue

        def inst(e):
            return [_Subst({loop.target.id: e}, {}).visit(copy.deepcopy(b)) for b in loop.body]
        out = []
        for sc in script:
            if sc[0] == "items":
                for e in sc[1]:
                    out.extend(inst(e))
            else:
                body = []
                for e in sc[2]:
                    body.extend(inst(e))
                out.append(ast.copy_location(ast.If(test=copy.deepcopy(sc[1]), body=body, orelse=[]), loop))
        for x in out:
            ast.copy_location(x, loop)
            ast.fix_missing_locations(x)
        return fuse_lists(stmts[:i] + stmts[j:k] + out + stmts[k + 1:])
    return stmts


def join_lists(stmts):
    """L = [e0, ..]; ... L.append(e) (at any depth) ...; X = bytearray().join(L)   ->   L = bytearray(); L += e0; ... L += e ...; X = L
    when L is mentioned nowhere else: the pieces end up in X in the order they were appended, with nothing between them."""
    stmts = list(stmts)
    for i, s in enumerate(stmts):
        if not (isinstance(s, ast.Assign) and len(s.targets) == 1 and isinstance(s.targets[0], ast.Name) and isinstance(s.value, ast.List)):
            continue
        L = s.targets[0].id
        if any(isinstance(x, ast.Name) and x.id == L for e in s.value.elts for x in ast.walk(e)):
            continue

        def is_join(x):
            if not (isinstance(x, ast.Assign) and len(x.targets) == 1 and isinstance(x.targets[0], ast.Name) and isinstance(x.value, ast.Call)
                    and isinstance(x.value.func, ast.Attribute) and x.value.func.attr == "join" and len(x.value.args) == 1
                    and isinstance(x.value.args[0], ast.Name) and x.value.args[0].id == L and not x.value.keywords):
                return False
            sep = x.value.func.value
            return (isinstance(sep, ast.Call) and isinstance(sep.func, ast.Name) and sep.func.id in ("bytearray", "bytes") and not sep.args
                    and not sep.keywords) or (isinstance(sep, ast.Constant) and sep.value == b"")
        joins = [k for k in range(i + 1, len(stmts)) if is_join(stmts[k])]
        if len(joins) != 1:
            continue
        k = joins[0]
        apps = []
        for st_ in stmts[i + 1:k]:
            for x in ast.walk(st_):
                if isinstance(x, ast.Expr) and isinstance(x.value, ast.Call) and isinstance(x.value.func, ast.Attribute) \
                        and x.value.func.attr == "append" and isinstance(x.value.func.value, ast.Name) and x.value.func.value.id == L \
                        and len(x.value.args) == 1 and not x.value.keywords \
                        and not any(isinstance(y, ast.Name) and y.id == L for y in ast.walk(x.value.args[0])):
                    apps.append(x)
        mentions_ = sum(1 for st_ in stmts for x in ast.walk(st_) if isinstance(x, ast.Name) and x.id == L)
        if mentions_ != 1 + len(apps) + 1:
            continue
        if any(isinstance(x, (ast.For, ast.While)) and any(a is y for y in ast.walk(x) for a in apps) for st_ in stmts[i + 1:k] for x in ast.walk(st_)):
            # an append inside a loop is a repeated element: left to the reader of loops
            pass
        ids = {id(a) for a in apps}

        class T(ast.NodeTransformer):
            def visit_Expr(self, x):
                if id(x) in ids:
                    return ast.copy_location(ast.AugAssign(target=ast.Name(id=L, ctx=ast.Store()), op=ast.Add(), value=x.value.args[0]), x)
                return x
        head = [ast.copy_location(ast.Assign(targets=[ast.Name(id=L, ctx=ast.Store())],
                                             value=ast.Call(func=ast.Name(id="bytearray", ctx=ast.Load()), args=[], keywords=[])), s)]
        head += [ast.copy_location(ast.AugAssign(target=ast.Name(id=L, ctx=ast.Store()), op=ast.Add(), value=e), s) for e in s.value.elts]
        mid = [T().visit(st_) for st_ in stmts[i + 1:k]]
        tail = [ast.copy_location(ast.Assign(targets=stmts[k].targets, value=ast.Name(id=L, ctx=ast.Load())), stmts[k])]
        out = stmts[:i] + head + mid + tail + stmts[k + 1:]
        for x in out:
            ast.fix_missing_locations(x)
        return join_lists(out)
    return stmts


def unroll_displays(stmts):
    """`for x, y in ((a, b), (c, d)): B`  ->  B[x:=a, y:=b]; B[x:=c, y:=d]  when the display is written out in the loop header, its
    elements are plain reads (names, attributes, constants), and B neither rebinds the loop variables, nor stores what the
    elements read, nor leaves the loop early."""
    out = []
    for s in stmts:
        if isinstance(s, (ast.If, ast.For, ast.While, ast.Try, ast.With)):
            s = copy.copy(s)
            for f in ("body", "orelse", "finalbody"):
                if getattr(s, f, None):
                    setattr(s, f, unroll_displays(getattr(s, f)))
        if isinstance(s, ast.For) and not s.orelse and isinstance(s.iter, (ast.Tuple, ast.List)) and s.iter.elts:
            tg = s.target
            names = [tg.id] if isinstance(tg, ast.Name) else (
                [e.id for e in tg.elts] if isinstance(tg, ast.Tuple) and all(isinstance(e, ast.Name) for e in tg.elts) else None)
            rows = []
            for e in s.iter.elts:
                row = [e] if isinstance(tg, ast.Name) else (list(e.elts) if isinstance(e, (ast.Tuple, ast.List)) else None)
                if row is None or names is None or len(row) != len(names) or not all(_simple(x) for x in row):
                    rows = None
                    break
                rows.append(row)
            leaves = any(isinstance(x, (ast.Break, ast.Continue, ast.Return)) for b in s.body for x in ast.walk(b))
            stored = {x.attr for b in s.body for x in ast.walk(b) if isinstance(x, ast.Attribute) and isinstance(x.ctx, ast.Store)}
            read = {x.attr for r in (rows or []) for e in r for x in ast.walk(e) if isinstance(x, ast.Attribute)}
            read_names = {x.id for r in (rows or []) for e in r for x in ast.walk(e) if isinstance(x, ast.Name)}
            if rows and not leaves and not (set(names) & _assigned_names(s.body)) and not (stored & read) \
                    and not ((read_names - {"self"}) & _assigned_names(s.body)):
                for row in rows:
                    for b in s.body:
                        out.append(_Subst(dict(zip(names, row)), {}).visit(copy.deepcopy(b)))
                continue
        out.append(s)
    return out


def detuple(stmts):
    """tmp = (e1, e2) followed (in the same block) by  a, b = tmp  with tmp used nowhere else  ->  a = e1; b = e2 at the place
    of the unpacking (the shape an inlined helper that returns a pair leaves behind)."""
    stmts = list(stmts)
    out = []
    i = 0
    while i < len(stmts):
        s = stmts[i]
        if isinstance(s, (ast.If, ast.For, ast.While, ast.Try, ast.With)):
            s = copy.copy(s)
            for f in ("body", "orelse", "finalbody"):
                if getattr(s, f, None):
                    setattr(s, f, detuple(getattr(s, f)))
            out.append(s)
            i += 1
            continue
        if isinstance(s, ast.Assign) and len(s.targets) == 1 and isinstance(s.targets[0], (ast.Tuple, ast.List)) \
                and all(isinstance(e, ast.Name) for e in s.targets[0].elts) and isinstance(s.value, (ast.ListComp, ast.GeneratorExp)) \
                and len(s.value.generators) == 1 and not s.value.generators[0].ifs and isinstance(s.value.generators[0].target, ast.Name) \
                and isinstance(s.value.generators[0].iter, (ast.Tuple, ast.List)) \
                and len(s.value.generators[0].iter.elts) == len(s.targets[0].elts) \
                and all(_simple(e) for e in s.value.generators[0].iter.elts):
            # a, b, c = [E(m) for m in (m1, m2, m3)]  ->  a = E(m1); b = E(m2); c = E(m3)   (the targets are not read by E)
            var = s.value.generators[0].target.id
            tnames = {e.id for e in s.targets[0].elts}
            if not any(isinstance(x, ast.Name) and x.id in tnames for x in ast.walk(s.value.elt)):
                for t_, m in zip(s.targets[0].elts, s.value.generators[0].iter.elts):
                    v = _Subst({var: m}, {}).visit(copy.deepcopy(s.value.elt))
                    out.append(ast.fix_missing_locations(ast.copy_location(ast.Assign(targets=[t_], value=v, lineno=s.lineno), s)))
                i += 1
                continue
        if isinstance(s, ast.Assign) and len(s.targets) == 1 and isinstance(s.targets[0], ast.Name) and isinstance(s.value, ast.Tuple) \
                and s.targets[0].id.startswith("__h"):
            tmp = s.targets[0].id
            uses = [(j, x) for j, st_ in enumerate(stmts) for x in ast.walk(st_) if isinstance(x, ast.Name) and x.id == tmp]
            j = next((j for j in range(i + 1, len(stmts)) if isinstance(stmts[j], ast.Assign) and isinstance(stmts[j].value, ast.Name)
                      and stmts[j].value.id == tmp and len(stmts[j].targets) == 1 and isinstance(stmts[j].targets[0], ast.Tuple)
                      and len(stmts[j].targets[0].elts) == len(s.value.elts)), None)
            between_ok = j is not None and all(not isinstance(stmts[k], (ast.If, ast.For, ast.While)) for k in range(i + 1, j))
            if j is not None and len(uses) == 2 and between_ok and _sequential_ok(stmts[j].targets[0].elts, s.value.elts):
                # keep the statements in between where they are; the element expressions are evaluated where the pair was built
                temps = []
                for n_, e in enumerate(s.value.elts):
                    tn = "%s_%d" % (tmp, n_)
                    temps.append(tn)
                    out.append(ast.fix_missing_locations(ast.copy_location(ast.Assign(targets=[ast.Name(id=tn, ctx=ast.Store())], value=e, lineno=s.lineno), s)))
                out.extend(stmts[i + 1:j])
                for t_, tn in zip(stmts[j].targets[0].elts, temps):
                    out.append(ast.fix_missing_locations(ast.copy_location(ast.Assign(targets=[t_], value=ast.Name(id=tn, ctx=ast.Load()), lineno=s.lineno), stmts[j])))
                i = j + 1
                continue
        out.append(s)
        i += 1
    return out


def split_assignments(stmts):
    """a = self.b = value -> tmp-free chain split; t1, t2 = v1, v2 -> t1 = v1; t2 = v2 (when no target is read by a later value).
    Applied to encoders and decoders alike, recursively."""
    out = []
    for s in stmts:
        if isinstance(s, (ast.If, ast.For, ast.While, ast.Try, ast.With)):
            s = copy.copy(s)
            for f in ("body", "orelse", "finalbody"):
                if getattr(s, f, None):
                    setattr(s, f, split_assignments(getattr(s, f)))
        if isinstance(s, ast.Assign) and len(s.targets) == 2 and {type(s.targets[0]), type(s.targets[1])} == {ast.Name, ast.Attribute}:
            nm, at = (s.targets if isinstance(s.targets[0], ast.Name) else s.targets[::-1])
            s1 = ast.copy_location(ast.Assign(targets=[nm], value=s.value, lineno=s.lineno), s)
            s2 = ast.copy_location(ast.Assign(targets=[at], value=ast.Name(id=nm.id, ctx=ast.Load()), lineno=s.lineno), s)
            out += [ast.fix_missing_locations(s1), ast.fix_missing_locations(s2)]
        elif isinstance(s, ast.Assign) and len(s.targets) == 1 and isinstance(s.targets[0], ast.Tuple) and isinstance(s.value, ast.Tuple) \
                and len(s.targets[0].elts) == len(s.value.elts) and _sequential_ok(s.targets[0].elts, s.value.elts):
            for t, v in zip(s.targets[0].elts, s.value.elts):
                out.append(ast.fix_missing_locations(ast.copy_location(ast.Assign(targets=[t], value=v, lineno=s.lineno), s)))
        else:
            out.append(s)
    return out


def decount(stmts):
    """for v in count(k): if not T(v): return E   (nothing else in the loop, as the last statement)
       ->   v = k; while T(v): v += 1; return E        - the same search for the first v >= k at which T fails."""
    # the bounded form: for v in range(k, len(P)): if not T(P[v]): return E  followed by  raise IndexError(..)  - the unbounded search
    # faults with the same IndexError, on P[len(P)], when no such v exists
    if len(stmts) >= 2 and isinstance(stmts[-1], ast.Raise) and isinstance(stmts[-2], ast.For):
        exc = stmts[-1].exc.func if isinstance(stmts[-1].exc, ast.Call) else stmts[-1].exc
        f = stmts[-2]
        it = f.iter
        if (isinstance(exc, ast.Name) and exc.id == "IndexError" and isinstance(f.target, ast.Name) and not f.orelse
                and isinstance(it, ast.Call) and getattr(it.func, "id", None) == "range" and len(it.args) == 2 and not it.keywords
                and isinstance(it.args[1], ast.Call) and getattr(it.args[1].func, "id", None) == "len" and len(it.args[1].args) == 1
                and isinstance(it.args[1].args[0], ast.Name)
                and len(f.body) == 1 and isinstance(f.body[0], ast.If) and not f.body[0].orelse
                and len(f.body[0].body) == 1 and isinstance(f.body[0].body[0], ast.Return)
                and any(isinstance(x, ast.Subscript) and isinstance(x.value, ast.Name) and x.value.id == it.args[1].args[0].id
                        and isinstance(x.slice, ast.Name) and x.slice.id == f.target.id for x in ast.walk(f.body[0].test))):
            g = ast.copy_location(ast.For(target=f.target, iter=ast.copy_location(ast.Call(
                func=ast.Name(id="count", ctx=ast.Load()), args=[it.args[0]], keywords=[]), it), body=f.body, orelse=[]), f)
            return decount(stmts[:-2] + [ast.fix_missing_locations(g)])
    if not stmts or not isinstance(stmts[-1], ast.For):
        return stmts
    f = stmts[-1]
    it = f.iter
    if not (isinstance(f.target, ast.Name) and not f.orelse and isinstance(it, ast.Call) and not it.keywords and len(it.args) in (0, 1)
            and (getattr(it.func, "id", None) == "count" or getattr(it.func, "attr", None) == "count")
            and len(f.body) == 1 and isinstance(f.body[0], ast.If) and not f.body[0].orelse
            and len(f.body[0].body) == 1 and isinstance(f.body[0].body[0], ast.Return)):
        return stmts
    test = f.body[0].test
    cont = test.operand if isinstance(test, ast.UnaryOp) and isinstance(test.op, ast.Not) else ast.UnaryOp(op=ast.Not(), operand=test)
    v = f.target.id
    start = it.args[0] if it.args else ast.Constant(value=0)
    init = ast.Assign(targets=[ast.Name(id=v, ctx=ast.Store())], value=start)
    step = ast.AugAssign(target=ast.Name(id=v, ctx=ast.Store()), op=ast.Add(), value=ast.Constant(value=1))
    w = ast.While(test=cont, body=[step], orelse=[])
    out = [init, w, f.body[0].body[0]]
    for x in out:
        ast.copy_location(x, f)
        ast.fix_missing_locations(x)
    return stmts[:-1] + out


def demap(stmts, mod):
    """map(f, xs) written as the generator expression it abbreviates (f(x) for x in xs), a module-level helper whose body is one
    return expression written out in place; list(<generator>) as the list comprehension."""
    class T(ast.NodeTransformer):
        def visit_Call(self, n):
            self.generic_visit(n)
            if isinstance(n.func, ast.Name) and n.func.id == "map" and len(n.args) == 2 and not n.keywords:
                f = n.args[0]
                var = "__map_item_%d_%d" % (n.lineno, n.col_offset)
                elt = None
                if isinstance(f, ast.Name) and f.id in mod.funcs:
                    h = mod.funcs[f.id]
                    body = [x for x in h.node.body if not (isinstance(x, ast.Expr) and isinstance(x.value, ast.Constant))]
                    if len(body) == 1 and isinstance(body[0], ast.Return) and body[0].value is not None and len(h.params) == 1 \
                            and not any(isinstance(x, (ast.Lambda, ast.ListComp, ast.GeneratorExp, ast.NamedExpr)) for x in ast.walk(body[0].value)):
                        elt = _Subst({h.params[0]: ast.Name(id=var, ctx=ast.Load())}, {}).visit(copy.deepcopy(body[0].value))
                if elt is None and isinstance(f, (ast.Name, ast.Attribute)):
                    elt = ast.Call(func=f, args=[ast.Name(id=var, ctx=ast.Load())], keywords=[])
                if elt is not None:
                    g = ast.GeneratorExp(elt=elt, generators=[ast.comprehension(target=ast.Name(id=var, ctx=ast.Store()),
                                                                                iter=n.args[1], ifs=[], is_async=0)])
                    return ast.fix_missing_locations(ast.copy_location(g, n))
            if isinstance(n.func, ast.Name) and n.func.id == "list" and len(n.args) == 1 and not n.keywords \
                    and isinstance(n.args[0], ast.GeneratorExp):
                return ast.copy_location(ast.ListComp(elt=n.args[0].elt, generators=n.args[0].generators), n)
            return n
    if not any(isinstance(x, ast.Name) and x.id == "map" for s in stmts for x in ast.walk(s)):
        return stmts
    return [T().visit(copy.deepcopy(s)) for s in stmts]


_FOLD = {ast.Add: lambda a, b: a + b, ast.Sub: lambda a, b: a - b, ast.Mult: lambda a, b: a * b, ast.LShift: lambda a, b: a << b,
         ast.Pow: lambda a, b: a ** b, ast.BitOr: lambda a, b: a | b}


def _int_const(n):
    return isinstance(n, ast.Constant) and type(n.value) is int


class _Fold(ast.NodeTransformer):
    """Constant arithmetic on small integer literals written out ((1 << 28) - 1, 128 ** 4 - 1): the literal it denotes."""

    def visit_BinOp(self, node):
        self.generic_visit(node)
        f = _FOLD.get(type(node.op))
        if f and _int_const(node.left) and _int_const(node.right) and 0 <= node.left.value < 2 ** 32 and 0 <= node.right.value <= 64:
            v = f(node.left.value, node.right.value)
            if 0 <= v < 2 ** 40:
                return ast.copy_location(ast.Constant(value=v), node)
        return node


class _ClassConsts(ast.NodeTransformer):
    """self.NAME / Class.NAME where NAME is bound once, in the class body, to integer arithmetic and never stored anywhere else."""

    def __init__(self, prog, cls):
        self.prog, self.cls = prog, cls
        if "_stored_attrs" not in prog.__dict__:
            st = {n.attr for m in prog.modules.values() for n in ast.walk(m.tree)
                  if isinstance(n, ast.Attribute) and isinstance(n.ctx, (ast.Store, ast.Del))}
            st |= {a.value for m in prog.modules.values() for n in ast.walk(m.tree)
                   if isinstance(n, ast.Call) and isinstance(n.func, ast.Name) and n.func.id in ("setattr", "delattr")
                   for a in n.args[1:2] if isinstance(a, ast.Constant)}
            prog._stored_attrs = st
        self.stored = prog._stored_attrs

    def visit_Attribute(self, node):
        self.generic_visit(node)
        if isinstance(node.ctx, ast.Load) and isinstance(node.value, ast.Name) and node.attr not in self.stored \
                and node.value.id in ("self", self.cls.name):
            hit = self.prog.lookup_classattr(self.cls, node.attr)
            if hit is not None:
                v = _Fold().visit(copy.deepcopy(hit[1]))
                if _int_const(v):
                    return ast.copy_location(v, node)
        return node


def inlined_body(prog, cls, fn):
    """(statements of fn with helper calls inlined, list of helpers inlined)."""
    inl = Inliner(prog, cls.module if cls is not None else fn.module, cls)
    inl.owner_stack.append(fn.cls)
    first = demap(list(fn.node.body), cls.module if cls is not None else fn.module)
    first = first if fn.name == "decode" else split_assignments(join_lists(copy.deepcopy(first)))
    body = inl.body(comps_to_loops(unroll_displays(fuse_lists(first))))
    body = detuple(body)
    if fn.name == "decode":
        body = normalize(body)
    if cls is not None:
        cc = _ClassConsts(prog, cls)
        body = [cc.visit(s) for s in body]
    body = [_Fold().visit(s) for s in body]
    for s in body:
        ast.fix_missing_locations(s)
    return body, inl.inlined
