"""Composition of the path interpreter and the entry-point catalogue (A3 trigger contexts)."""
import ast

from .model import Program, AnalysisError, ClassInfo, load_sources, closed_world_audit
from .interp import Interp, St
from .interp_stmt import StmtMixin
from .interp_expr import ExprMixin
from .interp_call import CallMixin
from .terms import SELF, FAC, NONE, Path, show


class Engine(StmtMixin, ExprMixin, CallMixin, Interp):
    pass


API_OPS = ["connect", "disconnect", "publish", "subscribe", "unsubscribe"]
API_AUX = ["ping", "setTimeout", "setWindowSize", "setBandwith"]
PACKET_OPS = ["CONNACK", "PINGRESP", "SUBACK", "UNSUBACK", "PUBLISH", "PUBACK", "PUBREC", "PUBREL", "PUBCOMP"]


def protocol_classes(prog):
    """The protocol classes: repo classes deriving from the class that derives from twisted Protocol."""
    out = []
    for c in prog.classes.values():
        chain = prog.mro(c)
        if any((not isinstance(k, ClassInfo)) and k[0] == "ext" and k[1].endswith("protocol.Protocol") for k in chain):
            out.append(c)
    out.sort(key=lambda c: (len(prog.mro(c)), c.qual))
    return out


class Analysis:
    """Everything computed once per tree and shared by the rules of all properties."""

    def __init__(self, sources=None, depth=14):
        self.sources = sources if sources is not None else load_sources()
        self.prog = Program(self.sources)
        from .fieldroles import set_roles
        set_roles(self.prog.field_roles())
        self.modelled_reflection, self.offending_reflection = closed_world_audit(self.prog)
        if self.offending_reflection:
            raise AnalysisError("closed-world audit: unmodelled reflection %r" % (self.offending_reflection[:3],))
        self.protos = protocol_classes(self.prog)
        if len(self.protos) < 4:
            raise AnalysisError("floor: %d protocol classes found, 4 confirmed by hand" % len(self.protos))
        self.engines = {}
        for c in self.protos:
            e = Engine(self.prog, c, inline_depth=depth)
            e.build_init()
            self.engines[c.qual] = e
        self._cache = {}

    def engine(self, cls):
        return self.engines[cls.qual if isinstance(cls, ClassInfo) else cls]

    def entry(self, cls, funcname, binds=None, key=None):
        """Paths of method `funcname` of protocol class `cls` as an entry point (cached)."""
        e = self.engine(cls)
        ck = (e.proto.qual, funcname, key)
        if ck in self._cache:
            return self._cache[ck]
        f = self.prog.lookup_method(e.proto, funcname)
        if f is None:
            raise AnalysisError("anchor vanished: %s.%s" % (e.proto.qual, funcname))
        paths = e.entry_paths(f, binds)
        self._cache[ck] = paths
        return paths

    def entry_func(self, cls, func, binds=None, outer_env=None):
        e = self.engine(cls)
        ck = (e.proto.qual, func.qual, "func")
        if ck in self._cache:
            return self._cache[ck]
        paths = e.entry_paths(func, binds)
        self._cache[ck] = paths
        return paths
