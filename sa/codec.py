"""A7: codec layout extraction from mqtt/pdu.py - encoder side, decoder side, primitive helpers.

Nothing is executed: encode() bodies are abstracted to sequences of symbolic segments, decode() bodies to sequences
of reads at symbolic cursor positions, the six helpers to their radix constants by role.  A statement the
interpreters do not understand ends the run with AnalysisError (never a verdict).
"""
import ast

from .model import AnalysisError, NotConst
from .codec_inline import inlined_body

ENC_HELPERS = {"encodeString": "str", "encode16Int": "u16", "encodeLength": "remlen"}


def U(n):
    return ast.unparse(n)


class Desc:
    """Value descriptors used on the encoder side (hashable tuples)."""


def is_self_attr(n):
    return isinstance(n, ast.Attribute) and isinstance(n.value, ast.Name) and n.value.id == "self"


def _is_bytes_alias(mod, name):
    """Module-level NAME = str if PY2 else bytes (either order of str/bytes)."""
    v = mod.consts.get(name)
    return isinstance(v, ast.IfExp) and isinstance(v.body, ast.Name) and isinstance(v.orelse, ast.Name) \
        and {v.body.id, v.orelse.id} <= {"str", "bytes"}


def method_of(prog, cls, name):
    """The method a PDU object of class cls runs for `name`: its own or the nearest inherited one of the program."""
    return prog.lookup_method(cls, name)


def pdu_classes(prog):
    """name -> class of mqtt.pdu that has encode() and decode(), its own or inherited.  A class that only serves as a base
    (it has subclasses in the module and nothing in the program instantiates it) is a template, not a packet."""
    m = prog.modules.get("mqtt.pdu")
    if m is None:
        raise AnalysisError("anchor vanished: mqtt.pdu")
    called = getattr(prog, "_called_names", None)
    if called is None:
        called = set()
        for mod in prog.modules.values():
            for n in ast.walk(mod.tree):
                if isinstance(n, ast.Call):
                    if isinstance(n.func, ast.Name):
                        called.add(n.func.id)
                    elif isinstance(n.func, ast.Attribute):
                        called.add(n.func.attr)
                elif isinstance(n, ast.Dict):
                    for v in n.values:
                        if isinstance(v, ast.Name):
                            called.add(v.id)       # classes kept in a table and instantiated from it
        prog._called_names = called
    out = {}
    for c in m.classes.values():
        if method_of(prog, c, "encode") is None or method_of(prog, c, "decode") is None:
            continue
        is_base = any(o is not c and prog.is_subclass(o, c.qual) for o in m.classes.values())
        if is_base and c.name not in called:
            continue
        out[c.name] = c
    return out


class EncoderLayout:
    """Layout of the buffer returned by one encode()."""

    def __init__(self, prog, cls, assume=None):
        self.prog = prog
        self.cls = cls
        self.mod = cls.module
        self.fn = method_of(prog, cls, "encode")
        self.assume = assume or {}
        self.branch_guards = []     # guard texts of ifs that change buffers or flag bytes
        self.bufs = {}
        self.vals = {}
        self.raises = []          # (guard text, exception name, node)
        self.fields_read = set()
        self.calls = set()
        self.writes_self = set()
        self.result = None
        self.loopvars = {}
        self.guards = []
        self.alias = {}           # local name -> name of the buffer it denotes (x = buf, x = bytes(buf), helper results)
        self.body, self.helpers = inlined_body(prog, cls, self.fn)
        self._run(self.body)
        if self.result is None and not getattr(self, "dead", False):
            raise AnalysisError("encode() of %s returns no recognisable buffer" % cls.name)

    # ---- value descriptors ----------------------------------------------
    def fold(self, n):
        try:
            return True, self.prog.fold(n, self.mod, self.cls)
        except NotConst:
            return False, None

    def vdesc(self, n):
        ok, v = self.fold(n)
        if ok and isinstance(v, (int, bool)) and not isinstance(n, ast.Name):
            return ("const", int(v))
        if is_self_attr(n):
            self.fields_read.add(n.attr)
            return ("field", n.attr)
        if isinstance(n, ast.Name):
            if n.id in self.vals:
                return self.vals[n.id]
            if n.id in self.loopvars:
                return ("loopvar", n.id)
            if self.canon(n.id) in self.bufs:
                c = self.canon(n.id)       # a local that is another name of a buffer measures that buffer
                return ("bufref", c, len(self.bufs[c]))
            if ok:
                return ("const", int(v)) if isinstance(v, (int, bool)) else ("constobj", repr(v))
            return ("name", n.id)
        if isinstance(n, ast.Subscript):
            base = self.vdesc(n.value)
            ok2, k = self.fold(n.slice)
            if ok2 and isinstance(k, int) and isinstance(base, tuple) and base[:1] == ("bufref",) and base[1] in self.bufs \
                    and 0 <= k < len(self.bufs[base[1]]) and self.bufs[base[1]][k][0] == "byte" \
                    and all(sg[0] == "byte" for sg in self.bufs[base[1]][:k]):
                return self.bufs[base[1]][k][1]       # byte k of a buffer built here: the value that was put there
            if ok2:
                return ("item", base, k)
            return ("item", base, U(n.slice))
        if isinstance(n, ast.BinOp):
            if isinstance(n.op, ast.BitOr):
                return self._bits_or(self.vdesc(n.left), self.vdesc(n.right))
            if isinstance(n.op, ast.LShift):
                ok2, s = self.fold(n.right)
                if ok2 and isinstance(n.left, ast.Call) and isinstance(n.left.func, ast.Name) and n.left.func.id in ("int", "bool") \
                        and len(n.left.args) == 1 and not n.left.keywords and (
                            isinstance(n.left.args[0], (ast.Compare, ast.BoolOp))
                            or (isinstance(n.left.args[0], ast.Name) and n.left.args[0].id in getattr(self, "testvals", {}))):
                    # int(self.x is not None) << 7: the same truth value, as the number it counts for
                    return ("bits", 0, ((("const", 1 << int(s)), 0, self._guard_text(n.left.args[0])),))
                if ok2 and ((isinstance(n.left, ast.Name) and n.left.id in getattr(self, "testvals", {}))
                            or isinstance(n.left, (ast.Compare, ast.BoolOp))):
                    # a truth value shifted into place (hasUser << 7): the bit is set exactly when the test holds
                    return ("bits", 0, ((("const", 1 << int(s)), 0, self._guard_text(n.left)),))
                if ok2:
                    return ("bits", 0, ((self.vdesc(n.left), int(s), None),))
            if isinstance(n.op, ast.Mult):
                ok2, s = self.fold(n.right)
                if ok2 and isinstance(s, int) and s > 0 and s & (s - 1) == 0:
                    return ("bits", 0, ((self.vdesc(n.left), s.bit_length() - 1, None),))
            if isinstance(n.op, ast.Add):
                return ("sum", tuple(self._flat_sum(n)))
            return ("expr", U(n))
        if isinstance(n, ast.Call):
            f = n.func
            if isinstance(f, ast.Name):
                self.calls.add(f.id)
                if f.id == "len" and len(n.args) == 1:
                    return ("len", self.vdesc(n.args[0]))
                if f.id == "int" and len(n.args) == 1:
                    return self.vdesc(n.args[0])
                if f.id in ("bool",) and len(n.args) == 1:
                    return self.vdesc(n.args[0])
            return ("call", U(n))
        if isinstance(n, ast.IfExp):
            return ("ifexp", U(n.test), self.vdesc(n.body), self.vdesc(n.orelse))
        return ("expr", U(n))

    def _flat_sum(self, n):
        if isinstance(n, ast.BinOp) and isinstance(n.op, ast.Add):
            return self._flat_sum(n.left) + self._flat_sum(n.right)
        return [self.vdesc(n)]

    def _bits_or(self, a, b):
        def as_bits(x):
            if x[0] == "bits":
                return x
            if x[0] == "const":
                return ("bits", x[1], ())
            return ("bits", 0, ((x, 0, None),))
        a, b = as_bits(a), as_bits(b)
        return ("bits", a[1] | b[1], tuple(a[2]) + tuple(b[2]))

    # ---- buffer expressions ----------------------------------------------
    def canon(self, name):
        seen = set()
        while name in self.alias and name not in seen:
            seen.add(name)
            name = self.alias[name]
        return name

    def _concat_of_buffers(self, v):
        """a packet assembled by concatenation: bytearray((code,)) + encodeLength(..) + varHeader + payload"""
        def leaves(e):
            return leaves(e.left) + leaves(e.right) if isinstance(e, ast.BinOp) and isinstance(e.op, ast.Add) else [e]
        return isinstance(v, ast.BinOp) and isinstance(v.op, ast.Add) and any(
            (isinstance(x, ast.Name) and self.canon(x.id) in self.bufs) or
            (isinstance(x, ast.Call) and isinstance(x.func, ast.Name) and (x.func.id in ENC_HELPERS or x.func.id in ("bytearray", "bytes")))
            for x in leaves(v))

    def view_of(self, n):
        """Name of the buffer an expression is a view / copy-conversion of: buf, bytes(buf), str(buf), `str(buf) if PY2 else bytes(buf)`."""
        if isinstance(n, ast.Name):
            c = self.canon(n.id)
            return c if c in self.bufs else None
        if is_self_attr(n) and n.attr in getattr(self, "selfbuf", {}):
            return self.selfbuf[n.attr]
        if isinstance(n, ast.Call) and isinstance(n.func, ast.Name) and n.func.id in ("bytes", "str") and len(n.args) == 1 and not n.keywords:
            return self.view_of(n.args[0])
        if isinstance(n, ast.Call) and isinstance(n.func, ast.Name) and len(n.args) == 1 and not n.keywords and _is_bytes_alias(self.mod, n.func.id):
            return self.view_of(n.args[0])       # NAME = str if PY2 else bytes, decided once at import
        if isinstance(n, ast.IfExp):
            a, b = self.view_of(n.body), self.view_of(n.orelse)
            return a if a is not None and a == b else None
        return None

    def hi_lo_pair(self, elts):
        """(x) when the two expressions are the high and the low byte of one value x: x >> 8 / x & 0xFF, x // 256 / x % 256,
        or the two results of divmod(x, 256)."""
        if len(elts) != 2:
            return None
        a, b = elts

        def hi(e):
            if isinstance(e, ast.BinOp) and isinstance(e.op, ast.RShift) and self.fold(e.right) == (True, 8):
                return e.left
            if isinstance(e, ast.BinOp) and isinstance(e.op, ast.FloorDiv) and self.fold(e.right) == (True, 256):
                return e.left
            if isinstance(e, ast.Name) and self.vals.get(e.id, (None,))[0] == "hi8":
                return self.vals[e.id][2]
            return None

        def lo(e):
            if isinstance(e, ast.BinOp) and isinstance(e.op, ast.BitAnd) and self.fold(e.right) == (True, 255):
                return e.left
            if isinstance(e, ast.BinOp) and isinstance(e.op, ast.Mod) and self.fold(e.right) == (True, 256):
                return e.left
            if isinstance(e, ast.Name) and self.vals.get(e.id, (None,))[0] == "lo8":
                return self.vals[e.id][2]
            return None
        x, y = hi(a), lo(b)
        if x is not None and y is not None and ast.dump(x) == ast.dump(y):
            return x
        return None

    def bufexpr(self, n):
        """Segments produced by an expression that evaluates to a byte sequence."""
        if isinstance(n, ast.BinOp) and isinstance(n.op, ast.Add):
            return self.bufexpr(n.left) + self.bufexpr(n.right)
        if isinstance(n, ast.Call) and isinstance(n.func, ast.Attribute) and n.func.attr == "join" and len(n.args) == 1 \
                and isinstance(n.func.value, ast.Call) and isinstance(n.func.value.func, ast.Name) and n.func.value.func.id in ("bytearray", "bytes") \
                and not n.func.value.args and isinstance(n.args[0], (ast.ListComp, ast.GeneratorExp)) and len(n.args[0].generators) == 1:
            # bytearray().join(<bytes of x> for x in self.items): the loop that appends them one after the other
            g = n.args[0].generators[0]
            if is_self_attr(g.iter) and isinstance(g.target, ast.Name) and not g.ifs:
                self.fields_read.add(g.iter.attr)
                self.loopvars[g.target.id] = g.iter.attr
                try:
                    segs = self.bufexpr(n.args[0].elt)
                finally:
                    self.loopvars.pop(g.target.id, None)
                self.iter_order = getattr(self, "iter_order", [])
                self.iter_order.append(U(g.iter))
                return [("repeat", g.iter.attr, g.target.id, tuple(segs))]
        if isinstance(n, ast.Constant) and isinstance(n.value, (bytes, bytearray)):
            return [("byte", ("const", int(b)), "0x%02x" % b) for b in n.value]       # b'\xc0\x00': one constant byte each
        if isinstance(n, ast.Call) and isinstance(n.func, ast.Name) and n.func.id == "bytearray" and len(n.args) == 1 and not n.keywords \
                and isinstance(n.args[0], ast.Constant) and isinstance(n.args[0].value, (bytes, bytearray)):
            self.calls.add("bytearray")
            return self.bufexpr(n.args[0])
        if isinstance(n, ast.Call) and isinstance(n.func, ast.Name):
            f = n.func.id
            self.calls.add(f)
            if f in ENC_HELPERS and len(n.args) == 1:
                return [(ENC_HELPERS[f], self.vdesc(n.args[0]), U(n.args[0]))]
            if f == "bytearray":
                if not n.args and not n.keywords:
                    return []
                if len(n.args) == 1 and not n.keywords and isinstance(n.args[0], (ast.Tuple, ast.List)):
                    # bytearray((b0, b1, ..)): one byte per element; the high/low pair of one value is a 16-bit integer
                    x = self.hi_lo_pair(n.args[0].elts)
                    if x is not None:
                        return [("u16", self.vdesc(x), U(x))]
                    return [("byte", self.vdesc(e), U(e)) for e in n.args[0].elts]
                if len(n.args) == 1 and not n.keywords and isinstance(n.args[0], ast.Call) and isinstance(n.args[0].func, ast.Name) \
                        and n.args[0].func.id == "divmod" and len(n.args[0].args) == 2 and self.fold(n.args[0].args[1]) == (True, 256):
                    x = n.args[0].args[0]
                    return [("u16", self.vdesc(x), U(x))]
                if len(n.args) == 1 and not n.keywords and self.view_of(n.args[0]) is not None:
                    return list(self.bufs[self.view_of(n.args[0])])
                ok, v = self.fold(n.args[0]) if n.args else (False, None)
                if ok and isinstance(v, int) and not n.keywords and len(n.args) == 1:
                    return [("byte", ("const", 0), "0")] * v
                enc = None
                errors = None
                if len(n.args) > 1:
                    ok2, enc = self.fold(n.args[1])
                if len(n.args) > 2:
                    ok3, errors = self.fold(n.args[2])
                for kw in n.keywords:
                    ok2, v2 = self.fold(kw.value)
                    if kw.arg == "encoding":
                        enc = v2
                    elif kw.arg == "errors":
                        errors = v2
                src = n.args[0]
                stxt = ("self." + self.vals[src.id][1]) if isinstance(src, ast.Name) and self.vals.get(src.id, (None,))[0] == "field" else U(src)
                return [("text", self.vdesc(src), enc, errors, stxt)]
            if f in ("bytes", "str") and len(n.args) == 1:
                return self.bufexpr(n.args[0])
        if isinstance(n, ast.Name):
            c = self.canon(n.id)
            if c in self.bufs:
                return [("sub", c, tuple(self.bufs[c]))]
            if n.id in self.vals and self.vals[n.id][0] == "bufval":
                return list(self.vals[n.id][1])
            if n.id in self.vals and self.vals[n.id][0] == "field":
                self.fields_read.add(self.vals[n.id][1])
                return [("raw", self.vals[n.id], "self." + self.vals[n.id][1])]
        if is_self_attr(n):
            self.fields_read.add(n.attr)
            return [("raw", ("field", n.attr), U(n))]
        raise AnalysisError("encoder of %s: byte expression %s not understood" % (self.cls.name, U(n)))

    # ---- statements --------------------------------------------------------
    def _run(self, stmts):
        for s in stmts:
            if getattr(self, "dead", False):
                return      # on this assumed combination of guards the encoder has raised: nothing after it runs
            self._stmt(s)

    def _stmt(self, s):
        if isinstance(s, ast.Expr):
            if isinstance(s.value, ast.Constant):
                return
            c = s.value
            if isinstance(c, ast.Call) and isinstance(c.func, ast.Attribute) and isinstance(c.func.value, ast.Name):
                b, m = self.canon(c.func.value.id), c.func.attr
                if b in self.bufs and m == "extend" and len(c.args) == 1:
                    self.bufs[b] = self.bufs[b] + self.bufexpr(c.args[0])
                    return
                if b in self.bufs and m == "append" and len(c.args) == 1:
                    self.bufs[b] = self.bufs[b] + [("byte", self.vdesc(c.args[0]), U(c.args[0]))]
                    return
                if b in self.bufs and m == "insert" and len(c.args) == 2 and self.fold(c.args[0]) == (True, 0):
                    self.bufs[b] = [("byte", self.vdesc(c.args[1]), U(c.args[1]))] + self.bufs[b]       # one byte in front
                    return
                if b == "log":
                    return
            raise AnalysisError("encoder of %s: statement %s not understood" % (self.cls.name, U(s)))
        if isinstance(s, ast.Assign) and len(s.targets) == 1:
            t = s.targets[0]
            if isinstance(t, ast.Name):
                v = s.value
                self.alias.pop(t.id, None)
                vw = self.view_of(v)
                if vw is not None:
                    # another name for (or a bytes()/str() view of) an existing buffer
                    if vw != t.id:
                        self.alias[t.id] = vw
                        self.bufs.pop(t.id, None)
                    self.vals.pop(t.id, None)
                    return
                if isinstance(v, ast.Call) and isinstance(v.func, ast.Name) and v.func.id in ("bytearray",) + tuple(ENC_HELPERS):
                    self.bufs[t.id] = self.bufexpr(v)
                    self.vals.pop(t.id, None)
                    return
                if isinstance(v, ast.Call) and isinstance(v.func, ast.Attribute) and v.func.attr == "join":
                    self.bufs[t.id] = self.bufexpr(v)
                    self.vals.pop(t.id, None)
                    return
                def _add_leaves(e):
                    return _add_leaves(e.left) + _add_leaves(e.right) if isinstance(e, ast.BinOp) and isinstance(e.op, ast.Add) else [e]
                if isinstance(v, ast.BinOp) and isinstance(v.op, ast.Add) and any(
                        (isinstance(x, ast.Name) and self.canon(x.id) in self.bufs) or
                        (isinstance(x, ast.Call) and isinstance(x.func, ast.Name) and (x.func.id in ENC_HELPERS or x.func.id in ("bytearray", "bytes")))
                        for x in _add_leaves(v)):
                    # a packet assembled by concatenation: bytearray((code,)) + encodeLength(..) + varHeader + payload
                    self.bufs[t.id] = self.bufexpr(v)
                    self.vals.pop(t.id, None)
                    return
                if isinstance(v, ast.Constant) and v.value is None:
                    self.vals[t.id] = ("const", None)
                    return
                if isinstance(v, (ast.Compare, ast.BoolOp)) or (isinstance(v, ast.UnaryOp) and isinstance(v.op, ast.Not)):
                    # a local that names a test (hasWill = self.a is not None and ..): guards on it read as that test
                    self.testvals = getattr(self, "testvals", {})
                    self.testvals[t.id] = v
                self.vals[t.id] = self.vdesc(v)
                return
            if isinstance(t, ast.Tuple) and len(t.elts) == 2 and all(isinstance(x, ast.Name) for x in t.elts) and isinstance(s.value, ast.Call) \
                    and isinstance(s.value.func, ast.Name) and s.value.func.id == "divmod" and len(s.value.args) == 2 \
                    and self.fold(s.value.args[1]) == (True, 256):
                x = s.value.args[0]
                self.vals[t.elts[0].id] = ("hi8", U(x), x)
                self.vals[t.elts[1].id] = ("lo8", U(x), x)
                return
            if isinstance(t, ast.Subscript) and isinstance(t.value, ast.Name) and self.canon(t.value.id) in self.bufs \
                    and isinstance(t.slice, ast.Slice) and t.slice.step is None and t.slice.upper is not None \
                    and self.fold(t.slice.upper) == (True, 0) and (t.slice.lower is None or self.fold(t.slice.lower) == (True, 0)):
                # buf[0:0] = X / buf[:0] = X: X goes in front of what buf holds.  What buf held becomes a buffer of its own (so that a
                # length measured in X - the remaining length - is the length of exactly that part)
                bn = self.canon(t.value.id)
                body_name = bn + "@body%d" % len([k for k in self.bufs if k.startswith(bn + "@body")])
                old = list(self.bufs[bn])
                self.bufs[body_name] = old
                front = self.bufexpr(s.value)

                def ren(x):
                    if isinstance(x, tuple):
                        if x[:2] == ("bufref", bn):
                            return ("bufref", body_name) + tuple(x[2:])
                        return tuple(ren(y) for y in x)
                    if isinstance(x, list):
                        return [ren(y) for y in x]
                    return x
                self.bufs[bn] = [ren(sg) for sg in front] + [("sub", body_name, tuple(old))]
                return
            if isinstance(t, ast.Subscript) and isinstance(t.value, ast.Name) and self.canon(t.value.id) in self.bufs:
                ok, i = self.fold(t.slice)
                bn = self.canon(t.value.id)
                buf = list(self.bufs[bn])
                if ok and isinstance(i, int) and 0 <= i < len(buf) and buf[i][0] == "byte":
                    buf[i] = ("byte", self.vdesc(s.value), U(s.value))
                    self.bufs[bn] = buf
                    return
                raise AnalysisError("encoder of %s: indexed store %s not understood" % (self.cls.name, U(s)))
            if is_self_attr(t):
                self.writes_self.add(t.attr)
                if self.view_of(s.value) is not None:
                    self.stored = self.view_of(s.value)
                    self.selfbuf = getattr(self, "selfbuf", {})
                    self.selfbuf[t.attr] = self.stored
                elif (isinstance(s.value, ast.Call) and isinstance(s.value.func, ast.Name) and s.value.func.id == "bytearray" and len(s.value.args) == 1
                        and not s.value.keywords and isinstance(s.value.args[0], (ast.Tuple, ast.List))) or self._concat_of_buffers(s.value):
                    # self.encoded = bytearray((0xE0, 0x00)): the packet written out in the store itself - a buffer without a local name
                    bn = "@self.%s" % t.attr
                    self.bufs[bn] = self.bufexpr(s.value)
                    self.stored = bn
                    self.selfbuf = getattr(self, "selfbuf", {})
                    self.selfbuf[t.attr] = bn
                return
            raise AnalysisError("encoder of %s: assignment %s not understood" % (self.cls.name, U(s)))
        if isinstance(s, ast.AugAssign) and isinstance(s.op, ast.BitOr) and isinstance(s.target, ast.Subscript) and isinstance(s.target.value, ast.Name) \
                and self.canon(s.target.value.id) in self.bufs:
            # buf[i] |= bits: the byte stored there with more bits or-ed in
            ok, i = self.fold(s.target.slice)
            bn = self.canon(s.target.value.id)
            buf = list(self.bufs[bn])
            if ok and isinstance(i, int) and 0 <= i < len(buf) and buf[i][0] == "byte":
                buf[i] = ("byte", self._bits_or(buf[i][1], self.vdesc(s.value)), "%s | %s" % (buf[i][2], U(s.value)))
                self.bufs[bn] = buf
                return
            raise AnalysisError("encoder of %s: indexed store %s not understood" % (self.cls.name, U(s)))
        if isinstance(s, ast.AugAssign) and isinstance(s.target, ast.Name) and isinstance(s.op, ast.Add) and self.canon(s.target.id) in self.bufs:
            # buf += bytes  ==  buf.extend(bytes)
            bn = self.canon(s.target.id)
            self.bufs[bn] = self.bufs[bn] + self.bufexpr(s.value)
            return
        if isinstance(s, ast.AugAssign) and isinstance(s.target, ast.Name) and isinstance(s.op, ast.Add) and s.target.id in self.vals:
            old = self.vals[s.target.id]
            new = self.vdesc(s.value)
            parts = (list(old[1]) if old[0] == "sum" else [old]) + (list(new[1]) if new[0] == "sum" else [new])
            parts = [x for x in parts if x != ("const", 0)] or [("const", 0)]        # n = 0; n += a; n += b  is  a + b
            self.vals[s.target.id] = ("sum", tuple(parts)) if len(parts) > 1 else parts[0]
            return
        if isinstance(s, ast.AugAssign) and isinstance(s.target, ast.Name) and isinstance(s.op, ast.BitOr):
            old = self.vals.get(s.target.id, ("const", 0))
            self.vals[s.target.id] = self._bits_or(old, self.vdesc(s.value))
            return
        if isinstance(s, ast.Return):
            names = [self.canon(x.id) for x in ast.walk(s.value) if isinstance(x, ast.Name) and self.canon(x.id) in self.bufs] \
                if s.value is not None else []
            names += [self.selfbuf[x.attr] for x in ast.walk(s.value) if is_self_attr(x) and x.attr in getattr(self, "selfbuf", {})] \
                if s.value is not None else []
            if len(set(names)) != 1:
                raise AnalysisError("encoder of %s: return %s not understood" % (self.cls.name, U(s)))
            self.result = names[0]
            self.return_node = s
            return
        if isinstance(s, ast.Raise):
            exc = s.exc.func if isinstance(s.exc, ast.Call) else s.exc
            self.raises.append((" and ".join(self.guards) or "always", U(exc), s))
            if self.guards and getattr(self, "free_depth", 0) == 0:
                self.dead = True       # reached through assumed guards only
            return
        if isinstance(s, ast.If):
            self._if(s)
            return
        if isinstance(s, ast.For):
            self._for(s)
            return
        if isinstance(s, ast.Pass):
            return
        raise AnalysisError("encoder of %s: statement %s not understood" % (self.cls.name, type(s).__name__))

    def _snapshot(self):
        # names that stand for another buffer are materialised, so that the two arms of an if can be compared name by name
        bufs = {k: list(v) for k, v in self.bufs.items()}
        for k in list(self.alias):
            c = self.canon(k)
            if c in self.bufs:
                bufs[k] = list(self.bufs[c])
        self._alias_snap = dict(self.alias)
        return bufs, dict(self.vals)

    def _guard_text(self, test):
        """Source text of a test with locals that merely name a field (x = self.f) written as the field."""
        al = {k: v[1] for k, v in self.vals.items() if isinstance(v, tuple) and v and v[0] == "field"}
        tests = getattr(self, "testvals", {})
        if not al and not tests:
            return U(test)
        import copy as _copy0

        class R(ast.NodeTransformer):
            def visit_Name(self, n):
                if n.id in al and isinstance(n.ctx, ast.Load):
                    return ast.Attribute(value=ast.Name(id="self", ctx=ast.Load()), attr=al[n.id], ctx=ast.Load())
                if n.id in tests and isinstance(n.ctx, ast.Load):
                    return _copy0.deepcopy(tests[n.id])
                return n
        import copy as _copy
        return U(ast.fix_missing_locations(R().visit(_copy.deepcopy(test))))

    def _if(self, s):
        gtxt = self._guard_text(s.test)
        for x in ast.walk(s.test):
            if is_self_attr(x):
                self.fields_read.add(x.attr)
            if isinstance(x, ast.Name) and self.vals.get(x.id, (None,))[0] == "field":
                self.fields_read.add(self.vals[x.id][1])
        # `buf is [not] None` for a local that holds a buffer (an optional section passed to a helper): decided
        t = s.test
        if isinstance(t, ast.Compare) and len(t.ops) == 1 and isinstance(t.ops[0], (ast.Is, ast.IsNot)) and isinstance(t.left, ast.Name) \
                and isinstance(t.comparators[0], ast.Constant) and t.comparators[0].value is None:
            nm = t.left.id
            known = None
            if self.canon(nm) in self.bufs:
                known = True
            elif self.vals.get(nm) == ("const", None):
                known = False
            if known is not None:
                nonnull = known
                take = nonnull if isinstance(t.ops[0], ast.IsNot) else (not nonnull)
                self._run(s.body if take else s.orelse)
                return
        # a guard that only raises
        if all(isinstance(x, ast.Raise) for x in s.body) and not s.orelse:
            self.guards.append(gtxt)
            self.free_depth = getattr(self, "free_depth", 0) + 1
            self._run(s.body)
            self.free_depth -= 1
            self.guards.pop()
            return
        if gtxt not in self.branch_guards:
            self.branch_guards.append(gtxt)
        if gtxt in self.assume:
            self.guards.append(gtxt if self.assume[gtxt] else "not (%s)" % gtxt)
            self._run(s.body if self.assume[gtxt] else s.orelse)
            self.guards.pop()
            return
        b0, v0 = self._snapshot()
        a0 = dict(self.alias)
        raw0 = {k: list(v) for k, v in self.bufs.items()}
        self.free_depth = getattr(self, "free_depth", 0) + 1
        try:
            self._if_free(s, gtxt, b0, v0, a0, raw0)
        finally:
            self.free_depth -= 1

    def _if_free(self, s, gtxt, b0, v0, a0, raw0):
        self.guards.append(gtxt)
        self._run(s.body)
        self.guards.pop()
        b1, v1 = self._snapshot()
        a1 = dict(self.alias)
        raw1 = ({k: list(v) for k, v in self.bufs.items()}, dict(self.vals), dict(self.alias))
        self.bufs, self.vals, self.alias = {k: list(v) for k, v in raw0.items()}, dict(v0), dict(a0)
        self.guards.append("not (%s)" % gtxt)
        self._run(s.orelse)
        self.guards.pop()
        b2, v2 = self._snapshot()
        a2 = dict(self.alias)
        # an arm that ends by raising hands nothing on: what follows the statement sees the other arm's state
        if s.orelse and isinstance(s.orelse[-1], ast.Raise):
            self.bufs, self.vals, self.alias = raw1
            return
        if s.body and isinstance(s.body[-1], ast.Raise):
            return
        # a name that stands for different buffers in the two arms becomes a buffer of its own (the merge of the two)
        keep = {k: v for k, v in a1.items() if a2.get(k) == v}
        for k in set(a1) | set(a2):
            if k not in keep:
                b1.setdefault(k, []), b2.setdefault(k, [])
        for k in keep:
            b1.pop(k, None), b2.pop(k, None)
        self.alias = keep
        # merge buffers
        merged = {}
        for k in set(b1) | set(b2):
            x, y = b1.get(k, []), b2.get(k, [])
            # a local that names a field in one arm and holds a conversion of it in the other (x = self.f; if ..: x = bytearray(x, ..))
            if k not in b2 and isinstance(v2.get(k), tuple) and v2[k][0] == "field":
                y = [("raw", v2[k], "self." + v2[k][1])]
            if k not in b1 and isinstance(v1.get(k), tuple) and v1[k][0] == "field":
                x = [("raw", v1[k], "self." + v1[k][1])]
            base = b0.get(k, [])
            n = 0
            while n < len(x) and n < len(y) and x[n] == y[n]:
                n += 1
            if n == len(x) == len(y):
                merged[k] = x
            else:
                # bytes assigned by index in both arms (same length, positions differ): per-position alternatives
                if len(x) == len(y) and all(a[0] == "byte" and b[0] == "byte" for a, b in zip(x[n:], y[n:]) if a != b):
                    out = list(x[:n])
                    for a, b in zip(x[n:], y[n:]):
                        out.append(a if a == b else ("byte", ("alt", gtxt, a[1], b[1]), "%s if %s else %s" % (a[2], gtxt, b[2])))
                    merged[k] = out
                else:
                    # common suffix-free alternative section
                    m = 0
                    while m < len(x) - n and m < len(y) - n and x[len(x) - 1 - m] == y[len(y) - 1 - m]:
                        m += 1
                    mid_x, mid_y = x[n:len(x) - m], y[n:len(y) - m]
                    merged[k] = list(x[:n]) + [("opt", gtxt, tuple(mid_x), tuple(mid_y))] + list(x[len(x) - m:])
        self.bufs = merged
        # merge locals (flag bytes)
        mv = {}
        for k in set(v1) | set(v2):
            a, b = v1.get(k), v2.get(k)
            if a == b:
                mv[k] = a
            elif a is not None and b is not None and a[0] == "bits" and b[0] == "bits" and tuple(b[2]) == tuple(a[2][:len(b[2])]):
                extra = a[2][len(b[2]):]
                guarded = tuple((d, sh, gtxt if g is None else "%s and %s" % (g, gtxt)) for d, sh, g in extra)
                constdiff = a[1] & ~b[1]
                parts = tuple(b[2]) + guarded
                if constdiff:
                    parts = parts + ((("const", constdiff), 0, gtxt),)
                mv[k] = ("bits", b[1], parts)
            elif a is not None and b is None:
                mv[k] = ("ifval", gtxt, a, None)
            else:
                mv[k] = ("ifval", gtxt, a, b)
        # a name that became a buffer through the merge (field in one arm, conversion in the other) is no longer a plain value
        for k in merged:
            if (k in b1) != (k in b2):
                mv.pop(k, None)
        self.vals = mv

    def _for(self, s):
        it = s.iter
        self.iter_wrappers = getattr(self, "iter_wrappers", [])
        while isinstance(it, ast.Call) and isinstance(it.func, ast.Name) and len(it.args) >= 1:
            self.iter_wrappers.append((it.func.id, U(s.iter), s))
            it = it.args[0]
        if not is_self_attr(it) or not isinstance(s.target, ast.Name) or s.orelse:
            raise AnalysisError("encoder of %s: loop %s not understood" % (self.cls.name, U(s.iter)))
        s_iter_attr = it.attr
        self.fields_read.add(it.attr)
        b0, v0 = self._snapshot()
        self.loopvars[s.target.id] = s_iter_attr
        for k in self.bufs:
            self.bufs[k] = []
        self._run(s.body)
        body = self._snapshot()[0]
        self.loopvars.pop(s.target.id)
        out = {}
        for k, pre in b0.items():
            add = body.get(k, [])
            out[k] = list(pre) + ([("repeat", s_iter_attr, s.target.id, tuple(add))] if add else [])
        self.bufs = out
        self.iter_order = getattr(self, "iter_order", [])
        self.iter_order.append(U(s.iter))

    # ---- results -------------------------------------------------------------
    def layout(self):
        return self.bufs[self.result]

    def flat(self, segs=None, expand_sub=True):
        """Segments with sub-buffers expanded."""
        out = []
        for sg in (self.layout() if segs is None else segs):
            if sg[0] == "sub" and expand_sub:
                out.extend(self.flat(sg[2]))
            else:
                out.append(sg)
        return out


def encoder_layouts(prog):
    m = prog.modules.get("mqtt.pdu")
    if m is None:
        raise AnalysisError("anchor vanished: mqtt.pdu")
    out = {}
    for c in pdu_classes(prog).values():
        out[c.name] = EncoderLayout(prog, c)
    return out


# =====================================================================================
# Decoder side
# =====================================================================================

class Lin:
    """Linear form: constant + sum of symbols."""

    def __init__(self, c=0, syms=()):
        self.c = c
        self.syms = tuple(sorted(syms))

    def add(self, other):
        if isinstance(other, int):
            return Lin(self.c + other, self.syms)
        return Lin(self.c + other.c, self.syms + other.syms)

    def key(self):
        return (self.c, self.syms)

    def __eq__(self, o):
        return isinstance(o, Lin) and self.key() == o.key()

    def __hash__(self):
        return hash(self.key())

    def __repr__(self):
        return "+".join([str(self.c)] + list(self.syms)) if self.syms else str(self.c)


class DecoderLayout:
    """Sequence of reads performed by one decode(), with the cursor position of each."""

    def __init__(self, prog, cls, assume=None):
        self.prog = prog
        self.cls = cls
        self.mod = cls.module
        self.fn = method_of(prog, cls, "decode")
        self.assume = assume or {}
        self.branch_guards = []
        self.nsym = 0
        params = [a.arg for a in self.fn.node.args.args]
        self.pkt = params[1] if len(params) > 1 else None
        self.reads = []           # dicts
        self.cursors = {}         # local name -> Lin (offset into the body)
        self.locals = {}          # local name -> read record or descriptor
        self.assigned = []        # self fields assigned, in order
        self.hdr = {"found": False, "mask": None, "start": None, "plus": None}
        self.guards = []
        self.lenvar = None
        self.body, self.helpers = inlined_body(prog, cls, self.fn)
        self._run(self.body)
        self._merge_manual_strings(self.reads)

    def _merge_manual_strings(self, reads):
        """n = decode16Int(rest[o:]) ... rest[o+2:o+2+n].decode('utf-8')  is decodeString written out: the two reads become the
        one string read at o (what the encoder's encodeString is compared with).  The length read stays when a field keeps it."""
        for r in list(reads):
            if r.get("kind") == "repeat":
                self._merge_manual_strings(r["body"])
                continue
            if r.get("kind") != "text" or r.get("upto") is None or not isinstance(r.get("off"), Lin):
                continue
            enc = (r.get("encoding") or "utf-8")
            if not (isinstance(enc, str) and enc.lower().replace("_", "-") in ("utf-8", "utf8")):
                continue
            for u in reads:
                if u.get("kind") == "u16" and isinstance(u.get("off"), Lin) and u.get("sym") and u["guard"] == r["guard"] \
                        and r["off"] == u["off"].add(Lin(2)) and r["upto"] == r["off"].add(Lin(0, (u["sym"],))):
                    r["kind"] = "str"
                    r["off"] = u["off"]
                    r["sym"] = u["sym"]
                    r["consumed"] = True
                    r.pop("upto", None)
                    if u["target"][0] != "self" and u in reads:
                        reads.remove(u)
                    break

    def fold(self, n):
        try:
            return True, self.prog.fold(n, self.mod, self.cls, env=getattr(self, "constenv", None) or None)
        except NotConst:
            return False, None

    # ---- offsets -------------------------------------------------------------
    def lin(self, n):
        """Linear form of an index expression over constants and locals holding lengths."""
        ok, v = self.fold(n)
        if ok and isinstance(v, int):
            return Lin(v)
        if isinstance(n, ast.Name):
            r = self.locals.get(n.id)
            if isinstance(r, dict) and r["kind"] == "u16":
                return Lin(0, (r["sym"],))
            if isinstance(r, dict) and r["kind"] == "charlen":
                return Lin(0, (r["sym"],))
            if isinstance(r, dict) and r["kind"] == "lin":
                return r["lin"]
            raise AnalysisError("decoder of %s: index %s is not a length read earlier" % (self.cls.name, n.id))
        if isinstance(n, ast.Call) and isinstance(n.func, ast.Name) and n.func.id == "decode16Int" and len(n.args) == 1:
            # a length read in passing, inside an offset computation
            r = self.read_expr(n, ("local", "<offset>"))
            if r is not None and r["kind"] == "u16":
                return Lin(0, (r["sym"],))
        if isinstance(n, ast.BinOp) and isinstance(n.op, (ast.Add, ast.BitOr)):
            # a 16-bit length joined in place from two neighbouring bytes, inside an offset computation
            mark = len(self.reads)
            r = self.read_expr(n, ("local", "<offset>"))
            if r is not None and r["kind"] == "u16":
                return Lin(0, (r["sym"],))
            del self.reads[mark:]
        if isinstance(n, ast.BinOp) and isinstance(n.op, ast.Add):
            return self.lin(n.left).add(self.lin(n.right))
        raise AnalysisError("decoder of %s: index expression %s not understood" % (self.cls.name, U(n)))

    def rec(self, kind, target, off, **extra):
        src = extra.get("source")
        if kind == "bits" and isinstance(src, dict) and src.get("kind") == "bits" and src.get("cmp") is None and isinstance(src.get("source"), dict) \
                and isinstance(extra.get("mask"), int) and isinstance(src.get("mask"), int):
            # bits of a local that is itself a masked (and shifted) byte:  flags = packet[0] & 0x0F ... flags & 0x08  - the bits of that byte
            s0 = src.get("shift") or 0
            extra = dict(extra, source=src["source"], mask=(extra["mask"] << s0) & src["mask"], shift=(extra.get("shift") or 0) + s0)
            off = src["source"].get("off", off)
        r = dict(kind=kind, target=target, off=off, guard=tuple(self.guards), **extra)
        self.reads.append(r)
        return r

    # ---- expressions reading from a cursor ---------------------------------------
    def _rel_to(self, e, v):
        """e as v + Lin (the Lin part), or None when e is not of that form."""
        if isinstance(e, ast.Name) and e.id == v:
            return Lin(0)
        if isinstance(e, ast.Name) and e.id in getattr(self, "hdralias", {}) and self.hdr.get("var") == v:
            return self.hdralias[e.id]
        if isinstance(e, ast.BinOp) and isinstance(e.op, (ast.Add, ast.Sub)):
            pairs = ((e.left, e.right),) if isinstance(e.op, ast.Sub) else ((e.left, e.right), (e.right, e.left))
            for a, b in pairs:
                ra = self._rel_to(a, v)
                if ra is None:
                    continue
                if any(isinstance(x, ast.Name) and x.id == v for x in ast.walk(b)):
                    return None
                try:
                    lb = self.lin(b)
                except AnalysisError:
                    return None
                if isinstance(e.op, ast.Sub):
                    if lb.syms:
                        return None
                    lb = Lin(-lb.c)
                return ra.add(lb)
        return None

    def _hdr_rel(self, e):
        """Offset, from the first byte after the fixed header, of the index expression e = v + k over the scan variable v."""
        v = self.hdr.get("var")
        if not v or v in self.cursors or v in self.locals:
            return None
        r = self._rel_to(e, v)
        if r is None:
            return None
        if self.hdr.get("plus") is None:
            self.hdr["plus"] = 1       # offsets are taken relative to v+d+1 by construction
        return r.add(Lin(-1 - (self.hdr.get("d") or 0)))

    def cursor_of(self, n):
        """(cursor name, offset Lin, upper Lin or None) for  rest / rest[i:] / rest[i:j]."""
        if isinstance(n, ast.Name) and n.id in self.cursors:
            return n.id, self.cursors[n.id], None
        if isinstance(n, ast.Subscript) and isinstance(n.value, ast.Name) and n.value.id == self.pkt and isinstance(n.slice, ast.Slice) \
                and self.hdr.get("var") and n.slice.step is None:
            # pkt[v+k:] with v the index the fixed-header scan stopped at: the variable part starts at v+1, so this is offset k-1
            lo = self._hdr_rel(n.slice.lower) if n.slice.lower is not None else None
            hi = self._hdr_rel(n.slice.upper) if n.slice.upper is not None else None
            if lo is not None and (n.slice.upper is None or hi is not None):
                if self.hdr["plus"] is None:
                    self.hdr["plus"] = 1       # offsets are taken relative to v+1 by construction
                return "@hdr", lo, hi
        if isinstance(n, ast.Subscript) and isinstance(n.value, ast.Name) and n.value.id in self.cursors and isinstance(n.slice, ast.Slice):
            base = self.cursors[n.value.id]
            lo = self.lin(n.slice.lower) if n.slice.lower is not None else Lin(0)
            hi = self.lin(n.slice.upper) if n.slice.upper is not None else None
            return n.value.id, base.add(lo), (base.add(hi) if hi is not None else None)
        return None

    def _byte_offset(self, n):
        """Body offset of a single byte read rest[i] / pkt[v+k] / int(..) of those, or None."""
        if isinstance(n, ast.Call) and isinstance(n.func, ast.Name) and n.func.id == "int" and len(n.args) == 1:
            return self._byte_offset(n.args[0])
        if isinstance(n, ast.Subscript) and isinstance(n.value, ast.Name) and not isinstance(n.slice, ast.Slice):
            if n.value.id in self.cursors:
                try:
                    return self.cursors[n.value.id].add(self.lin(n.slice))
                except AnalysisError:
                    return None
            if n.value.id == self.pkt:
                return self._hdr_rel(n.slice)
        return None

    def read_expr(self, n, target):
        """Recognise an expression that reads from the packet; returns a read record or None."""
        # strip int()
        if isinstance(n, ast.Call) and isinstance(n.func, ast.Name) and n.func.id == "int" and len(n.args) == 1:
            return self.read_expr(n.args[0], target)
        if isinstance(n, ast.Call) and isinstance(n.func, ast.Name) and n.func.id == "decode16Int" and len(n.args) == 1:
            c = self.cursor_of(n.args[0])
            if c is None:
                raise AnalysisError("decoder of %s: decode16Int(%s) not understood" % (self.cls.name, U(n.args[0])))
            width = None
            if c[2] is not None:
                d = (c[2].c - c[1].c) if c[2].syms == c[1].syms else None
                width = d
            self.nsym += 1
            return self.rec("u16", target, c[1], width=width, node=n, sym="N%d" % self.nsym)
        if isinstance(n, ast.BinOp) and isinstance(n.op, (ast.Add, ast.BitOr)):
            # hi*256 + lo / (hi << 8) | lo over two neighbouring bytes: decode16Int written in place
            hi, lo = n.left, n.right
            scaled = None
            if isinstance(hi, ast.BinOp) and ((isinstance(hi.op, ast.Mult) and self.fold(hi.right) == (True, 256)) or
                                              (isinstance(hi.op, ast.LShift) and self.fold(hi.right) == (True, 8))):
                scaled = hi.left
            if scaled is not None:
                o1, o2 = self._byte_offset(scaled), self._byte_offset(lo)
                if o1 is not None and o2 is not None and o2 == o1.add(Lin(1)):
                    self.nsym += 1
                    return self.rec("u16", target, o1, width=2, node=n, sym="N%d" % self.nsym)
        if isinstance(n, ast.Subscript) and isinstance(n.value, ast.Name) and not isinstance(n.slice, ast.Slice):
            if n.value.id in self.cursors:
                return self.rec("byte", target, self.cursors[n.value.id].add(self.lin(n.slice)), node=n, xform=None)
            if n.value.id == self.pkt:
                ok, i = self.fold(n.slice)
                if ok:
                    return self.rec("hdrbyte", target, Lin(i), node=n, xform=None)
                r = self._hdr_rel(n.slice)
                if r is not None:
                    if self.hdr["plus"] is None:
                        self.hdr["plus"] = 1
                    return self.rec("byte", target, r, node=n, xform=None)
        if isinstance(n, ast.Subscript) and isinstance(n.slice, ast.Slice):
            c = self.cursor_of(n)
            if c is not None:
                return self.rec("raw", target, c[1], upto=c[2], node=n)
        if isinstance(n, ast.Name) and n.id in self.cursors and target[0] == "self":
            # the rest of the packet from a position reached earlier
            return self.rec("raw", target, self.cursors[n.id], upto=None, node=n)
        # rest[i:j].decode('utf-8')
        if isinstance(n, ast.Call) and isinstance(n.func, ast.Attribute) and n.func.attr == "decode":
            c = self.cursor_of(n.func.value)
            if c is not None:
                enc = None
                enc_node = n.args[0] if n.args else next((k.value for k in n.keywords if k.arg == "encoding"), None)
                if enc_node is not None:
                    ok, v = self.fold(enc_node)
                    if ok:
                        enc = v
                return self.rec("text", target, c[1], upto=c[2], encoding=enc, node=n)
        return None

    def bit_expr(self, n):
        """(source expression, mask on the raw byte, shift, compare) for flag extraction expressions such as
        (x & M) == M, (x & M) != 0, (x & M) >> S, (x >> S) & M, x & M."""
        cmpc = None
        if isinstance(n, ast.Call) and isinstance(n.func, ast.Name) and n.func.id == "bool" and len(n.args) == 1 and not n.keywords:
            # bool(x & M)  ==  (x & M) != 0
            cmpc = ("NotEq", 0)
            n = n.args[0]
        elif isinstance(n, ast.Compare) and len(n.ops) == 1:
            ok, c = self.fold(n.comparators[0])
            if ok and isinstance(c, int) and not isinstance(n.left, ast.BinOp) and type(n.ops[0]).__name__ in ("GtE", "Gt", "Lt", "LtE"):
                # the top bit of a byte tested on the whole byte: b >= 0x80 / b > 0x7F  ==  (b & 0x80) != 0;  b < 0x80 / b <= 0x7F  ==  == 0
                opn = type(n.ops[0]).__name__
                bit = c if opn in ("GtE", "Lt") else c + 1
                if bit == 0x80:
                    return n.left, 0x80, 0, ("NotEq", 0) if opn in ("GtE", "Gt") else ("Eq", 0)
            if ok:
                cmpc = (type(n.ops[0]).__name__, c)
                n = n.left
        seen = [False]

        def raw(x):
            if isinstance(x, ast.BinOp) and isinstance(x.op, ast.BitAnd):
                ok, m = self.fold(x.right)
                if ok and isinstance(m, int):
                    src, m0, s0 = raw(x.left)
                    seen[0] = True
                    return src, m0 & (m << s0), s0
            if isinstance(x, ast.BinOp) and isinstance(x.op, ast.RShift):
                ok, sh = self.fold(x.right)
                if ok and isinstance(sh, int):
                    src, m0, s0 = raw(x.left)
                    seen[0] = True
                    return src, m0 & (~0 << (s0 + sh)) & 0xFF, s0 + sh
            return x, 0xFF, 0
        src, mask, shift = raw(n)
        if not seen[0]:
            return None
        return src, mask, shift, cmpc

    # ---- statements -------------------------------------------------------------------
    def _run(self, stmts):
        i = 0
        while i < len(stmts):
            s = stmts[i]
            # fixed-header skip idiom: v = 1; while pkt[v] & M: v += 1; rest = pkt[v+1:]
            if isinstance(s, ast.Assign) and len(s.targets) == 1 and isinstance(s.targets[0], ast.Name) and i + 1 < len(stmts) \
                    and isinstance(stmts[i + 1], ast.While) and not self.hdr["found"]:
                v = s.targets[0].id
                w = stmts[i + 1]
                t = w.test
                ok0, start = self.fold(s.value)
                d = None
                if isinstance(t, ast.Compare) and len(t.ops) == 1 and isinstance(t.left, ast.Subscript):
                    # the continuation bit tested on the whole byte:  pkt[v] > 0x7F  /  pkt[v] >= 0x80  ==  pkt[v] & 0x80
                    okc, cv = self.fold(t.comparators[0])
                    bit = (cv + 1) if isinstance(t.ops[0], ast.Gt) else (cv if isinstance(t.ops[0], ast.GtE) else None)
                    if okc and isinstance(cv, int) and bit == 0x80:
                        t = ast.BinOp(left=t.left, op=ast.BitAnd(), right=ast.Constant(value=0x80))
                if isinstance(t, ast.BinOp) and isinstance(t.op, ast.BitAnd) and isinstance(t.left, ast.Subscript) \
                        and isinstance(t.left.value, ast.Name) and t.left.value.id == self.pkt:
                    d = self._rel_to(t.left.slice, v)
                    d = d.c if d is not None and not d.syms else None
                one = len(w.body) == 1 and isinstance(w.body[0], ast.AugAssign) and U(w.body[0].target) == v \
                    and isinstance(w.body[0].op, ast.Add) and self.fold(w.body[0].value) == (True, 1)
                step = 1
                if not one and len(w.body) == 1:
                    # the same scan with a step that is not +1 (v -= 1, v += 2, nothing at all): read as the scan it is meant to be, the
                    # step is reported by the rule that compares the skip with decodeLength
                    b0 = w.body[0]
                    if isinstance(b0, ast.Pass):
                        one, step = True, 0
                    elif isinstance(b0, ast.AugAssign) and U(b0.target) == v and isinstance(b0.op, (ast.Add, ast.Sub)):
                        okk, kv = self.fold(b0.value)
                        if okk and isinstance(kv, int):
                            one, step = True, (kv if isinstance(b0.op, ast.Add) else -kv)
                if ok0 and isinstance(start, int) and d is not None and one:
                    # the scan looks at pkt[v+d] for v = start, start+1, ..: in terms of the index it tests, it starts at start+d and the
                    # variable part begins one past the index it stops at, i.e. at v+d+1
                    start = start + d
                    okm, m = self.fold(t.right)
                    nxt = stmts[i + 2] if i + 2 < len(stmts) else None
                    if isinstance(nxt, ast.Assign) and isinstance(nxt.value, ast.Subscript) and isinstance(nxt.value.value, ast.Name) \
                            and nxt.value.value.id == self.pkt and isinstance(nxt.value.slice, ast.Slice) and nxt.value.slice.upper is None:
                        lo = nxt.value.slice.lower
                        plus = self._rel_to(lo, v) if lo is not None else None
                        plus = (plus.c - d) if plus is not None and not plus.syms else None
                        self.hdr = {"found": True, "mask": m if okm else None, "start": start, "plus": plus, "node": w, "var": v, "d": d, "step": step}
                        self.cursors[nxt.targets[0].id] = Lin(0)
                        i += 3
                        continue
                    # the scan alone: what follows the fixed header is addressed as pkt[v+k:] where it is needed
                    self.hdr = {"found": True, "mask": m if okm else None, "start": start, "plus": None, "node": w, "var": v, "d": d, "step": step}
                    i += 2
                    continue
            self._stmt(s)
            i += 1

    def _stmt(self, s):
        if isinstance(s, ast.Expr):
            if isinstance(s.value, ast.Constant):
                return
            c = s.value
            # self.topics.append(x)   (or through a local that names the list: topics = self.topics)
            if isinstance(c, ast.Call) and isinstance(c.func, ast.Attribute) and c.func.attr == "append" and isinstance(c.func.value, ast.Name) \
                    and isinstance(self.locals.get(c.func.value.id), dict) and self.locals[c.func.value.id].get("kind") == "selflist":
                self.rec("append", self.locals[c.func.value.id]["attr"], None, item=self._item_desc(c.args[0]), node=c)
                return
            if isinstance(c, ast.Call) and isinstance(c.func, ast.Attribute) and c.func.attr == "append" and is_self_attr(c.func.value):
                self.rec("append", c.func.value.attr, None, item=self._item_desc(c.args[0]), node=c)
                return
            raise AnalysisError("decoder of %s: statement %s not understood" % (self.cls.name, U(s)))
        if isinstance(s, ast.Assign) and len(s.targets) == 1:
            t, v = s.targets[0], s.value
            # rest = pkt[K:] with no scan of the remaining-length field before it: the fixed header taken to be K bytes long - read as
            # the body cursor it is meant to be; that the length field was not measured is what the header-skip rule reports
            if isinstance(t, ast.Name) and not self.hdr["found"] and isinstance(v, ast.Subscript) and isinstance(v.value, ast.Name) \
                    and v.value.id == self.pkt and isinstance(v.slice, ast.Slice) and v.slice.upper is None and v.slice.step is None \
                    and v.slice.lower is not None and not self.cursors:
                okk, kk = self.fold(v.slice.lower)
                if okk and isinstance(kk, int) and kk >= 1:
                    self.hdr["const_skip"] = kk
                    self.cursors[t.id] = Lin(0)
                    return
            # a, rest = decodeString(rest)
            if isinstance(t, ast.Tuple) and len(t.elts) == 2 and isinstance(v, ast.Call) and isinstance(v.func, ast.Name) \
                    and v.func.id == "decodeString" and len(v.args) == 1:
                c = self.cursor_of(v.args[0])
                if c is None:
                    raise AnalysisError("decoder of %s: decodeString(%s) not understood" % (self.cls.name, U(v.args[0])))
                tgt = t.elts[0]
                name = ("self", tgt.attr) if is_self_attr(tgt) else ("local", U(tgt))
                self.nsym += 1
                r = self.rec("str", name, c[1], node=v, sym="N%d" % self.nsym)
                if is_self_attr(tgt):
                    self.assigned.append(tgt.attr)
                else:
                    self.locals[U(tgt)] = r
                rest = t.elts[1]
                if isinstance(rest, ast.Name) and rest.id != "_":
                    self.cursors[rest.id] = c[1].add(Lin(2, (r["sym"],)))
                    r["consumed"] = True
                else:
                    r["consumed"] = False
                return
            # another name for what a local already holds (the result of a helper handed on by another helper)
            if isinstance(t, ast.Name) and isinstance(v, ast.Name) and v.id in self.locals and v.id not in self.cursors \
                    and v.id not in getattr(self, "hdralias", {}):
                self.locals[t.id] = self.locals[v.id]
                return
            # end = len(pkt)
            if isinstance(t, ast.Name) and isinstance(v, ast.Call) and isinstance(v.func, ast.Name) and v.func.id == "len" and len(v.args) == 1 \
                    and isinstance(v.args[0], ast.Name) and v.args[0].id == self.pkt:
                self.locals[t.id] = {"kind": "pktlen", "off": None}
                return
            # start = v + k with v the index the fixed-header scan stopped at (the result of a helper that skips the header)
            if isinstance(t, ast.Name) and self.hdr.get("var") and t.id != self.hdr["var"] and not isinstance(v, ast.Subscript):
                rl = self._rel_to(v, self.hdr["var"])
                if rl is not None and any(isinstance(x, ast.Name) and (x.id == self.hdr["var"] or x.id in getattr(self, "hdralias", {})) for x in ast.walk(v)):
                    self.hdralias = getattr(self, "hdralias", {})
                    self.hdralias[t.id] = rl
                    return
            # rest2 = rest  (another name for the same position; results of inlined helpers)
            if isinstance(t, ast.Name) and isinstance(v, ast.Name) and v.id in self.cursors:
                self.cursors[t.id] = self.cursors[v.id]
                return
            # piece = rest[a:a+w]  (a window of constant width w, cut out to be tested for its length and read from its start): a name for
            # the position a; `len(piece) < k` with k <= w is then the test `len(rest) - a < k`
            if isinstance(t, ast.Name) and isinstance(v, ast.Subscript) and isinstance(v.slice, ast.Slice) and v.slice.upper is not None \
                    and v.slice.step is None and isinstance(v.value, ast.Name) and (v.value.id in self.cursors or v.value.id == self.pkt) \
                    and t.id not in self.cursors:
                c = self.cursor_of(v)
                if c is not None and c[2] is not None and c[1].syms == c[2].syms and c[2].c - c[1].c >= 1:
                    self.cursors[t.id] = c[1]
                    self.windows = getattr(self, "windows", {})
                    self.windows[t.id] = c[2].c - c[1].c
                    return
            # rest = rest[k:]
            if isinstance(t, ast.Name) and isinstance(v, ast.Subscript) and isinstance(v.slice, ast.Slice) and v.slice.upper is None \
                    and isinstance(v.value, ast.Name) and self.cursor_of(v) is not None:
                c = self.cursor_of(v)
                self.cursors[t.id] = c[1]
                return
            if isinstance(t, ast.Name) and is_self_attr(v) and v.attr in self.assigned:
                self.locals[t.id] = {"kind": "selflist", "attr": v.attr, "off": None}
                return
            if isinstance(t, ast.Name):
                okc, cv = self.fold(v)
                if okc and isinstance(cv, int) and not isinstance(cv, bool) and not self.guards and t.id not in self.locals \
                        and sum(1 for x in ast.walk(self.fn.node) if isinstance(x, ast.Name) and x.id == t.id and isinstance(x.ctx, ast.Store)) == 1:
                    # a local that names a constant (failure = self.FAILURE_FLAG): masks written with it fold like the constant
                    self.constenv = getattr(self, "constenv", {})
                    self.constenv[t.id] = cv
                    return
                r = self.read_expr(v, ("local", t.id))
                if r is not None:
                    self.locals[t.id] = r
                    return
                if isinstance(v, ast.BinOp) and isinstance(v.op, ast.Add):
                    # an offset: constants, lengths read earlier, a length read in passing
                    mark = len(self.reads)
                    try:
                        self.locals[t.id] = {"kind": "lin", "lin": self.lin(v), "off": None}
                        return
                    except AnalysisError:
                        del self.reads[mark:]
                b = self.bit_expr(v)
                if b is not None:
                    src = self._bit_source(b[0])
                    self.locals[t.id] = self.rec("bits", ("local", t.id), src["off"] if src else None, source=src, mask=b[1], shift=b[2],
                                                 cmp=b[3], node=v)
                    return
                ok, cv = self.fold(v)
                if ok or isinstance(v, (ast.List, ast.Constant)):
                    self.locals[t.id] = {"kind": "const", "value": cv, "off": None}
                    return
                if isinstance(v, ast.Call) and isinstance(v.func, ast.Name) and v.func.id == "len" and len(v.args) == 1:
                    # a length that is not read from the wire: the number of characters/items of something already decoded
                    self.nsym += 1
                    self.locals[t.id] = self.rec("charlen", ("local", t.id), None, of=U(v.args[0]), sym="C%d" % self.nsym, node=v)
                    return
                raise AnalysisError("decoder of %s: assignment %s not understood" % (self.cls.name, U(s)))
            if is_self_attr(t):
                self.assigned.append(t.attr)
                if t.attr == "encoded":
                    return
                # list comprehension over the rest of the packet
                if isinstance(v, ast.ListComp) and len(v.generators) == 1:
                    g = v.generators[0]
                    c = self.cursor_of(g.iter)
                    if c is None:
                        raise AnalysisError("decoder of %s: comprehension over %s not understood" % (self.cls.name, U(g.iter)))
                    var = U(g.target)
                    elts = v.elt.elts if isinstance(v.elt, ast.Tuple) else [v.elt]
                    items = []
                    for e in elts:
                        b = self.bit_expr(e)
                        if b is None or U(b[0]) != var:
                            raise AnalysisError("decoder of %s: comprehension element %s not understood" % (self.cls.name, U(e)))
                        items.append({"mask": b[1], "shift": b[2], "cmp": b[3]})
                    self.rec("bytelist", ("self", t.attr), c[1], items=items, node=v)
                    return
                if isinstance(v, ast.List) and not v.elts:
                    self.rec("listinit", ("self", t.attr), None, node=v)
                    return
                if isinstance(v, ast.Name) and isinstance(self.locals.get(v.id), dict) and self.locals[v.id]["kind"] == "bytelist":
                    r0 = self.locals[v.id]
                    self.rec("bytelist", ("self", t.attr), r0["off"], items=r0["items"], node=r0["node"])
                    return
                r = self.read_expr(v, ("self", t.attr))
                if r is not None:
                    return
                b = self.bit_expr(v)
                if b is not None:
                    src = self._bit_source(b[0])
                    self.rec("bits", ("self", t.attr), src["off"] if src else None, source=src, mask=b[1], shift=b[2], cmp=b[3], node=v)
                    return
                if isinstance(v, ast.Name) and v.id in self.locals:
                    r0 = self.locals[v.id]
                    self.rec("bind", ("self", t.attr), r0.get("off"), source=r0, node=v)
                    return
                ok, cv = self.fold(v)
                if ok or isinstance(v, ast.Name):
                    self.rec("const", ("self", t.attr), None, value=cv if ok else U(v), node=v)
                    return
                raise AnalysisError("decoder of %s: assignment %s not understood" % (self.cls.name, U(s)))
            raise AnalysisError("decoder of %s: assignment %s not understood" % (self.cls.name, U(s)))
        if isinstance(s, ast.AugAssign) and isinstance(s.target, ast.Name) and isinstance(s.op, ast.Add) \
                and s.target.id in getattr(self, "hdralias", {}):
            self.hdralias[s.target.id] = self.hdralias[s.target.id].add(self.lin(s.value))       # pos += k
            return
        if isinstance(s, ast.AugAssign) and isinstance(s.target, ast.Name) and isinstance(s.op, ast.Add) \
                and isinstance(self.locals.get(s.target.id), dict) and self.locals[s.target.id]["kind"] in ("lin", "u16"):
            cur = self.lin(s.target)
            self.locals[s.target.id] = {"kind": "lin", "lin": cur.add(self.lin(s.value)), "off": None}
            return
        if isinstance(s, ast.For) and isinstance(s.target, ast.Name) and not s.orelse and self.cursor_of(s.iter) is not None:
            # for b in rest[k:]: one record per byte, appended to a list (the loop form of a comprehension over the packet's tail)
            c = self.cursor_of(s.iter)
            var = s.target.id
            parts = {}
            dest = None
            items = None
            for b in s.body:
                if isinstance(b, ast.Assign) and len(b.targets) == 1 and isinstance(b.targets[0], ast.Name):
                    be = self.bit_expr(b.value)
                    if be is None or U(be[0]) != var:
                        raise AnalysisError("decoder of %s: loop statement %s not understood" % (self.cls.name, U(b)))
                    parts[b.targets[0].id] = {"mask": be[1], "shift": be[2], "cmp": be[3]}
                    continue
                if isinstance(b, ast.Expr) and isinstance(b.value, ast.Call) and isinstance(b.value.func, ast.Attribute) \
                        and b.value.func.attr == "append" and len(b.value.args) == 1 and dest is None:
                    d = b.value.func.value
                    dest = ("self", d.attr) if is_self_attr(d) else (("local", d.id) if isinstance(d, ast.Name) else None)
                    e = b.value.args[0]
                    items = []
                    for x in (e.elts if isinstance(e, ast.Tuple) else [e]):
                        if isinstance(x, ast.Name) and x.id in parts:
                            items.append(parts[x.id])
                            continue
                        be = self.bit_expr(x)
                        if be is None or U(be[0]) != var:
                            raise AnalysisError("decoder of %s: loop element %s not understood" % (self.cls.name, U(x)))
                        items.append({"mask": be[1], "shift": be[2], "cmp": be[3]})
                    continue
                raise AnalysisError("decoder of %s: loop statement %s not understood" % (self.cls.name, U(b)))
            if dest is None or items is None:
                raise AnalysisError("decoder of %s: loop over %s collects nothing" % (self.cls.name, U(s.iter)))
            if dest[0] == "self":
                self.rec("bytelist", dest, c[1], items=items, node=s)
            else:
                self.locals[dest[1]] = {"kind": "bytelist", "off": c[1], "items": items, "node": s}
            return
        if isinstance(s, ast.If) and not s.orelse and len(s.body) == 1 and isinstance(s.body[0], ast.Raise):
            # a decoder that refuses its input: read only as a test of how much is left - `X >= len(rest)` / `len(rest) < X` ... - recorded as
            # "refuses when len(rest) <= T" and compared with the shortest body the encoder writes
            t = s.test
            rej = None
            if isinstance(t, ast.Compare) and len(t.ops) == 1:
                a_, b_, op = t.left, t.comparators[0], type(t.ops[0]).__name__

                def is_len(x):
                    return isinstance(x, ast.Call) and isinstance(x.func, ast.Name) and x.func.id == "len" and len(x.args) == 1 \
                        and isinstance(x.args[0], ast.Name) and x.args[0].id in self.cursors
                if is_len(b_) and not is_len(a_) and op in ("GtE", "Gt"):
                    rej = (b_.args[0].id, a_, 0 if op == "GtE" else -1)
                elif is_len(a_) and not is_len(b_) and op in ("LtE", "Lt"):
                    rej = (a_.args[0].id, b_, 0 if op == "LtE" else -1)
            if isinstance(t, ast.UnaryOp) and isinstance(t.op, ast.Not) and isinstance(t.operand, ast.Name) and t.operand.id in self.cursors:
                rej = (t.operand.id, ast.Constant(value=1), -1)        # `not rest`: nothing left, len(rest) < 1
            if rej is None:
                raise AnalysisError("decoder of %s: raise under a test that is not a length test (%s)" % (self.cls.name, U(t)))
            T = self.lin(rej[1]).add(rej[2])
            w_ = getattr(self, "windows", {}).get(rej[0])
            if w_ is not None and T.syms:
                raise AnalysisError("decoder of %s: length test %s on a window of width %d" % (self.cls.name, U(t), w_))
            txt = U(t)
            if w_ is not None and T.c + 1 > w_:
                # more is asked of the window than it can ever hold: every input is refused
                T, txt = Lin(1 << 28), "%s (a window %d bytes wide: always)" % (txt, w_)
            self.rejects = getattr(self, "rejects", [])
            self.rejects.append({"cursor": self.cursors[rej[0]], "T": T, "node": s, "text": txt, "guard": tuple(self.guards)})
            return
        if isinstance(s, ast.If):
            g = U(s.test)
            desc = self._cond_desc(s.test)
            if g not in self.branch_guards:
                self.branch_guards.append(g)
            if g in self.assume:
                self.guards.append((g, self.assume[g], desc))
                self._run(s.body if self.assume[g] else s.orelse)
                self.guards.pop()
                return
            cur0 = dict(self.cursors)
            ha0 = dict(getattr(self, "hdralias", {}))
            lin0 = {k: v for k, v in self.locals.items() if isinstance(v, dict) and v.get("kind") == "lin"}
            self.guards.append((g, True, desc))
            self._run(s.body)
            self.guards.pop()
            cur1 = dict(self.cursors)
            ha1 = dict(getattr(self, "hdralias", {}))
            self.hdralias = dict(ha0)
            lin1 = {k: v for k, v in self.locals.items() if isinstance(v, dict) and v.get("kind") == "lin"}
            self.cursors = dict(cur0)
            self.locals.update(lin0)
            self.guards.append((g, False, desc))
            self._run(s.orelse)
            self.guards.pop()
            cur2 = dict(self.cursors)
            ha2 = dict(getattr(self, "hdralias", {}))
            for k in set(ha1) | set(ha2):
                a, b = ha1.get(k), ha2.get(k)
                if a == b:
                    self.hdralias[k] = a
                else:
                    self.hdralias[k] = ha0.get(k, Lin(0)).add(Lin(0, ("opt@%s" % g,)))      # a position past an optional section
            lin2 = {k: v for k, v in self.locals.items() if isinstance(v, dict) and v.get("kind") == "lin"}
            for k in set(lin1) | set(lin2):
                a, b = lin1.get(k), lin2.get(k)
                if a is not None and b is not None and a["lin"] != b["lin"]:
                    base = lin0[k]["lin"] if k in lin0 else Lin(0)
                    self.locals[k] = {"kind": "lin", "lin": base.add(Lin(0, ("opt@%s" % g,))), "off": None}
            # after an optional section the cursor is symbolic
            for k in set(cur1) | set(cur2):
                a, b = cur1.get(k), cur2.get(k)
                if a == b:
                    self.cursors[k] = a
                else:
                    base = cur0.get(k, Lin(0))
                    self.cursors[k] = base.add(Lin(0, ("opt@%s" % g,)))
            return
        if isinstance(s, ast.While):
            # while pos < len(pkt) (or a local that holds len(pkt)): the same repetition, walked by a position
            t = s.test
            if isinstance(t, ast.Compare) and len(t.ops) == 1 and isinstance(t.ops[0], ast.Lt) and isinstance(t.left, ast.Name) \
                    and t.left.id in getattr(self, "hdralias", {}):
                rhs = t.comparators[0]
                is_len = (isinstance(rhs, ast.Call) and isinstance(rhs.func, ast.Name) and rhs.func.id == "len" and len(rhs.args) == 1
                          and isinstance(rhs.args[0], ast.Name) and rhs.args[0].id == self.pkt) or \
                    (isinstance(rhs, ast.Name) and isinstance(self.locals.get(rhs.id), dict) and self.locals[rhs.id].get("kind") == "pktlen")
                if is_len:
                    pname = t.left.id
                    d0 = -1 - (self.hdr.get("d") or 0)
                    start = self.hdralias[pname].add(Lin(d0))           # as a body offset
                    self.guards.append(("repeat", True, ("repeat", pname)))
                    mark = len(self.reads)
                    self.hdralias[pname] = Lin(-d0, ("iter",))          # body offset 0 + iter
                    self._run(s.body)
                    adv = self.hdralias[pname].add(Lin(d0))
                    self.guards.pop()
                    body = self.reads[mark:]
                    del self.reads[mark:]
                    self.rec("repeat", None, start, body=body, advance=adv, node=s)
                    self.hdralias[pname] = start.add(Lin(-d0, ("rest",)))
                    return
            # while len(rest): ... repeated records until the packet is exhausted
            if isinstance(t, ast.Name) and t.id in self.cursors:
                t = ast.Call(func=ast.Name(id="len", ctx=ast.Load()), args=[t], keywords=[])      # while rest:  ==  while len(rest):
            # while len(rest) > k / >= k / != 0 / k < len(rest): the loop stops with up to `leftover` bytes unread
            leftover = 0
            if isinstance(t, ast.Compare) and len(t.ops) == 1:
                l, op, r_ = t.left, t.ops[0], t.comparators[0]
                if isinstance(l, ast.Constant) and isinstance(op, (ast.Lt, ast.LtE)):
                    l, r_, op = r_, l, (ast.Gt() if isinstance(op, ast.Lt) else ast.GtE())
                if isinstance(l, ast.Name) and l.id in self.cursors:
                    l = ast.Call(func=ast.Name(id="len", ctx=ast.Load()), args=[l], keywords=[])
                if isinstance(l, ast.Call) and isinstance(l.func, ast.Name) and l.func.id == "len" and len(l.args) == 1 \
                        and isinstance(l.args[0], ast.Name) and l.args[0].id in self.cursors and isinstance(r_, ast.Constant) \
                        and type(r_.value) is int and r_.value >= 0:
                    k = r_.value
                    if isinstance(op, ast.Gt):
                        t, leftover = l, k
                    elif isinstance(op, ast.GtE) and k >= 1:
                        t, leftover = l, k - 1
                    elif isinstance(op, ast.NotEq) and k == 0:
                        t, leftover = l, 0
            if isinstance(t, ast.Call) and isinstance(t.func, ast.Name) and t.func.id == "len" and isinstance(t.args[0], ast.Name) \
                    and t.args[0].id in self.cursors:
                cname = t.args[0].id
                start = self.cursors[cname]
                self.guards.append(("repeat", True, ("repeat", cname)))
                mark = len(self.reads)
                self.cursors[cname] = Lin(0, ("iter",))
                self._run(s.body)
                adv = self.cursors[cname]
                self.guards.pop()
                body = self.reads[mark:]
                del self.reads[mark:]
                self.rec("repeat", None, start, body=body, advance=adv, node=s, leftover=leftover)
                self.cursors[cname] = start.add(Lin(0, ("rest",)))
                return
            raise AnalysisError("decoder of %s: loop %s not understood" % (self.cls.name, U(s.test)))
        if isinstance(s, ast.Pass):
            return
        raise AnalysisError("decoder of %s: statement %s not understood" % (self.cls.name, type(s).__name__))

    def _bit_source(self, n):
        if isinstance(n, ast.Name) and n.id in self.locals:
            return self.locals[n.id]
        # a direct read: packet[0], rest[i], int(rest[i])
        r = self.read_expr(n, ("tmp", U(n)))
        if r is not None:
            self.reads.remove(r)
            return r
        return None

    def _item_desc(self, n):
        if isinstance(n, ast.Tuple):
            return tuple(self._item_desc(e) for e in n.elts)
        if isinstance(n, ast.Name) and n.id in self.locals:
            return self.locals[n.id]
        b = self.bit_expr(n)
        if b is not None:
            # a flag / bit field extracted in place (what a local assigned from the same expression would hold)
            src = self._bit_source(b[0])
            if src is not None:
                return self.rec("bits", ("local", "<item>"), src["off"], source=src, mask=b[1], shift=b[2], cmp=b[3], node=n)
        return {"kind": "expr", "text": U(n)}

    def _cond_desc(self, t):
        if isinstance(t, ast.Name) and t.id in self.locals:
            return ("local", self.locals[t.id])
        b = self.bit_expr(t)
        if b is not None:
            # `if flags & M:` - the test a local flag assigned from (flags & M) != 0 would stand for
            src = self._bit_source(b[0])
            if src is not None:
                cmpc = b[3] if b[3] is not None else ("NotEq", 0)
                return ("local", self.rec("bits", ("local", "<test>"), src["off"], source=src, mask=b[1], shift=b[2], cmp=cmpc, node=t))
        if is_self_attr(t):
            return ("self", t.attr)
        return ("expr", U(t))

    def fields_assigned(self):
        return set(self.assigned)


def decoder_layouts(prog):
    m = prog.modules.get("mqtt.pdu")
    out = {}
    for c in pdu_classes(prog).values():
        out[c.name] = DecoderLayout(prog, c)
    return out
