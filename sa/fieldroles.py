"""Roles of attribute names in the analysed program (set when an Analysis is built): which attributes hold callLater()
handles ('alarm' fields) and which hold LoopingCalls.  Rules ask by role, not by the name the repository happens to use."""
_ROLES = {"alarm": {"alarm"}, "loop": {"timer"}, "mutable": set(), "interval": {"interval"}, "qos0": {"interval"}}


def set_roles(roles):
    _ROLES.clear()
    _ROLES.update(roles)


def is_alarm_field(name):
    return name in _ROLES["alarm"]


def is_loop_field(name):
    return name in _ROLES["loop"]


def is_alarm_handle(t, owner=None):
    """t is ('attr', owner, <alarm field>)."""
    return isinstance(t, tuple) and len(t) == 3 and t[0] == "attr" and t[2] in _ROLES["alarm"] and (owner is None or t[1] == owner)


def is_interval_field(name):
    return name in _ROLES["interval"]


def _marks(facts, obj):
    marks = _ROLES.get("qos0", _ROLES["interval"])
    neg = pos = False
    for k, v in facts.items():
        if isinstance(k, tuple) and k[0] in ("truthy", "nonnull") and isinstance(k[1], tuple) and len(k[1]) == 3 \
                and k[1][0] == "attr" and k[1][2] in marks and (obj is None or k[1][1] == obj):
            if v is False:
                neg = True
            elif v is True:
                pos = True
    return neg, pos


def no_interval(facts, obj=None):
    """Do the facts of a path say that a request has no retry-interval object (one of the fields that mark a never-armed, QoS 0
    request tested falsy or None)?"""
    return _marks(facts, obj)[0]


def interval_conflict(facts, obj=None):
    """Two markers of the same request tested opposite ways (they are set together, so the path cannot happen)."""
    neg, pos = _marks(facts, obj)
    return neg and pos


def no_interval_conds(conds, obj=None):
    for c in conds:
        t, pol = c.term, c.pol
        while isinstance(t, tuple) and t and t[0] == "not":
            t, pol = t[1], not pol
        if isinstance(t, tuple) and t and t[0] == "nonnull":
            t = t[1]
        if pol is False and isinstance(t, tuple) and len(t) == 3 and t[0] == "attr" and t[2] in _ROLES.get("qos0", _ROLES["interval"]) and (obj is None or t[1] == obj):
            return True
    return False
