import importlib
import os
import sys
import time
import traceback

from .model import AnalysisError
from .report import Ctx, finish

TRUSTED = [
    "CPython 3.12 ast module and the Python semantics of the statement kinds modelled by the path walker",
    "Twisted contracts (Deferred fires once; DelayedCall.cancel raises unless pending; transport calls connectionLost once; "
    "TCP transport still sends write() issued after loseConnection())",
    "user callbacks (onPublish, onDisconnection, onMqttConnectionMade, Deferred callbacks) do not raise into the library",
    "MQTT 3.1/3.1.1 tables transcribed in the checker from the OASIS text",
]


def main(argv):
    if not argv:
        print("usage: vcheck <Cxx> [--tier quick|thorough]")
        return 2
    prop = argv[0].upper()
    tier = os.environ.get("VERIF_TIER", "quick")
    if "--tier" in argv:
        tier = argv[argv.index("--tier") + 1]
    if tier not in ("quick", "thorough"):
        tier = "quick"
    try:
        seed = int(os.environ.get("VERIF_SEED", "0"))
    except ValueError:
        seed = 0
    t0 = time.time()
    try:
        try:
            mod = importlib.import_module("sa.rules." + prop.lower())
        except ModuleNotFoundError:
            print("ANALYSIS-ERROR property=%s no rules built for this property" % prop)
            return 2
        from .engine import Analysis
        depth = 14 if tier == "quick" else 18
        a = Analysis(depth=depth)
        ctx = Ctx(prop, a, tier)
        mod.check(ctx)
        selftest = None
        if tier == "thorough" and not [f for f in ctx.findings]:
            from . import selftest as st
            selftest = st.run_for(prop, mod)
        elif tier == "thorough":
            from . import selftest as st
            selftest = st.run_for(prop, mod, baseline_findings=ctx.findings)
        return finish(ctx, time.time() - t0, seed, selftest=selftest,
                      explanation=getattr(mod, "EXPLANATION", ""), trusted=TRUSTED,
                      assumptions=getattr(mod, "ASSUMPTIONS", []))
    except AnalysisError as e:
        print("ANALYSIS-ERROR property=%s %s" % (prop, e))
        return 2
    except Exception as e:
        traceback.print_exc()
        print("ANALYSIS-ERROR property=%s checker raised %s: %s" % (prop, type(e).__name__, e))
        return 2
