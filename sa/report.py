"""Verdict protocol: obligations, findings, known findings, reports, evidence (DESIGN section 3)."""
import json
import os
import time

VERIF = os.path.dirname(os.path.dirname(os.path.abspath(__file__)))
KNOWN_FILE = os.path.join(VERIF, "known_findings.json")


class Finding:
    def __init__(self, prop, rule, construct, file, line, function, message, detail=None):
        self.prop = prop
        self.rule = rule
        self.construct = construct
        self.file = file
        self.line = line
        self.function = function
        self.message = message
        self.detail = detail or {}

    def key(self):
        return (self.prop, self.rule, self.construct)

    def to_json(self, digest):
        d = {"property": self.prop, "rule": self.rule, "construct": self.construct, "file": self.file,
             "line": self.line, "function": self.function, "message": self.message, "tree_digest": digest}
        d.update(self.detail)
        return d


class Ctx:
    """Collects what one property check analysed and found."""

    def __init__(self, prop, analysis, tier):
        self.prop = prop
        self.a = analysis
        self.tier = tier
        self.obligations = []     # (rule, instance, ok, where)
        self.findings = []
        self.notes = []
        self.analysed = {}
        self.floors = []          # (what, seen, floor)
        self.nontrivial = set()

    def ob(self, rule, instance, ok, where="", msg=None, construct=None, file=None, line=0, function="",
           nontrivial=True, **detail):
        """Record one rule instance.  A failed one becomes a finding keyed by `construct`."""
        self.obligations.append((rule, instance, bool(ok), where))
        if nontrivial:
            self.nontrivial.add((rule, instance))
        if not ok:
            if file is None and where and ":" in where:
                file, _, ln = where.rpartition(":")
                try:
                    line = int(ln)
                except ValueError:
                    file, line = where, 0
            self.findings.append(Finding(self.prop, rule, construct or instance, file or "", line, function,
                                         msg or ("rule %s violated at %s" % (rule, instance)), detail))
        return bool(ok)

    def note(self, text):
        self.notes.append(text)

    def count(self, what, n):
        self.analysed[what] = self.analysed.get(what, 0) + n

    def floor(self, what, seen, floor):
        self.floors.append((what, seen, floor))


def load_known():
    if not os.path.exists(KNOWN_FILE):
        return []
    with open(KNOWN_FILE) as f:
        return json.load(f)


def jsonable(x, depth=0):
    if depth > 8:
        return str(x)
    if isinstance(x, (str, int, float, bool)) or x is None:
        return x
    if isinstance(x, dict):
        return {str(k): jsonable(v, depth + 1) for k, v in x.items()}
    if isinstance(x, (list, tuple, set, frozenset)):
        return [jsonable(v, depth + 1) for v in x]
    return str(x)


def finish(ctx, wall, seed, selftest=None, explanation="", level_rule="", trusted=None, assumptions=None):
    """Prints verdict lines, writes reports and evidence; returns the exit status."""
    from .model import AnalysisError
    known = [k for k in load_known() if k.get("property") == ctx.prop]
    known_keys = {(k["rule"], k["construct"]) for k in known if k.get("status") == "known"}
    has_unlisted = any((f.rule, f.construct) not in known_keys for f in ctx.findings)
    if not has_unlisted:
        # a floor only guards against passing vacuously; actual findings are reported in any case
        for what, seen, fl in ctx.floors:
            if seen < fl:
                raise AnalysisError("floor: %s: %d seen, %d confirmed by hand (rule would pass vacuously)" % (what, seen, fl))
    known_active = {(k["rule"], k["construct"]): k for k in known if k.get("status") == "known"}
    unlisted, matched = [], []
    seen_keys = set()
    for f in ctx.findings:
        k = (f.rule, f.construct)
        if k in seen_keys:
            continue
        seen_keys.add(k)
        if k in known_active:
            matched.append((f, known_active[k]))
        else:
            unlisted.append(f)
    for f, k in matched:
        print("KNOWN-FINDING: property=%s %s [%s %s]" % (ctx.prop, k.get("what", f.message), f.rule, f.construct))
    rdir = os.path.join(VERIF, "reports", ctx.prop)
    status = 0
    if unlisted:
        os.makedirs(rdir, exist_ok=True)
        per_rule = {}
        for f in unlisted:
            n = per_rule.get(f.rule, 0) + 1
            per_rule[f.rule] = n
            path = os.path.join(rdir, "%s-%d.json" % (f.rule, n))
            with open(path, "w") as fh:
                json.dump(jsonable(f.to_json(ctx.a.prog.digest)), fh, indent=1)
            print("  %s %s: %s:%s %s -- %s" % (f.rule, f.construct, f.file, f.line, f.function, f.message))
            print("VIOLATION property=%s replay=%s" % (ctx.prop, path))
        status = 1
    nob = len(ctx.obligations)
    ndis = sum(1 for o in ctx.obligations if o[2])
    per_rule = {}
    for rule, inst, ok, where in ctx.obligations:
        r = per_rule.setdefault(rule, {"instances": 0, "satisfied": 0})
        r["instances"] += 1
        r["satisfied"] += 1 if ok else 0
    samples = []
    seen_rules = set()
    for rule, inst, ok, where in ctx.obligations:
        if rule not in seen_rules or not ok:
            seen_rules.add(rule)
            samples.append({"rule": rule, "instance": inst, "where": where, "verdict": "holds" if ok else "VIOLATED"})
        if len(samples) >= 60:
            break
    ev = {
        "property_id": ctx.prop, "tier": ctx.tier, "seed": seed, "level": "other",
        "wall_s": round(wall, 3), "violations": len(unlisted),
        "coverage": {
            "explanation": explanation,
            "obligations": nob, "discharged": ndis,
            "evaluations": max(nob, 1), "distinct_nontrivial": max(len(ctx.nontrivial), 0),
            "rule": level_rule or "one evaluation = one rule instance (rule x construct) decided on the current "
                                  "source tree; non-trivial = the instance has a construct of its own "
                                  "(site, path, cell) in the analysed code; distinct by (rule, construct)",
            "samples": samples,
            "per_rule": per_rule,
            "analysed": ctx.analysed,
            "floors": [{"what": w, "seen": s, "floor": f} for w, s, f in ctx.floors],
            "known_findings_matched": [{"rule": f.rule, "construct": f.construct} for f, _ in matched],
            "notes": ctx.notes,
            "tree_digest": ctx.a.prog.digest,
            "checker_cmd": "./vcheck %s --tier %s" % (ctx.prop, ctx.tier),
            "trusted_base": trusted or [],
            "exhaustive": True,
        },
        "assumptions": assumptions or [],
    }
    if selftest is not None:
        ev["coverage"]["selftest"] = selftest
    os.makedirs(os.path.join(VERIF, "evidence"), exist_ok=True)
    with open(os.path.join(VERIF, "evidence", ctx.prop + ".json"), "w") as fh:
        json.dump(jsonable(ev), fh, indent=1)
    print("%s %s: %d rule instances, %d hold, %d known, %d unlisted violations (%.2fs)" % (
        ctx.prop, ctx.tier, nob, ndis, len(matched), len(unlisted), wall))
    return status
